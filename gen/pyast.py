"""Shared core of the fail-closed translators: locating definitions in the current /repo source."""
import ast, os
REPO = os.environ.get("PYGOM_REPO", "/repo")
SRC = os.path.join(REPO, "src", "pygom")


class Unsupported(Exception):
    pass


PINNED = os.path.join(os.path.dirname(os.path.abspath(__file__)), "pinned")


def parse(rel):
    """the current source of src/pygom/<rel>.  Functions that differ from the pinned copy (gen/pinned/<rel>, the source the
    translators were written against) only by the names of their local variables and by docstrings are handed to the
    translators under the pinned local names (alpha-normalisation); any other difference is left exactly as it is."""
    tree = ast.parse(open(os.path.join(SRC, rel)).read())
    pin = os.path.join(PINNED, rel)
    if os.path.exists(pin) and not os.environ.get("PYGOM_NO_ALPHA"):
        try:
            alpha_normalise(tree, ast.parse(open(pin).read()))
        except RecursionError:
            pass
    return tree


# ---------------------------------------------------------------------------------------------------- alpha-normalisation
def _functions(tree):
    out = {}
    def add(prefix, body):
        for n in body:
            if isinstance(n, (ast.FunctionDef, ast.AsyncFunctionDef)):
                out.setdefault((prefix, n.name, tuple(ast.unparse(d) for d in n.decorator_list)), n)
            elif isinstance(n, ast.ClassDef):
                add(prefix + n.name + ".", n.body)
    add("", tree.body)
    return out


def _params(f):
    a = f.args
    out = [x.arg for x in a.posonlyargs + a.args + a.kwonlyargs]
    if a.vararg: out.append(a.vararg.arg)
    if a.kwarg: out.append(a.kwarg.arg)
    return set(out)


def _locals(f):
    """names bound in the scope of f itself or in comprehensions inside it (nested functions / lambdas are scopes of their own)"""
    names, excl = set(), set()
    todo = list(ast.iter_child_nodes(f))
    while todo:
        n = todo.pop()
        if isinstance(n, (ast.FunctionDef, ast.AsyncFunctionDef)):
            excl.add(n.name)
            continue
        if isinstance(n, (ast.Lambda, ast.ClassDef)):
            continue
        if isinstance(n, ast.Name) and isinstance(n.ctx, (ast.Store, ast.Del)):
            names.add(n.id)
        elif isinstance(n, ast.ExceptHandler) and n.name:
            names.add(n.name)
        elif isinstance(n, (ast.Global, ast.Nonlocal)):
            excl.update(n.names)
        elif isinstance(n, (ast.Import, ast.ImportFrom)):
            excl.update((a.asname or a.name).split(".")[0] for a in n.names)
        todo.extend(ast.iter_child_nodes(n))
    return names - excl - _params(f)


def _is_doc(st):
    return isinstance(st, ast.Expr) and isinstance(st.value, ast.Constant) and isinstance(st.value.value, str)


def _arglist(f):
    a = f.args
    return a.posonlyargs + a.args + a.kwonlyargs + ([a.vararg] if a.vararg else []) + ([a.kwarg] if a.kwarg else [])


class _Alpha:
    """structural equality of a (current) and b (pinned) up to a bijective renaming of local names, scope by scope"""

    def __init__(self, la, lb):
        self.la, self.lb = set(la), set(lb)
        self.m, self.inv, self.patches = {}, {}, []

    def name(self, node, attr, x, y):
        if (x in self.la) != (y in self.lb):
            return False
        if x not in self.la:
            return x == y
        if self.m.setdefault(x, y) != y or self.inv.setdefault(y, x) != x:
            return False
        if x != y:
            self.patches.append((node, attr, y))
        return True

    def eq(self, a, b):
        if a is None or b is None:
            return a is None and b is None
        if type(a) is not type(b):
            return False
        if isinstance(a, ast.Name):
            return self.name(a, "id", a.id, b.id)
        if isinstance(a, (ast.Lambda, ast.FunctionDef, ast.AsyncFunctionDef)):
            return self.scope(a, b)
        if isinstance(a, ast.ExceptHandler):
            if (a.name is None) != (b.name is None) or (a.name is not None and not self.name(a, "name", a.name, b.name)):
                return False
        return self.fields(a, b)

    def fields(self, a, b, skip=()):
        for (fa, va), (fb, vb) in zip(ast.iter_fields(a), ast.iter_fields(b)):
            if fa in skip or (isinstance(a, ast.ExceptHandler) and fa == "name"):
                continue
            if fa in ("lineno", "col_offset", "end_lineno", "end_col_offset", "type_comment", "kind"):
                continue
            if isinstance(va, list):
                if not isinstance(vb, list):
                    return False
                if fa == "body":
                    va = [s for s in va if not _is_doc(s)]
                    vb = [s for s in vb if not _is_doc(s)]
                if len(va) != len(vb):
                    return False
                for x, y in zip(va, vb):
                    if isinstance(x, ast.AST):
                        if not self.eq(x, y):
                            return False
                    elif x != y:
                        return False
            elif isinstance(va, ast.AST) or isinstance(vb, ast.AST):
                if not self.eq(va, vb):
                    return False
            elif va != vb:
                return False
        return True

    def scope(self, a, b):
        """a nested function / lambda: its parameters and its own locals are renamable inside it only"""
        pa, pb = _arglist(a), _arglist(b)
        if len(pa) != len(pb):
            return False
        if not isinstance(a, ast.Lambda) and a.name != b.name:
            return False
        # defaults / decorators / annotations live in the enclosing scope
        for x, y in zip(a.args.defaults + a.args.kw_defaults, b.args.defaults + b.args.kw_defaults):
            if not self.eq(x, y):
                return False
        na = {x.arg for x in pa} | (set() if isinstance(a, ast.Lambda) else _locals(a))
        nb = {x.arg for x in pb} | (set() if isinstance(b, ast.Lambda) else _locals(b))
        saved = (self.la, self.lb, self.m, self.inv)
        self.la, self.lb = self.la | na, self.lb | nb
        self.m = {k: v for k, v in self.m.items() if k not in na}
        self.inv = {k: v for k, v in self.inv.items() if k not in nb}
        ok = all(self.name(x, "arg", x.arg, y.arg) for x, y in zip(pa, pb))
        if ok:
            if isinstance(a, ast.Lambda):
                ok = self.eq(a.body, b.body)
            else:
                ok = self.fields(a, b, skip=("args", "name", "decorator_list", "returns"))
        inner_m, inner_inv = self.m, self.inv
        self.la, self.lb, self.m, self.inv = saved
        if ok:      # what the inner scope learnt about OUTER names must agree with the outer mapping
            for k, v in inner_m.items():
                if k not in na and (self.m.setdefault(k, v) != v or self.inv.setdefault(v, k) != k):
                    return False
        return ok


def alpha_normalise(tree, pinned):
    cur, pin = _functions(tree), _functions(pinned)
    for key, f in cur.items():
        g = pin.get(key)
        if g is None or ast.dump(f.args) != ast.dump(g.args):
            continue        # parameters keep their names: the argument lists are compared literally
        al = _Alpha(_locals(f), _locals(g))
        fb = [s for s in f.body if not _is_doc(s)]
        gb = [s for s in g.body if not _is_doc(s)]
        if len(fb) == len(gb) and all(al.eq(x, y) for x, y in zip(fb, gb)):
            for node, attr, val in al.patches:
                setattr(node, attr, val)


def find_class(tree, cls):
    for n in tree.body:
        if isinstance(n, ast.ClassDef) and n.name == cls:
            return n
    raise Unsupported("class %s not found" % cls)


def find_method(rel, cls, name, decorator=None):
    c = find_class(parse(rel), cls)
    for f in c.body:
        if isinstance(f, ast.FunctionDef) and f.name == name:
            decs = [ast.unparse(d) for d in f.decorator_list]
            if decorator is None and not any(d.endswith(".setter") for d in decs):
                return f
            if decorator is not None and decorator in decs:
                return f
    raise Unsupported("%s.%s not found" % (cls, name))


def find_function(rel, name):
    for n in parse(rel).body:
        if isinstance(n, ast.FunctionDef) and n.name == name:
            return n
    raise Unsupported("function %s not found in %s" % (name, rel))


def attr_chain(e):
    parts = []
    while isinstance(e, ast.Attribute):
        parts.append(e.attr)
        e = e.value
    if isinstance(e, ast.Name):
        parts.append(e.id)
    else:
        raise Unsupported("attr chain: " + ast.dump(e)[:80])
    return ".".join(reversed(parts))


def walk_no_nested(node):
    """ast.walk that does not descend into nested function definitions"""
    todo = list(ast.iter_child_nodes(node))
    while todo:
        n = todo.pop()
        yield n
        if not isinstance(n, (ast.FunctionDef, ast.Lambda, ast.ClassDef)):
            todo.extend(ast.iter_child_nodes(n))


def failed(modname, reason):
    return ("(* GENERATED — translator failed closed: %s *)\nDefinition translator_ok := false.\n"
            % reason.replace("*)", "* )"))


def coq_bool(b):
    return "true" if b else "false"
