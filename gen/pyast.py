"""Shared core of the fail-closed translators: locating definitions in the current /repo source."""
import ast, os
REPO = os.environ.get("PYGOM_REPO", "/repo")
SRC = os.path.join(REPO, "src", "pygom")


class Unsupported(Exception):
    pass


def parse(rel):
    return ast.parse(open(os.path.join(SRC, rel)).read())


def find_class(tree, cls):
    for n in tree.body:
        if isinstance(n, ast.ClassDef) and n.name == cls:
            return n
    raise Unsupported("class %s not found" % cls)


def find_method(rel, cls, name, decorator=None):
    c = find_class(parse(rel), cls)
    for f in c.body:
        if isinstance(f, ast.FunctionDef) and f.name == name:
            decs = [ast.unparse(d) for d in f.decorator_list]
            if decorator is None and not any(d.endswith(".setter") for d in decs):
                return f
            if decorator is not None and decorator in decs:
                return f
    raise Unsupported("%s.%s not found" % (cls, name))


def find_function(rel, name):
    for n in parse(rel).body:
        if isinstance(n, ast.FunctionDef) and n.name == name:
            return n
    raise Unsupported("function %s not found in %s" % (name, rel))


def attr_chain(e):
    parts = []
    while isinstance(e, ast.Attribute):
        parts.append(e.attr)
        e = e.value
    if isinstance(e, ast.Name):
        parts.append(e.id)
    else:
        raise Unsupported("attr chain: " + ast.dump(e)[:80])
    return ".".join(reversed(parts))


def walk_no_nested(node):
    """ast.walk that does not descend into nested function definitions"""
    todo = list(ast.iter_child_nodes(node))
    while todo:
        n = todo.pop()
        yield n
        if not isinstance(n, (ast.FunctionDef, ast.Lambda, ast.ClassDef)):
            todo.extend(ast.iter_child_nodes(n))


def failed(modname, reason):
    return ("(* GENERATED — translator failed closed: %s *)\nDefinition translator_ok := false.\n"
            % reason.replace("*)", "* )"))


def coq_bool(b):
    return "true" if b else "false"
