"""C19 translator: what every R-style wrapper in src/pygom/utilR/distn.py calls -> coq/Gen/DistnGen.v

For each public d/p/q function of the nine listed families and each value of its boolean flags
(`log`, `lower_tail`) and, for the negative binomial, each prob/mu alternative, the body is evaluated
symbolically (a tiny partial evaluator over the restricted subset used in the file) down to ONE of
    Stub | Raises | Scipy fam meth [(slot, expr)] | Inline expr
and for each r function, per kind of `seed` argument and per `n > 1` branch, down to
    RStub | RRaises | RDraw source (NpCall sampler args | SpRvs fam args) first
where `source` says which random state the draw consumes.  `test_seed` is evaluated the same way.
Anything outside the subset raises Unsupported -> `translator_ok := false` (never a guess).  Stubs are
facts (Stub / RStub), not failures.

Python semantics assumed (trusted, and re-validated by the correspondence in harness/c19.py):
 * a later `def` of the same name replaces an earlier one;
 * `isinstance(True, int)` and `isinstance(False, int)` are True; truthiness of 0 / None / False is False;
 * keyword/positional binding of calls to module-level functions.
"""
import ast
import itertools
from fractions import Fraction
from pyast import parse, Unsupported, failed

REL = "utilR/distn.py"
FAMS = ["exp", "gamma", "norm", "chisq", "unif", "beta", "pois", "binom", "nbinom"]
SCIPY_FAM = {"expon": "Expon", "gamma": "Gamma", "norm": "Norm", "chi2": "Chi2", "uniform": "Uniform",
             "beta": "Beta", "poisson": "Poisson", "binom": "Binom", "nbinom": "NBinom"}
METH = {"pdf": "Pdf", "logpdf": "LogPdf", "cdf": "Cdf", "logcdf": "LogCdf", "sf": "Sf", "logsf": "LogSf",
        "ppf": "Ppf", "isf": "Isf", "pmf": "Pmf", "logpmf": "LogPmf", "rvs": "Rvs"}
NP_SAMPLER = {"exponential": "NpExponential", "gamma": "NpGamma", "normal": "NpNormal",
              "chisquare": "NpChisquare", "uniform": "NpUniform", "poisson": "NpPoisson",
              "binomial": "NpBinomial", "negative_binomial": "NpNegBinomial", "beta": "NpBeta"}
FLAGS = ("log", "lower_tail")
KINDS = ["SNone", "SInt", "SInt0", "SRS", "STrue", "SFalse"]
MODES = ["ByProb", "ByMu", "Neither", "Both"]

# truth tables for the kinds of `seed` value
TRUTHY = {"SNone": False, "SInt": True, "SInt0": False, "SRS": True, "STrue": True, "SFalse": False}
IS_INT = {"SNone": False, "SInt": True, "SInt0": True, "SRS": False, "STrue": True, "SFalse": True}


class Fall(Exception):
    pass


def chain(e):
    parts = []
    while isinstance(e, ast.Attribute):
        parts.append(e.attr)
        e = e.value
    if isinstance(e, ast.Name):
        parts.append(e.id)
        return list(reversed(parts))
    return None


class Ev:
    """symbolic evaluator; values are tuples tagged by their first component"""

    def __init__(self, funcs, first, nbranch=None):
        self.funcs = funcs          # module-level FunctionDef by name (last definition)
        self.first = first          # name of the wrapper's first parameter
        self.nbranch = nbranch
        self.depth = 0

    # ---------------------------------------------------------------- expressions
    def num(self, v):
        if isinstance(v, bool) or not isinstance(v, (int, float)):
            raise Unsupported("constant %r" % (v,))
        fr = Fraction(repr(v)) if isinstance(v, float) else Fraction(v)
        return ("expr", ("Cst", fr.numerator, fr.denominator))

    def as_expr(self, v, what="expression"):
        if v[0] == "arg":
            return ("Arg", v[1])
        if v[0] == "expr":
            return v[1]
        raise Unsupported("%s is not a scalar expression: %r" % (what, v[:2]))

    def value(self, n, env):
        if isinstance(n, ast.Constant):
            if n.value is None:
                return ("none",)
            if isinstance(n.value, bool):
                return ("bool", n.value)
            return self.num(n.value)
        if isinstance(n, ast.Name):
            if n.id in env:
                return env[n.id]
            raise Unsupported("unbound name " + n.id)
        if isinstance(n, ast.BinOp):
            op = {ast.Add: "EAdd", ast.Sub: "ESub", ast.Mult: "EMul", ast.Div: "EDiv"}.get(type(n.op))
            if op is None:
                raise Unsupported("operator " + type(n.op).__name__)
            return ("expr", (op, self.as_expr(self.value(n.left, env)), self.as_expr(self.value(n.right, env))))
        if isinstance(n, ast.UnaryOp) and isinstance(n.op, ast.USub):
            return ("expr", ("ENeg", self.as_expr(self.value(n.operand, env))))
        if isinstance(n, ast.Attribute):
            ch = chain(n)
            if ch is not None and ch[:2] == ["np", "random"] and len(ch) == 3 and ch[2] in NP_SAMPLER \
                    and "np" not in env:
                return ("sampler", "Global", ch[2])
            base = self.value(n.value, env)
            if base[0] == "rs" and n.attr in NP_SAMPLER:
                return ("sampler", base[1], n.attr)
            if base == ("seed", "SRS") and n.attr in NP_SAMPLER:     # the passed RandomState itself
                return ("sampler", "Passed", n.attr)
            raise Unsupported("attribute " + ast.unparse(n))
        if isinstance(n, ast.Subscript):
            v = self.value(n.value, env)
            if v[0] == "draw" and isinstance(n.slice, ast.Constant) and n.slice.value == 0 and not v[3]:
                return ("draw", v[1], v[2], True)
            raise Unsupported("subscript " + ast.unparse(n))
        if isinstance(n, ast.Call):
            return self.call(n, env)
        raise Unsupported("expression " + ast.unparse(n)[:60])

    def call_args(self, n, env):
        if any(isinstance(a, ast.Starred) for a in n.args) or any(k.arg is None for k in n.keywords):
            raise Unsupported("star arguments in " + ast.unparse(n)[:60])
        pos = [self.value(a, env) for a in n.args]
        kws = [(k.arg, self.value(k.value, env)) for k in n.keywords]
        return pos, kws

    def slots(self, pos, kws):
        out = [(("Pos", i), self.as_expr(v, "argument %d" % i)) for i, v in enumerate(pos)]
        out += [(("Kw", k), self.as_expr(v, "argument " + k)) for k, v in kws]
        return out

    def call(self, n, env):
        ch = chain(n.func)
        src = ast.unparse(n)[:70]
        # scipy.stats
        if ch is not None and len(ch) == 3 and ch[0] == "st" and "st" not in env:
            if ch[1] not in SCIPY_FAM:
                raise Unsupported("scipy family st.%s in %s" % (ch[1], src))
            if ch[2] not in METH:
                raise Unsupported("scipy method %s in %s" % (ch[2], src))
            pos, kws = self.call_args(n, env)
            if ch[2] == "rvs":
                source = "Global"
                rest = []
                for k, v in kws:
                    if k == "random_state":
                        if v[0] == "rs":
                            source = v[1]
                        elif v[0] == "none" or v == ("seed", "SNone"):
                            source = "Global"
                        elif v == ("seed", "SRS"):
                            source = "Passed"
                        elif v in (("seed", "SInt"), ("seed", "SInt0")):
                            source = "FromSeed"           # scipy builds RandomState(seed) from an int
                        else:
                            raise Unsupported("random_state=%r" % (v[:2],))
                    else:
                        rest.append((k, v))
                return ("draw", source, ("SpRvs", SCIPY_FAM[ch[1]], self.slots(pos, rest)), False)
            return ("impl", ("Scipy", SCIPY_FAM[ch[1]], METH[ch[2]], self.slots(pos, kws)))
        # numpy elementwise functions and gammaln
        if ch in (["np", "log"], ["np", "exp"], ["gammaln"]) and ch[0] not in env:
            if len(n.args) != 1 or n.keywords:
                raise Unsupported("call shape " + src)
            tag = {"log": "ELn", "exp": "EExp", "gammaln": "ELGamma"}[ch[-1]]
            return ("expr", (tag, self.as_expr(self.value(n.args[0], env))))
        # RandomState objects
        if ch == ["np", "random", "RandomState"] and "np" not in env:
            pos, kws = self.call_args(n, env)
            if kws or len(pos) > 1:
                raise Unsupported("RandomState call " + src)
            if not pos:
                return ("rs", "FreshUnseeded")
            if pos[0][0] == "seed" and IS_INT[pos[0][1]]:
                return ("rs", "FromSeed")
            raise Unsupported("RandomState seeded with %r" % (pos[0][:2],))
        if ch == ["np", "random", "get_state"] and "np" not in env and not n.args and not n.keywords:
            return ("gstate",)
        # a local variable holding a bound sampler
        if isinstance(n.func, ast.Name) and n.func.id in env:
            f = env[n.func.id]
            if f[0] == "sampler":
                pos, kws = self.call_args(n, env)
                return ("draw", f[1], ("NpCall", NP_SAMPLER[f[2]], self.slots(pos, kws)), False)
            raise Unsupported("call of local %s = %r" % (n.func.id, f[:2]))
        # a sampler called directly: np.random.X(...) or test_seed(seed).X(...)
        if isinstance(n.func, ast.Attribute):
            f = self.value(n.func, env)
            if f[0] == "sampler":
                pos, kws = self.call_args(n, env)
                return ("draw", f[1], ("NpCall", NP_SAMPLER[f[2]], self.slots(pos, kws)), False)
        # module-level pure function: inline it
        if isinstance(n.func, ast.Name) and n.func.id in self.funcs:
            return self.inline(self.funcs[n.func.id], n, env)
        raise Unsupported("call " + src)

    def inline(self, fdef, n, env):
        if self.depth >= 3:
            raise Unsupported("call depth")
        pos, kws = self.call_args(n, env)
        a = fdef.args
        if a.vararg or a.kwarg or a.kwonlyargs or a.posonlyargs:
            raise Unsupported("signature of " + fdef.name)
        names = [p.arg for p in a.args]
        new = {}
        for i, v in enumerate(pos):
            if i >= len(names):
                raise Unsupported("too many arguments for " + fdef.name)
            new[names[i]] = v
        for k, v in kws:
            if k not in names or k in new:
                raise Unsupported("bad keyword %s for %s" % (k, fdef.name))
            new[k] = v
        ndef = len(a.defaults)
        for i, d in enumerate(a.defaults):
            nm = names[len(names) - ndef + i]
            if nm not in new:
                new[nm] = self.value(d, {})
        for nm in names:
            if nm not in new:
                raise Unsupported("missing argument %s for %s" % (nm, fdef.name))
        self.depth += 1
        try:
            r = self.body(fdef.body, new)
        finally:
            self.depth -= 1
        if r[0] == "ret":
            return r[1]
        if r[0] == "raise":
            raise Fall("raise")
        return ("none",)

    # ---------------------------------------------------------------- tests
    def truth(self, n, env):
        if isinstance(n, ast.UnaryOp) and isinstance(n.op, ast.Not):
            return not self.truth(n.operand, env)
        if isinstance(n, ast.BoolOp):
            vals = [self.truth(v, env) for v in n.values]
            return all(vals) if isinstance(n.op, ast.And) else any(vals)
        if isinstance(n, ast.Name) or isinstance(n, ast.Constant):
            v = self.value(n, env)
            if v[0] == "bool":
                return v[1]
            if v[0] == "none":
                return False
            if v[0] == "seed":
                return TRUTHY[v[1]]
            raise Unsupported("truth value of %r" % (v[:2],))
        if isinstance(n, ast.Compare) and len(n.ops) == 1:
            op, l, r = n.ops[0], n.left, n.comparators[0]
            if isinstance(op, (ast.Is, ast.IsNot)) and isinstance(r, ast.Constant) and \
                    (r.value is None or isinstance(r.value, bool)):
                v = self.value(l, env)
                if v[0] == "none":
                    res = r.value is None
                elif v[0] == "bool":
                    res = r.value is v[1]
                elif v[0] == "seed":
                    res = {None: "SNone", True: "STrue", False: "SFalse"}[r.value] == v[1]
                elif v[0] in ("arg", "expr"):
                    res = False
                else:
                    raise Unsupported("identity test on %r" % (v[:2],))
                return res if isinstance(op, ast.Is) else not res
            if isinstance(op, ast.Gt) and isinstance(l, ast.Name) and l.id == self.first and \
                    env.get(l.id) == ("arg", "n") and isinstance(r, ast.Constant) and r.value == 1 \
                    and self.nbranch is not None:
                return self.nbranch == "Many"
        if isinstance(n, ast.Call) and isinstance(n.func, ast.Name) and n.func.id == "isinstance" \
                and len(n.args) == 2 and not n.keywords and "isinstance" not in env:
            v = self.value(n.args[0], env)
            if v[0] != "seed":
                raise Unsupported("isinstance on %r" % (v[:2],))
            typs = n.args[1].elts if isinstance(n.args[1], ast.Tuple) else [n.args[1]]
            res = False
            for t in typs:
                s = ast.unparse(t)
                if s == "int":
                    res = res or IS_INT[v[1]]
                elif s == "bool":
                    res = res or v[1] in ("STrue", "SFalse")
                elif s in ("np.integer", "numbers.Integral"):
                    res = res or (IS_INT[v[1]] if s == "numbers.Integral" else False)
                elif s in ("np.random.RandomState", "np.random.mtrand.RandomState"):
                    res = res or v[1] == "SRS"
                else:
                    raise Unsupported("isinstance against " + s)
            return res
        raise Unsupported("test " + ast.unparse(n)[:60])

    # ---------------------------------------------------------------- statements
    def body(self, stmts, env):
        """('ret', value) | ('raise',) | ('fall',)"""
        for s in stmts:
            if isinstance(s, ast.Pass):
                continue
            if isinstance(s, ast.Expr) and isinstance(s.value, ast.Constant) and isinstance(s.value.value, str):
                continue
            if isinstance(s, ast.Return):
                if s.value is None:
                    return ("ret", ("none",))
                try:
                    return ("ret", self.value(s.value, env))
                except Fall:
                    return ("raise",)
            if isinstance(s, ast.Raise):
                return ("raise",)
            if isinstance(s, ast.If):
                r = self.body(s.body if self.truth(s.test, env) else s.orelse, env)
                if r[0] != "fall":
                    return r
                continue
            if isinstance(s, ast.Assign) and len(s.targets) == 1 and isinstance(s.targets[0], ast.Name):
                try:
                    env[s.targets[0].id] = self.value(s.value, env)
                except Fall:
                    return ("raise",)
                continue
            if isinstance(s, ast.Expr) and isinstance(s.value, ast.Call):
                c = s.value
                if isinstance(c.func, ast.Attribute) and c.func.attr == "set_state" and \
                        isinstance(c.func.value, ast.Name) and len(c.args) == 1 and not c.keywords:
                    tgt = env.get(c.func.value.id)
                    if tgt is not None and tgt[0] == "rs" and self.value(c.args[0], env) == ("gstate",):
                        env[c.func.value.id] = ("rs", "GlobalCopy")
                        continue
            raise Unsupported("statement " + ast.unparse(s)[:70])
        return ("fall",)


# ---------------------------------------------------------------------- Coq text
def cz(n):
    return str(n) if n >= 0 else "(%d)" % n


def cexpr(e):
    t = e[0]
    if t == "Arg":
        return 'Arg "%s"' % e[1]
    if t == "Cst":
        return "Cst %s %d" % (cz(e[1]), e[2])
    return "%s %s" % (t, " ".join("(%s)" % cexpr(x) for x in e[1:]))


def cslots(sl):
    return "[" + "; ".join("(%s, %s)" % (("Pos %d" % s[1]) if s[0] == "Pos" else 'Kw "%s"' % s[1], cexpr(e))
                           for s, e in sl) + "]"


def cimpl(i):
    if i[0] in ("Stub", "Raises"):
        return i[0]
    if i[0] == "Scipy":
        return "Scipy %s %s %s" % (i[1], i[2], cslots(i[3]))
    return "Inline (%s)" % cexpr(i[1])


def crimpl(i):
    if i[0] in ("RStub", "RRaises"):
        return i[0]
    _, src, call, first = i
    c = ("NpCall %s %s" if call[0] == "NpCall" else "SpRvs %s %s") % (call[1], cslots(call[2]))
    return "RDraw %s (%s) %s" % (src, c, "true" if first else "false")


def cflags(fl):
    return "[" + "; ".join('("%s", %s)' % (k, "true" if v else "false") for k, v in fl) + "]"


# ---------------------------------------------------------------------- drivers
def params_of(f):
    a = f.args
    if a.vararg or a.kwarg or a.kwonlyargs or a.posonlyargs:
        raise Unsupported("signature of " + f.name)
    return [p.arg for p in a.args]


def mode_env(mode, env):
    given = {"ByProb": ("prob",), "ByMu": ("mu",), "Neither": (), "Both": ("prob", "mu")}[mode]
    for p in ("prob", "mu"):
        env[p] = ("arg", p) if p in given else ("none",)


def base_env(f, first_name):
    ps = params_of(f)
    if not ps:
        raise Unsupported("no parameters in " + f.name)
    env = {p: ("arg", p) for p in ps}
    env[ps[0]] = ("arg", first_name)
    return ps, env


def dpq_entries(f, funcs):
    ps, env0 = base_env(f, "x")
    fl = sorted(p for p in ps[1:] if p in FLAGS)
    modes = MODES if ("prob" in ps and "mu" in ps) else ["NoMode"]
    out = []
    for vals in itertools.product([False, True], repeat=len(fl)):
        for mode in modes:
            env = dict(env0)
            for k, v in zip(fl, vals):
                env[k] = ("bool", v)
            if mode != "NoMode":
                mode_env(mode, env)
            r = Ev(funcs, ps[0]).body(f.body, env)
            if r[0] == "raise":
                impl = ("Raises",)
            elif r[0] == "fall" or r[1] == ("none",):
                impl = ("Stub",)
            elif r[1][0] == "impl":
                impl = r[1][1]
            elif r[1][0] in ("expr", "arg"):
                impl = ("Inline", Ev(funcs, ps[0]).as_expr(r[1]))
            else:
                raise Unsupported("%s returns %r" % (f.name, r[1][:2]))
            out.append(((f.name, list(zip(fl, vals)), mode), impl))
    return out


def r_entries(f, funcs):
    ps, env0 = base_env(f, "n")
    modes = MODES if ("prob" in ps and "mu" in ps) else ["NoMode"]
    out = []
    for kind in KINDS:
        for nb in ("Many", "One"):
            for mode in modes:
                env = dict(env0)
                if "seed" in ps:
                    env["seed"] = ("seed", kind)
                if mode != "NoMode":
                    mode_env(mode, env)
                r = Ev(funcs, ps[0], nb).body(f.body, env)
                if r[0] == "raise":
                    impl = ("RRaises",)
                elif r[0] == "fall" or r[1] == ("none",):
                    impl = ("RStub",)
                elif r[1][0] == "draw":
                    impl = ("RDraw", r[1][1], r[1][2], r[1][3])
                else:
                    raise Unsupported("%s returns %r" % (f.name, r[1][:2]))
                out.append(((f.name, kind, nb, mode), impl))
    return out


def test_seed_entries(funcs):
    if "test_seed" not in funcs:
        raise Unsupported("test_seed not found")
    f = funcs["test_seed"]
    ps = params_of(f)
    if len(ps) != 1:
        raise Unsupported("test_seed signature")
    out = []
    for kind in KINDS:
        r = Ev(funcs, ps[0]).body(f.body, {ps[0]: ("seed", kind)})
        if r[0] == "ret" and r[1][0] == "rs":
            out.append((kind, "Some " + r[1][1]))
        elif r[0] == "ret" and r[1] == ("seed", kind) and kind == "SRS":
            out.append((kind, "Some Passed"))
        elif r[0] == "raise":
            out.append((kind, "None"))
        else:
            raise Unsupported("test_seed(%s) gives %r" % (kind, r))
    return out


def defaults_of(f):
    a = f.args
    names = [p.arg for p in a.args]
    out = []
    for i, d in enumerate(a.defaults):
        nm = names[len(names) - len(a.defaults) + i]
        if not isinstance(d, ast.Constant):
            raise Unsupported("default of %s.%s is not a constant" % (f.name, nm))
        v = d.value
        if v is None:
            out.append((nm, "DNone"))
        elif isinstance(v, bool):
            out.append((nm, "DBool %s" % ("true" if v else "false")))
        elif isinstance(v, (int, float)):
            fr = Fraction(repr(v)) if isinstance(v, float) else Fraction(v)
            out.append((nm, "DNum %s %d" % (cz(fr.numerator), fr.denominator)))
        else:
            raise Unsupported("default of %s.%s" % (f.name, nm))
    return out


def extract():
    tree = parse(REL)
    imports = [ast.unparse(n) for n in tree.body if isinstance(n, (ast.Import, ast.ImportFrom))]
    for need in ("import scipy.stats as st", "import numpy as np", "from scipy.special import gammaln"):
        if need not in imports:
            raise Unsupported("missing import: " + need)
    funcs, shadowed = {}, []
    for n in tree.body:
        if isinstance(n, ast.FunctionDef):
            if n.name in funcs:
                shadowed.append(n.name)
            funcs[n.name] = n
        elif isinstance(n, (ast.Assign, ast.AugAssign, ast.AnnAssign, ast.ClassDef)):
            raise Unsupported("module-level statement " + ast.unparse(n)[:50])
    for n in ast.walk(tree):
        if isinstance(n, (ast.Global, ast.Nonlocal)):
            raise Unsupported("global statement")
    listed = [n for n in funcs if n[0] in "dpqr" and n[1:] in FAMS]
    other = [n for n in funcs if n not in listed]
    table, rtable, defaults = [], [], []
    for name in listed:
        f = funcs[name]
        if f.decorator_list:
            raise Unsupported("decorated " + name)
        defaults.append((name, defaults_of(f)))
        if name[0] == "r":
            rtable += r_entries(f, funcs)
        else:
            table += dpq_entries(f, funcs)
    return dict(table=table, rtable=rtable, test_seed=test_seed_entries(funcs), defaults=defaults,
                present=listed, shadowed=shadowed, other=other)


def generate():
    try:
        d = extract()
    except (Unsupported, ValueError, TypeError, IndexError, KeyError, AttributeError, AssertionError, RecursionError) as u:   # any surprise in the source = fail closed
        return (failed("DistnGen", str(u)) +
                "From PV Require Import Distn.\nDefinition table : list (key * impl) := nil.\n"
                "Definition rtable : list (rkey * rimpl) := nil.\n"
                "Definition test_seed_table : list (seedkind * option source) := nil.\n"
                "Definition defaults : list (String.string * list (String.string * dflt)) := nil.\n"
                "Definition present : list String.string := nil.\nDefinition shadowed : list String.string := nil.\n"
                "Definition other_fns : list String.string := nil.\n")
    strs = lambda l: "[" + "; ".join('"%s"' % s for s in l) + "]"
    out = ["(* GENERATED from src/pygom/utilR/distn.py by gen/gen_distn.py -- do not edit *)",
           "From Coq Require Import String List ZArith.", "From PV Require Import Distn.",
           "Import ListNotations.", "Open Scope string_scope.",
           "Definition translator_ok := true.",
           "Definition table : list (key * impl) := ["]
    out.append(";\n".join('  (("%s", %s, %s), %s)' % (k[0], cflags(k[1]), k[2], cimpl(i)) for k, i in d["table"]))
    out.append("].")
    out.append("Definition rtable : list (rkey * rimpl) := [")
    out.append(";\n".join('  (("%s", %s, %s, %s), %s)' % (k[0], k[1], k[2], k[3], crimpl(i)) for k, i in d["rtable"]))
    out.append("].")
    out.append("Definition test_seed_table : list (seedkind * option source) := [%s]."
               % "; ".join("(%s, %s)" % kv for kv in d["test_seed"]))
    out.append("Definition defaults : list (string * list (string * dflt)) := [")
    out.append(";\n".join('  ("%s", [%s])' % (fn, "; ".join('("%s", %s)' % pd for pd in ds)) for fn, ds in d["defaults"]))
    out.append("].")
    out.append("Definition present : list string := %s." % strs(d["present"]))
    out.append("Definition shadowed : list string := %s." % strs(d["shadowed"]))
    out.append("Definition other_fns : list string := %s." % strs(d["other"]))
    return "\n".join(out) + "\n"


if __name__ == "__main__":
    print(generate())
