"""C14 translator: loss kernels of loss_type.py (+ the utilR.distn functions they call) -> coq/Gen/LossGen.v

Python `ast` of  Square/Normal/Gamma/Poisson/NegBinom . loss/diff_loss/diff2Loss  (and Baseloss_Type.residual,
distn.gamma_mu_shape / nb2pmf / dnbinom / dpois)  ->
  * one Gallina scalar function over R per method (numpy arithmetic is elementwise: every array is read at one
    observation (y, w, s, yhat); `.sum()` becomes Rsum over the observation list),
  * one shape expression per method (Loss.shexpr: which operands are broadcast together, where yhat is ravelled),
  * constructor facts (default of the spread parameter).
`scipy.special.gammaln` and `scipy.stats.poisson.logpmf` become Section variables `lgamma`, `poisson_logpmf`.

The intermediate representation (IR, nested tuples) is also what harness/c14.py evaluates with mpmath against the
running code, so the reading of the source used for the proofs is itself checked on every run.

Fail closed: any statement/expression outside the subset below raises Unsupported -> translator_ok := false.
"""
import ast
from fractions import Fraction
from pyast import Unsupported, parse, find_class, failed

LOSS_FILE = "loss/loss_type.py"
DISTN_FILE = "utilR/distn.py"
CLASSES = ["Square", "Normal", "Gamma", "Poisson", "NegBinom"]
METHODS = ["loss", "diff_loss", "diff2Loss"]
SPREAD_PARAM = {"Normal": "sigma", "Gamma": "shape", "NegBinom": "k"}

# ------------------------------------------------------------------------------------------------ IR
# ('num', Fraction) ('pi',) ('var', name) ('yhat', 'raw'|'rav') ('neg', a) ('add'|'sub'|'mul'|'div', a, b)
# ('powi', a, int) ('ln'|'exp'|'sqrt'|'lgamma', a) ('ones', a) ('ifaw', a, b) ('sum', a)
# ('call', helper_name, [args]) ('mcall', helper_name, awarg, yhat_arg) ('ext', name, [args])
AW = ("aw",)                 # the dynamic boolean apply_weighting


class Const:                 # a Python constant known at translation time (None / True / False)
    def __init__(self, v):
        self.v = v

    def __eq__(self, o):
        return isinstance(o, Const) and o.v == self.v and type(o.v) is type(self.v)

    def __repr__(self):
        return "Const(%r)" % (self.v,)


def num(v):
    return ("num", Fraction(v))


class Tr:
    """one translation run over the current source"""

    def __init__(self):
        self.loss_tree = parse(LOSS_FILE)
        self.distn_tree = parse(DISTN_FILE)
        self.helpers = {}        # name -> (params, ir)            distn helpers, in dependency order
        self.mhelpers = {}       # name -> ir                      inlined self.<method> helpers (residual)
        self.order = []
        self.externals = set()
        self.distn_imports = set()
        for n in self.loss_tree.body:
            if isinstance(n, ast.ImportFrom) and n.module == "pygom.utilR.distn":
                self.distn_imports |= {a.asname or a.name for a in n.names if (a.asname or a.name) == a.name}
            if isinstance(n, ast.ImportFrom) and n.module != "pygom.utilR.distn":
                pass
        # names that must keep their numpy / scipy meaning
        self._check_imports()

    def _check_imports(self):
        def imports(tree):
            m = {}
            for n in tree.body:
                if isinstance(n, ast.Import):
                    for a in n.names:
                        m[a.asname or a.name] = a.name
                elif isinstance(n, ast.ImportFrom):
                    for a in n.names:
                        m[a.asname or a.name] = (n.module or "") + "." + a.name
                elif isinstance(n, (ast.Assign, ast.AugAssign, ast.AnnAssign)):
                    tg = n.targets if isinstance(n, ast.Assign) else [n.target]
                    for t in tg:
                        if isinstance(t, ast.Name) and t.id in ("np", "st", "gammaln"):
                            raise Unsupported("module-level rebinding of " + t.id)
            return m
        lm, dm = imports(self.loss_tree), imports(self.distn_tree)
        if lm.get("np") != "numpy":
            raise Unsupported("loss_type.py: np is not numpy")
        if dm.get("np") != "numpy" or dm.get("st") != "scipy.stats" or dm.get("gammaln") != "scipy.special.gammaln":
            raise Unsupported("distn.py: np/st/gammaln are not numpy/scipy.stats/scipy.special.gammaln")

    # ------------------------------------------------------------------ lookups
    def last_function(self, name):
        found = None
        for n in self.distn_tree.body:
            if isinstance(n, ast.FunctionDef) and n.name == name:
                found = n                      # Python keeps the LAST definition of a name
            elif isinstance(n, (ast.Assign,)) and any(isinstance(t, ast.Name) and t.id == name for t in n.targets):
                raise Unsupported("distn.%s is re-bound by assignment" % name)
        if found is None:
            raise Unsupported("distn.%s not found" % name)
        if found.decorator_list:
            raise Unsupported("distn.%s is decorated" % name)
        return found

    def find_method(self, cls, name):
        """method resolution: the class, then its bases (by name, inside loss_type.py)"""
        c = find_class(self.loss_tree, cls)
        for f in c.body:
            if isinstance(f, ast.FunctionDef) and f.name == name:
                if f.decorator_list:
                    raise Unsupported("%s.%s is decorated" % (cls, name))
                return cls, f
        for b in c.bases:
            if isinstance(b, ast.Name) and b.id != "object":
                try:
                    return self.find_method(b.id, name)
                except Unsupported:
                    continue
        raise Unsupported("%s.%s not found" % (cls, name))

    # ------------------------------------------------------------------ expressions
    def expr(self, e, env, ctx):
        """ctx: dict(kind='method'|'distn', cls=..., mode=None|'one'|'nonone'|'flat')"""
        if isinstance(e, ast.Constant):
            if isinstance(e.value, bool) or e.value is None:
                return Const(e.value)
            if isinstance(e.value, int):
                return num(e.value)
            if isinstance(e.value, float):
                return ("num", Fraction(repr(e.value)))
            raise Unsupported("constant %r" % (e.value,))
        if isinstance(e, ast.Name):
            if e.id in env:
                return env[e.id]
            raise Unsupported("free name " + e.id)
        if isinstance(e, ast.UnaryOp) and isinstance(e.op, ast.USub):
            a = self.val(e.operand, env, ctx)
            if a[0] == "num":
                return ("num", -a[1])
            return ("neg", a)
        if isinstance(e, ast.UnaryOp) and isinstance(e.op, ast.UAdd):
            return self.val(e.operand, env, ctx)
        if isinstance(e, ast.BinOp):
            if isinstance(e.op, ast.Pow):
                a = self.val(e.left, env, ctx)
                n = self.val(e.right, env, ctx)
                if n[0] != "num" or n[1].denominator != 1:
                    raise Unsupported("non-integer power " + ast.unparse(e))
                if n[1] == 0:
                    raise Unsupported("zeroth power")
                return ("powi", a, int(n[1]))
            ops = {ast.Add: "add", ast.Sub: "sub", ast.Mult: "mul", ast.Div: "div"}
            if type(e.op) not in ops:
                raise Unsupported("operator " + ast.unparse(e))
            return (ops[type(e.op)], self.val(e.left, env, ctx), self.val(e.right, env, ctx))
        if isinstance(e, ast.Attribute):
            s = ast.unparse(e)
            if s == "np.pi":
                return ("pi",)
            if ctx["kind"] == "method" and isinstance(e.value, ast.Name) and e.value.id == "self":
                return self.self_attr(e.attr, ctx)
            raise Unsupported("attribute " + s)
        if isinstance(e, ast.Call):
            return self.call(e, env, ctx)
        raise Unsupported("expression " + ast.unparse(e)[:60])

    def val(self, e, env, ctx):
        v = self.expr(e, env, ctx)
        if isinstance(v, Const) or v == AW:
            raise Unsupported("non-numeric value used in arithmetic: " + ast.unparse(e))
        return v

    def self_attr(self, attr, ctx):
        cls = ctx["cls"]
        if attr == "_y":
            return ("var", "y")
        if attr == "_w":
            return ("var", "w")
        if attr in ctx["spread_attrs"]:
            return ("var", "s")
        # a derived attribute: exactly one top-level assignment in the class' __init__
        _, init = self.find_method(cls, "__init__")
        cands = [st for st in ast.walk(init) if isinstance(st, ast.Assign) and len(st.targets) == 1
                 and ast.unparse(st.targets[0]) == "self." + attr]
        top = [st for st in init.body if st in cands]
        if len(cands) != 1 or len(top) != 1:
            raise Unsupported("attribute self.%s of %s: not a single top-level assignment in __init__" % (attr, cls))
        c2 = dict(ctx, mode="flat")
        return self.val(top[0].value, {}, c2)

    def bind(self, fdef, call, env, ctx, skip_self=False):
        """Python argument binding (positional, keyword, defaults); no *args/**kw"""
        a = fdef.args
        if a.vararg or a.kwarg or a.kwonlyargs or a.posonlyargs:
            raise Unsupported("signature of " + fdef.name)
        params = [p.arg for p in a.args]
        if skip_self:
            params = params[1:]
        defaults = dict(zip(params[len(params) - len(a.defaults):], a.defaults))
        if any(isinstance(x, ast.Starred) for x in call.args) or any(k.arg is None for k in call.keywords):
            raise Unsupported("star arguments in call of " + fdef.name)
        if len(call.args) > len(params):
            raise Unsupported("too many arguments for " + fdef.name)
        out = {}
        for p, x in zip(params, call.args):
            out[p] = self.expr(x, env, ctx)
        for k in call.keywords:
            if k.arg not in params or k.arg in out:
                raise Unsupported("bad keyword %s for %s" % (k.arg, fdef.name))
            out[k.arg] = self.expr(k.value, env, ctx)
        for p in params:
            if p not in out:
                if p not in defaults:
                    raise Unsupported("missing argument %s of %s" % (p, fdef.name))
                out[p] = self.expr(defaults[p], {}, dict(ctx, kind="distn"))
        return params, out

    def call(self, e, env, ctx):
        f = ast.unparse(e.func)
        un = {"np.log": "ln", "np.exp": "exp", "np.sqrt": "sqrt", "gammaln": "lgamma"}
        if f in un:
            if f == "gammaln" and ctx["kind"] != "distn":
                raise Unsupported("gammaln outside distn.py")
            if len(e.args) != 1 or e.keywords:
                raise Unsupported("call " + ast.unparse(e))
            return (un[f], self.val(e.args[0], env, ctx))
        if f == "np.ones":
            # np.ones(X.shape): the constant 1 with the shape of X
            if len(e.args) == 1 and not e.keywords and isinstance(e.args[0], ast.Attribute) and e.args[0].attr == "shape":
                return ("ones", self.val(e.args[0].value, env, ctx))
            raise Unsupported("call " + ast.unparse(e))
        if isinstance(e.func, ast.Attribute) and e.func.attr == "sum" and not e.args and not e.keywords:
            if ctx["kind"] != "method":
                raise Unsupported(".sum() inside a distn helper")
            return ("sum", self.val(e.func.value, env, ctx))
        if isinstance(e.func, ast.Attribute) and e.func.attr == "ravel" and not e.args and not e.keywords:
            a = self.val(e.func.value, env, ctx)
            if a[0] != "yhat":
                raise Unsupported(".ravel() of something that is not the prediction array")
            if ctx.get("mode") == "one":
                return ("yhat", "rav")
            if ctx.get("mode") == "flat":
                return a                       # ravel of a 1-D array is the identity
            raise Unsupported(".ravel() of yhat outside the `1 in yhat.shape` branch (would flatten a matrix)")
        if f == "st.poisson.logpmf" and ctx["kind"] == "distn":
            names = ["k", "mu"]
            got = {}
            for p, x in zip(names, e.args):
                got[p] = self.val(x, env, ctx)
            for k in e.keywords:
                if k.arg not in names or k.arg in got:
                    raise Unsupported("call " + ast.unparse(e))
                got[k.arg] = self.val(k.value, env, ctx)
            if set(got) != set(names) or len(e.args) > 2:
                raise Unsupported("call " + ast.unparse(e))
            self.externals.add("poisson_logpmf")
            return ("ext", "poisson_logpmf", [got["k"], got["mu"]])
        # self.<method>(yhat, apply_weighting)
        if (ctx["kind"] == "method" and isinstance(e.func, ast.Attribute) and isinstance(e.func.value, ast.Name)
                and e.func.value.id == "self"):
            return self.method_call(e, env, ctx)
        # a distn function
        if isinstance(e.func, ast.Name):
            if ctx["kind"] == "method" and e.func.id not in self.distn_imports:
                raise Unsupported("call of %s which is not imported from pygom.utilR.distn" % e.func.id)
            return self.distn_call(e, env, ctx)
        raise Unsupported("call " + ast.unparse(e)[:60])

    # ------------------------------------------------------------------ self.residual(...)
    def method_call(self, e, env, ctx):
        owner, fdef = self.find_method(ctx["cls"], e.func.attr)
        params, args = self.bind(fdef, e, env, ctx, skip_self=True)
        if params != ["yhat", "apply_weighting"]:
            raise Unsupported("self.%s: unexpected signature %s" % (e.func.attr, params))
        ya, awa = args["yhat"], args["apply_weighting"]
        if isinstance(ya, Const) or ya[0] != "yhat":
            raise Unsupported("self.%s called on something that is not the prediction array" % e.func.attr)
        if not (awa == AW or (isinstance(awa, Const) and isinstance(awa.v, bool))):
            raise Unsupported("self.%s: apply_weighting argument" % e.func.attr)
        name = "%s_%s" % (owner, e.func.attr)
        if name not in self.mhelpers:
            c2 = dict(kind="method", cls=owner, mode=None, spread_attrs=())
            ir = self.body(fdef, {"yhat": ("yhat", "raw"), "apply_weighting": AW}, c2)
            if has(ir, "sum"):
                raise Unsupported(name + " sums")
            self.mhelpers[name] = ir
        return ("mcall", name, awa, ya)

    # ------------------------------------------------------------------ distn helpers
    def distn_call(self, e, env, ctx):
        fdef = self.last_function(e.func.id)
        params, args = self.bind(fdef, e, env, ctx)
        consts = [(p, args[p].v) for p in params if isinstance(args[p], Const)]
        if any(args[p] == AW for p in params):
            raise Unsupported("apply_weighting passed to " + fdef.name)
        name = fdef.name + "".join("_%s%s" % (p, v) for p, v in consts)
        dyn = [p for p in params if not isinstance(args[p], Const)]
        if name not in self.helpers:
            self.helpers[name] = None              # recursion guard
            env2 = {p: (args[p] if isinstance(args[p], Const) else ("var", p)) for p in params}
            ir = self.body(fdef, env2, dict(kind="distn", cls=None, mode="flat"))
            self.helpers[name] = (dyn, ir)
            self.order.append(name)
        elif self.helpers[name] is None:
            raise Unsupported("recursive distn function " + fdef.name)
        return ("call", name, [args[p] for p in dyn])

    # ------------------------------------------------------------------ statements
    def static_test(self, t, env, ctx):
        """-> True / False / 'aw' (dynamic apply_weighting) ; anything else is unsupported"""
        if isinstance(t, ast.BoolOp):
            vs = [self.static_test(v, env, ctx) for v in t.values]
            if any(v == "aw" for v in vs):
                raise Unsupported("apply_weighting inside a compound test")
            return all(vs) if isinstance(t.op, ast.And) else any(vs)
        if isinstance(t, ast.UnaryOp) and isinstance(t.op, ast.Not):
            v = self.static_test(t.operand, env, ctx)
            if v == "aw":
                raise Unsupported("not apply_weighting")
            return not v
        if isinstance(t, ast.Compare) and len(t.ops) == 1:
            l, r, op = t.left, t.comparators[0], t.ops[0]
            if isinstance(op, (ast.Is, ast.IsNot)) and isinstance(r, ast.Constant) and r.value is None and isinstance(l, ast.Name):
                v = env.get(l.id)
                if v is None:
                    raise Unsupported("free name " + l.id)
                isnone = isinstance(v, Const) and v.v is None
                return isnone if isinstance(op, ast.Is) else (not isnone)
            s = ast.unparse(t)
            # shape tests on the prediction array
            if isinstance(op, ast.Gt) and isinstance(l, ast.Call) and ast.unparse(l.func) == "len" and len(l.args) == 1 \
                    and isinstance(l.args[0], ast.Attribute) and l.args[0].attr == "shape" \
                    and isinstance(r, ast.Constant) and r.value == 1:
                self.shape_subject(l.args[0].value, env)
                return ("ndim>1",)
            if isinstance(op, ast.In) and isinstance(l, ast.Constant) and l.value == 1 \
                    and isinstance(r, ast.Attribute) and r.attr == "shape":
                self.shape_subject(r.value, env)
                return ("1 in shape",)
            raise Unsupported("test " + s)
        if isinstance(t, ast.Name):
            v = env.get(t.id)
            if v == AW:
                return "aw"
            if isinstance(v, Const) and isinstance(v.v, bool):
                return v.v
            raise Unsupported("test on " + t.id)
        raise Unsupported("test " + ast.unparse(t)[:60])

    def shape_subject(self, node, env):
        if not (isinstance(node, ast.Name) and isinstance(env.get(node.id), tuple) and env[node.id][0] == "yhat"):
            raise Unsupported("shape test on something that is not the prediction array")

    def block(self, stmts, env, ctx):
        """-> (env, returned IR or None).  env is copied, never mutated."""
        env = dict(env)
        for i, st in enumerate(stmts):
            if isinstance(st, ast.Expr) and isinstance(st.value, ast.Constant) and isinstance(st.value.value, str):
                continue                                   # docstring
            if isinstance(st, ast.Pass):
                continue
            if isinstance(st, ast.Return):
                if st.value is None:
                    raise Unsupported("bare return")
                return env, self.val(st.value, env, ctx)
            if isinstance(st, ast.Assign):
                if len(st.targets) != 1 or not isinstance(st.targets[0], ast.Name):
                    raise Unsupported("assignment " + ast.unparse(st)[:60])
                env[st.targets[0].id] = self.expr(st.value, env, ctx)
                continue
            if isinstance(st, ast.If):
                env, ret = self.if_stmt(st, env, ctx)
                if ret is not None:
                    if any(not isinstance(x, ast.Pass) for x in stmts[i + 1:]):
                        pass                                # following statements are dead only if all paths returned
                    return env, ret
                continue
            raise Unsupported("statement " + ast.unparse(st)[:60])
        return env, None

    def is_raise_guard(self, st):
        return len(st.body) == 1 and isinstance(st.body[0], ast.Raise) and not st.orelse

    def if_stmt(self, st, env, ctx):
        # validation guards:  if <test>: raise ...
        if self.is_raise_guard(st):
            s = ast.unparse(st.test)
            if s == "not isinstance(apply_weighting, bool)":
                return env, None                            # apply_weighting is a bool in the model
            v = self.static_test(st.test, env, ctx)
            if v is False:
                return env, None
            raise Unsupported("raise guard that is not statically false: " + s)
        v = self.static_test(st.test, env, ctx)
        if v is True:
            return self.block(st.body, env, ctx)
        if v is False:
            return self.block(st.orelse, env, ctx)
        if v == "aw":
            e1, r1 = self.block(st.body, env, ctx)
            e2, r2 = self.block(st.orelse, env, ctx)
            if r1 is not None or r2 is not None:
                raise Unsupported("return under `if apply_weighting`")
            out = dict(env)
            for k in set(e1) | set(e2):
                a, b = e1.get(k), e2.get(k)
                if a is None or b is None:
                    raise Unsupported("variable %s bound on one side of `if apply_weighting` only" % k)
                out[k] = a if a == b else ("ifaw", self.num_only(a), self.num_only(b))
            return out, None
        # shape tests: run the statement in the three shape classes of yhat and merge
        if ctx.get("mode") is None:
            res = {}
            for mode in ("one", "nonone", "flat"):
                res[mode] = self.if_stmt(st, env, dict(ctx, mode=mode))
            (ea, ra), (eb, rb), (ec, rc) = res["one"], res["nonone"], res["flat"]
            if eb != ec or rb != rc:
                raise Unsupported("2-D (no unit dimension) and 1-D predictions are treated differently")
            out = {}
            if set(ea) != set(eb):
                raise Unsupported("shape branches bind different variables")
            for k in ea:
                out[k] = merge(ea[k], eb[k])
            if (ra is None) != (rb is None):
                raise Unsupported("shape branches: only one returns")
            return out, (merge(ra, rb) if ra is not None else None)
        mode = ctx["mode"]
        if v == ("ndim>1",):
            take = mode in ("one", "nonone")
        else:
            if mode == "flat":
                raise Unsupported("`1 in shape` tested on a 1-D array: outcome depends on the length")
            take = mode == "one"
        return self.block(st.body if take else st.orelse, env, ctx)

    def num_only(self, v):
        if isinstance(v, Const) or v == AW:
            raise Unsupported("non-numeric value under `if apply_weighting`")
        return v

    def body(self, fdef, env, ctx):
        env, ret = self.block(fdef.body, env, ctx)
        if ret is None:
            raise Unsupported(fdef.name + " does not return on every path")
        return ret


def has(ir, tag):
    if isinstance(ir, tuple):
        return ir[0] == tag or any(has(x, tag) for x in ir[1:])
    if isinstance(ir, list):
        return any(has(x, tag) for x in ir)
    return False


def merge(a, b):
    """a: value in the `2-D with a unit dimension` class, b: value in the other classes; same scalar expression,
    yhat may be ravelled in a only"""
    if isinstance(a, Const) or isinstance(b, Const) or a == AW or b == AW:
        if a == b:
            return a
        raise Unsupported("shape branches disagree")
    if a[0] == "yhat" and b[0] == "yhat":
        if a[1] == b[1] or a[1] == "rav":
            return a
        raise Unsupported("yhat ravelled only when it has no unit dimension")
    if a[0] != b[0] or len(a) != len(b):
        raise Unsupported("shape branches compute different expressions")
    out = [a[0]]
    for x, y in zip(a[1:], b[1:]):
        if isinstance(x, tuple) and isinstance(y, tuple) and x and isinstance(x[0], str):
            out.append(merge(x, y))
        elif isinstance(x, list):
            if len(x) != len(y):
                raise Unsupported("shape branches compute different expressions")
            out.append([merge(p, q) for p, q in zip(x, y)])
        else:
            if x != y:
                raise Unsupported("shape branches compute different expressions")
            out.append(x)
    return tuple(out)


# ------------------------------------------------------------------------------------------------ emission
def coq_num(fr):
    if fr.denominator == 1:
        return str(fr.numerator) if fr.numerator >= 0 else "(- %d)" % -fr.numerator
    n = "%d / %d" % (abs(fr.numerator), fr.denominator)
    return "(%s)" % n if fr.numerator >= 0 else "(- (%s))" % n


def coq(ir, obsvars):
    """obsvars: dict var -> Coq text (method context) ; in helpers vars are their own names"""
    t = ir[0]
    r = lambda x: coq(x, obsvars)
    if t == "num":
        return coq_num(ir[1])
    if t == "pi":
        return "PI"
    if t == "var":
        return obsvars.get(ir[1], ir[1])
    if t == "yhat":
        return obsvars["yhat"]
    if t == "neg":
        return "(- %s)" % r(ir[1])
    if t in ("add", "sub", "mul", "div"):
        return "(%s %s %s)" % (r(ir[1]), {"add": "+", "sub": "-", "mul": "*", "div": "/"}[t], r(ir[2]))
    if t == "powi":
        return "(%s ^ %d)" % (r(ir[1]), ir[2]) if ir[2] > 0 else "(/ (%s ^ %d))" % (r(ir[1]), -ir[2])
    if t in ("ln", "exp", "sqrt", "lgamma"):
        return "(%s %s)" % (t, r(ir[1]))
    if t == "ones":
        return "1"
    if t == "ifaw":
        return "(if aw then %s else %s)" % (r(ir[1]), r(ir[2]))
    if t == "call":
        return "(%s %s)" % (ir[1], " ".join(r(a) for a in ir[2]))
    if t == "ext":
        return "(%s %s)" % (ir[1], " ".join(r(a) for a in ir[2]))
    if t == "mcall":
        aw = "aw" if ir[2] == AW else ("true" if ir[2].v else "false")
        return "(%s %s %s %s %s %s)" % (ir[1], aw, obsvars["y"], obsvars["w"], obsvars["s"], r(ir[3]))
    raise Unsupported("emit " + t)


def shape(ir, tr):
    """Loss.shexpr text of an IR"""
    t = ir[0]
    if t in ("num", "pi"):
        return "ShScalar"
    if t == "var":
        return "ShY"
    if t == "yhat":
        return "ShYhat" if ir[1] == "raw" else "(ShSq ShYhat)"
    if t in ("neg", "ln", "exp", "sqrt", "lgamma", "ones"):
        return shape(ir[1], tr)
    if t == "powi":
        return shape(ir[1], tr)
    if t in ("add", "sub", "mul", "div", "ifaw"):
        return "(ShBin %s %s)" % (shape(ir[1], tr), shape(ir[2], tr))
    if t == "sum":
        return "(ShSum %s)" % shape(ir[1], tr)
    if t in ("call", "ext"):
        # helpers are elementwise in every argument (no sum, no shape test inside): broadcast of the arguments
        ss = [shape(a, tr) for a in ir[2]]
        out = ss[0]
        for s in ss[1:]:
            out = "(ShBin %s %s)" % (out, s)
        return out
    if t == "mcall":
        return subst_shape(tr.mhelpers[ir[1]], ir[3], tr)
    raise Unsupported("shape " + t)


def subst_shape(body, arg, tr):
    """shape of a self.<method> helper body with its yhat parameter replaced by the caller's argument"""
    def go(ir):
        t = ir[0]
        if t == "yhat":
            a = shape(arg, tr)
            return a if ir[1] == "raw" else ("(ShSq %s)" % a if a != "(ShSq ShYhat)" else a)
        if t in ("num", "pi"):
            return "ShScalar"
        if t == "var":
            return "ShY"
        if t in ("neg", "ln", "exp", "sqrt", "lgamma", "ones", "powi"):
            return go(ir[1])
        if t in ("add", "sub", "mul", "div", "ifaw"):
            return "(ShBin %s %s)" % (go(ir[1]), go(ir[2]))
        raise Unsupported("shape of helper: " + t)
    return go(body)


def split_sums(ir, terms):
    """replace every ('sum', body) by ('sumref', i) collecting the bodies"""
    if not isinstance(ir, tuple):
        return ir
    if ir[0] == "sum":
        if has(ir[1], "sum"):
            raise Unsupported("nested sum")
        terms.append(ir[1])
        return ("sumref", len(terms) - 1)
    return tuple([ir[0]] + [split_sums(x, terms) if isinstance(x, tuple) and x and isinstance(x[0], str) else x
                            for x in ir[1:]])


def obs_free(ir):
    """no per-observation variable outside a sum"""
    if not isinstance(ir, tuple):
        return True
    if ir[0] in ("var", "yhat", "mcall", "ones"):
        return False
    if ir[0] in ("call", "ext"):
        return all(obs_free(a) for a in ir[2])
    return all(obs_free(x) for x in ir[1:] if isinstance(x, tuple))


def coq_outer(ir, cls):
    t = ir[0]
    if t == "sumref":
        nm = "%s_loss_term%s" % (cls, "" if ir[1] == 0 else str(ir[1] + 1))
        return "(Rsum (map (fun o : obs => %s aw (oy o) (ow o) (os o) (oyh o)) l))" % nm
    if t == "num":
        return coq_num(ir[1])
    if t == "neg":
        return "(- %s)" % coq_outer(ir[1], cls)
    if t in ("add", "sub", "mul", "div"):
        return "(%s %s %s)" % (coq_outer(ir[1], cls), {"add": "+", "sub": "-", "mul": "*", "div": "/"}[t],
                               coq_outer(ir[2], cls))
    raise Unsupported("outside the sum of a loss: " + t)


# ------------------------------------------------------------------------------------------------ constructors
def ctor_facts(tr, cls):
    """spread attribute(s) and (guard constant, assigned constant) of the default branch"""
    p = SPREAD_PARAM.get(cls)
    if p is None:
        return (), []
    _, init = tr.find_method(cls, "__init__")
    names = [a.arg for a in init.args.args]
    if p not in names:
        raise Unsupported("%s.__init__ has no parameter %s" % (cls, p))
    attr = None
    pairs = []
    ones = "np.ones(self._y.shape)"

    def rhs_const(v):
        s = ast.unparse(v)
        if s == p:
            return None
        if s == ones:
            return Fraction(1)
        if isinstance(v, ast.BinOp) and isinstance(v.op, ast.Mult) and ast.unparse(v.right) == ones:
            if ast.unparse(v.left) == p:
                return None
            if isinstance(v.left, ast.Constant) and isinstance(v.left.value, (int, float)) and not isinstance(v.left.value, bool):
                return Fraction(repr(v.left.value))
        raise Unsupported("%s.__init__: spread attribute built from %s" % (cls, s))

    def guard_const(test):
        # `<p> is None or <p> == c`  /  `<p> == c`
        out = []
        for t in ast.walk(test):
            if isinstance(t, ast.Compare) and len(t.ops) == 1 and isinstance(t.ops[0], ast.Eq) \
                    and ast.unparse(t.left) == p and isinstance(t.comparators[0], ast.Constant):
                out.append(Fraction(repr(t.comparators[0].value)))
        return out

    def walk(stmts, guards):
        nonlocal attr
        for st in stmts:
            if isinstance(st, ast.If):
                walk(st.body, guards + [st.test])
                walk(st.orelse, guards)
            elif isinstance(st, ast.Assign) and len(st.targets) == 1 and isinstance(st.targets[0], ast.Attribute) \
                    and ast.unparse(st.targets[0].value) == "self":
                a = st.targets[0].attr
                refs = {n.id for n in ast.walk(st.value) if isinstance(n, ast.Name)}
                if p in refs or ast.unparse(st.value).endswith(ones):
                    if attr is not None and attr != a:
                        raise Unsupported("%s.__init__: two spread attributes" % cls)
                    attr = a
                    c = rhs_const(st.value)
                    if c is not None:
                        gs = guard_const(guards[-1]) if guards else []
                        if len(gs) != 1:
                            raise Unsupported("%s.__init__: constant spread not under a `%s == c` test" % (cls, p))
                        pairs.append((gs[0], c))
    walk(init.body, [])
    if attr is None:
        raise Unsupported("%s.__init__: spread attribute not found" % cls)
    d = init.args.defaults
    dflt = dict(zip(names[len(names) - len(d):], d)).get(p)
    if dflt is None or not isinstance(dflt, ast.Constant):
        raise Unsupported("%s.__init__: default of %s" % (cls, p))
    return (attr,), [(g, c) for g, c in pairs] + [("default", Fraction(repr(dflt.value)))]


# ------------------------------------------------------------------------------------------------ driver
def translate():
    """-> dict(helpers, mhelpers, methods, externals, ctor) of IRs ; raises Unsupported"""
    tr = Tr()
    methods = {}
    ctor = {}
    for cls in CLASSES:
        attrs, facts = ctor_facts(tr, cls)
        ctor[cls] = facts
        for m in METHODS:
            owner, fdef = tr.find_method(cls, m)
            params = [a.arg for a in fdef.args.args]
            if params != ["self", "yhat", "apply_weighting"] or fdef.args.vararg or fdef.args.kwarg or fdef.args.kwonlyargs:
                raise Unsupported("%s.%s: signature %s" % (cls, m, params))
            d = fdef.args.defaults
            if len(d) != 1 or not (isinstance(d[0], ast.Constant) and d[0].value is True):
                raise Unsupported("%s.%s: apply_weighting must default to True" % (cls, m))
            ctx = dict(kind="method", cls=cls, mode=None, spread_attrs=attrs)
            ir = tr.body(fdef, {"yhat": ("yhat", "raw"), "apply_weighting": AW}, ctx)
            methods[(cls, m)] = ir
    return dict(tr=tr, helpers=[(n,) + tr.helpers[n] for n in tr.order], mhelpers=tr.mhelpers, methods=methods,
                externals=sorted(tr.externals), ctor=ctor)


HEADER = """(* GENERATED by gen/gen_loss.py from src/pygom/loss/loss_type.py and src/pygom/utilR/distn.py — do not edit *)
From Coq Require Import Reals List String.
From PV Require Import Loss.
Import ListNotations.
Open Scope R_scope.
"""


def emit(t):
    tr = t["tr"]
    out = [HEADER, "Definition translator_ok := true.\n", "Section Gen.",
           "(* scipy.special.gammaln and scipy.stats.poisson.logpmf: opaque, specified by hypotheses in LossProofs.v *)",
           "Variable lgamma : R -> R.", "Variable poisson_logpmf : R -> R -> R.", ""]
    for name, params, ir in t["helpers"]:
        if has(ir, "yhat") or has(ir, "mcall"):
            raise Unsupported("helper %s refers to method state" % name)
        out.append("Definition %s (%s : R) : R :=\n  %s.\n" % (name, " ".join(params), coq(ir, {})))
    ov = {"y": "y", "w": "w", "s": "s", "yhat": "yhat"}
    for name, ir in t["mhelpers"].items():
        out.append("Definition %s (aw : bool) (y w s yhat : R) : R :=\n  %s.\n" % (name, coq(ir, ov)))
    table = []
    for (cls, m), ir in t["methods"].items():
        sh = shape(ir, tr)
        if m == "loss":
            terms = []
            outer = split_sums(ir, terms)
            if not terms:
                raise Unsupported("%s.loss does not sum over the observations" % cls)
            if not obs_free(outer):
                raise Unsupported("%s.loss: array-valued expression outside .sum()" % cls)
            for i, b in enumerate(terms):
                out.append("Definition %s_loss_term%s (aw : bool) (y w s yhat : R) : R :=\n  %s.\n"
                           % (cls, "" if i == 0 else str(i + 1), coq(b, ov)))
            out.append("Definition %s_loss (aw : bool) (l : list obs) : R :=\n  %s.\n" % (cls, coq_outer(outer, cls)))
        else:
            if has(ir, "sum"):
                raise Unsupported("%s.%s sums" % (cls, m))
            out.append("Definition %s_%s (aw : bool) (y w s yhat : R) : R :=\n  %s.\n" % (cls, m, coq(ir, ov)))
        table.append('("%s.%s"%%string, %s, %s)' % (cls, m, "true" if m == "loss" else "false", sh))
    out.append("End Gen.\n")
    out.append("(* result-shape expression of every method: (name, is_loss, shexpr) *)")
    out.append("Definition method_shapes : list mentry :=\n  [ " + ";\n    ".join(table) + " ].\n")
    # constructor facts: a scalar spread equal to the tested constant is replaced by <built constant> * ones
    rows = []
    for cls, facts in t["ctor"].items():
        for g, c in facts:
            if g != "default":
                rows.append('("%s"%%string, %s, %s)' % (cls, qlit(g), qlit(c)))
    out.append("(* spread constructors: (class, constant the scalar spread is compared with, constant array built instead),\n"
               "   as (numerator, denominator) *)")
    out.append("Definition ctor_default_pairs : list (string * (nat * nat) * (nat * nat)) :=\n  [ " + ";\n    ".join(rows) + " ].\n")
    return "\n".join(out)


def qlit(fr):
    if fr < 0:
        raise Unsupported("negative spread constant")
    return "(%d, %d)%%nat" % (fr.numerator, fr.denominator)


FALLBACK = """From Coq Require Import Reals List String.
From PV Require Import Loss.
Import ListNotations.
Definition method_shapes : list mentry := [].
Definition ctor_default_pairs : list (string * (nat * nat) * (nat * nat)) := [].
"""


def generate():
    try:
        return emit(translate())
    except (Unsupported, ValueError, TypeError, IndexError, KeyError, AttributeError, AssertionError, RecursionError) as u:   # any surprise in the source = fail closed
        return failed("LossGen", str(u)) + FALLBACK
    except (SyntaxError, OSError) as u:
        return failed("LossGen", "cannot read source: %r" % (u,)) + FALLBACK


if __name__ == "__main__":
    print(generate())
