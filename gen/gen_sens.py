"""C13 translator: facts about the sensitivity systems of DeterministicOde -> coq/Gen/SensGen.v

Reads (Python ast, fail-closed) from the current $PYGOM_REPO source
  ode_utils/__init__.py : vecToMatSens, matToVecSens (reshape orders), shapeAdjust wiring
  deterministic.py      : sensitivity, eval_sensitivity, ode_and_sensitivity, sensitivityIV, eval_sensitivityIV,
                          ode_and_sensitivityIV, sens_jacobian_state, eval_sens_jacobian_state,
                          ode_and_sensitivity_jacobian (kron operand order, arrangeVector loop, which axes are
                          indexed, whether the sensitivities are re-laid out), ode_and_sensitivityIV_jacobian
and emits
  code_facts : Sens.facts          reshape orders, dot operand orders, transposes, kron operand orders
  arrange_outer_is_state, arrange_expr, arrange, perm_cols, relayout    the by_state re-arrangement
  structure_ok                     block layout of the np.bmat calls is the canonical one
Anything not recognised => translator_ok := false with the reason (never a guess).
"""
import ast, re
from pyast import *

DET = "model/deterministic.py"
OU = "model/ode_utils/__init__.py"
SAMPLES = [dict(nS=3, nP=5), dict(nS=7, nP=2), dict(nS=4, nP=4)]


# ------------------------------------------------------------------ small helpers
def norm(node_or_str):
    s = node_or_str if isinstance(node_or_str, str) else ast.unparse(node_or_str)
    for a, b in ((r"self\.num_state\b", "nS"), (r"self\.num_param\b", "nP"), (r"\bnumState\b", "nS"), (r"\bnumParam\b", "nP"),
                 (r"self\._d\b", "nS"), (r"self\._p\b", "nP")):
        s = re.sub(a, b, s)
    return s.replace(" ", "")


def ev_int(node, env):
    """evaluate an integer / tuple-of-integers shape expression over nS, nP"""
    if isinstance(node, ast.Constant) and isinstance(node.value, int):
        return node.value
    if isinstance(node, (ast.Name, ast.Attribute)):
        n = norm(node)
        if n in env:
            return env[n]
    if isinstance(node, ast.Tuple):
        return tuple(ev_int(e, env) for e in node.elts)
    if isinstance(node, ast.BinOp) and isinstance(node.op, (ast.Add, ast.Sub, ast.Mult)):
        a, b = ev_int(node.left, env), ev_int(node.right, env)
        return a + b if isinstance(node.op, ast.Add) else a - b if isinstance(node.op, ast.Sub) else a * b
    if isinstance(node, ast.UnaryOp) and isinstance(node.op, ast.USub):
        return -ev_int(node.operand, env)
    raise Unsupported("shape expression " + ast.unparse(node))


def same_shape(node, fn, what):
    for env in SAMPLES:
        if ev_int(node, env) != fn(env["nS"], env["nP"]):
            raise Unsupported("%s: shape %s is not the expected one" % (what, ast.unparse(node)))


def order_of(call, pos):
    """order argument of np.reshape (positional index pos or order=) / flatten; absent = C"""
    val = None
    if len(call.args) > pos:
        val = call.args[pos]
    for k in call.keywords:
        if k.arg == "order":
            val = k.value
        elif k.arg is not None:
            raise Unsupported("unexpected keyword %s in %s" % (k.arg, ast.unparse(call)))
    if val is None:
        return "OrdC"
    if isinstance(val, ast.Constant) and val.value in ("C", "F"):
        return "Ord" + val.value
    raise Unsupported("order argument " + ast.unparse(val))


def is_call(node, name):
    return isinstance(node, ast.Call) and norm(node.func) == name


def reshape_parts(node, what):
    """np.reshape(x, shape[, order]) -> (x node, shape node, order)"""
    if not is_call(node, "np.reshape") or len(node.args) < 2 or len(node.args) > 3:
        raise Unsupported("%s: expected np.reshape(...), found %s" % (what, ast.unparse(node)))
    return node.args[0], node.args[1], order_of(node, 2)


def dot_parts(node, what):
    """np.dot(a, b) / a.dot(b) -> (a, b)"""
    if is_call(node, "np.dot") and len(node.args) == 2 and not node.keywords:
        return node.args[0], node.args[1]
    if (isinstance(node, ast.Call) and isinstance(node.func, ast.Attribute) and node.func.attr == "dot"
            and len(node.args) == 1 and not node.keywords):
        return node.func.value, node.args[0]
    raise Unsupported("%s: expected a dot product, found %s" % (what, ast.unparse(node)))


def swapped(node, a, b, what):
    x, y = dot_parts(node, what)
    x, y = norm(x), norm(y)
    if (x, y) == (a, b):
        return False
    if (x, y) == (b, a):
        return True
    raise Unsupported("%s: operands %s, %s" % (what, x, y))


def strip_transpose(node):
    """X.transpose() / X.T -> (X, True); else (node, False)"""
    if (isinstance(node, ast.Call) and isinstance(node.func, ast.Attribute) and node.func.attr == "transpose"
            and not node.args and not node.keywords):
        return node.func.value, True
    if isinstance(node, ast.Attribute) and node.attr == "T":
        return node.value, True
    return node, False


def kron_eye_first(node, n, what):
    """np.kron(np.eye(n), J) -> True ; np.kron(J, np.eye(n)) -> False"""
    if not is_call(node, "np.kron") or len(node.args) != 2:
        raise Unsupported("%s: expected np.kron, found %s" % (what, ast.unparse(node)))
    a, b = norm(node.args[0]), norm(node.args[1])
    if (a, b) == ("np.eye(%s)" % n, "J"):
        return True
    if (a, b) == ("J", "np.eye(%s)" % n):
        return False
    raise Unsupported("%s: kron operands %s, %s" % (what, a, b))


def stmts(fn):
    """top-level statements of a function without the docstring"""
    body = list(fn.body)
    if body and isinstance(body[0], ast.Expr) and isinstance(getattr(body[0], "value", None), ast.Constant):
        body = body[1:]
    return body


def assigns(body):
    """name -> list of value nodes for simple `name = value` statements anywhere in body (not nested defs)"""
    out = {}
    for n in ast.walk(ast.Module(body=body, type_ignores=[])):
        if isinstance(n, ast.Assign) and len(n.targets) == 1 and isinstance(n.targets[0], ast.Name):
            out.setdefault(n.targets[0].id, []).append(n.value)
    return out


def one(d, name, what):
    if name not in d or len(d[name]) != 1:
        raise Unsupported("%s: expected exactly one assignment to %s" % (what, name))
    return d[name][0]


def expect(node, accepted, what):
    s = norm(node)
    if s not in accepted:
        raise Unsupported("%s: %s" % (what, s))
    return s


def find_if(body, test):
    return [n for n in body if isinstance(n, ast.If) and norm(n.test) == test]


def the_return(body, what):
    r = [n for n in body if isinstance(n, ast.Return)]
    if len(r) != 1:
        raise Unsupported("%s: expected one return" % what)
    return r[0].value


STATE_SLICE = ("state_param[0:nS]", "state_param[:nS]")
SENS_SLICE = ("state_param[nS:]", "state_param[nS::]")


# ------------------------------------------------------------------ integer expressions of the arrange loop
def z_expr(node, names):
    if isinstance(node, ast.Constant) and isinstance(node.value, int) and not isinstance(node.value, bool):
        return "(%d)" % node.value
    if isinstance(node, ast.Name) and node.id in names:
        return names[node.id]
    if isinstance(node, ast.Attribute) and norm(node) in ("nS", "nP"):
        return norm(node)
    if isinstance(node, ast.BinOp) and isinstance(node.op, (ast.Add, ast.Sub, ast.Mult)):
        op = {ast.Add: "+", ast.Sub: "-", ast.Mult: "*"}[type(node.op)]
        return "(%s %s %s)" % (z_expr(node.left, names), op, z_expr(node.right, names))
    if isinstance(node, ast.UnaryOp) and isinstance(node.op, ast.USub):
        return "(- %s)" % z_expr(node.operand, names)
    if isinstance(node, ast.IfExp):
        return "(if %s then %s else %s)" % (z_test(node.test, names), z_expr(node.body, names), z_expr(node.orelse, names))
    raise Unsupported("arrange expression " + ast.unparse(node))


def z_test(node, names):
    if isinstance(node, ast.Compare) and len(node.ops) == 1:
        a, b = z_expr(node.left, names), z_expr(node.comparators[0], names)
        op = type(node.ops[0])
        tab = {ast.Eq: "(%s =? %s)", ast.NotEq: "(negb (%s =? %s))", ast.Lt: "(%s <? %s)", ast.LtE: "(%s <=? %s)",
               ast.Gt: "(%s >? %s)", ast.GtE: "(%s >=? %s)"}
        if op in tab:
            return tab[op] % (a, b)
    raise Unsupported("arrange test " + ast.unparse(node))


def range_bound(node):
    if not is_call(node, "range"):
        raise Unsupported("loop iterator " + ast.unparse(node))
    a = node.args
    if len(a) == 1:
        return norm(a[0])
    if len(a) == 2 and norm(a[0]) == "0":
        return norm(a[1])
    raise Unsupported("loop range " + ast.unparse(node))


def arrange_loop(block):
    """block: body of the `if by_state:` that holds the loop.  Returns (outer_is_state, coq expr, perm_cols)"""
    fors = [n for n in block if isinstance(n, ast.For)]
    if len(fors) != 1:
        raise Unsupported("arrange: expected one loop nest")
    pre = {norm(n) for n in block[:block.index(fors[0])]}
    if not {"arrangeVector=np.zeros(nS*nP)", "k=0"} <= pre and not {"arrangeVector=np.zeros(nP*nS)", "k=0"} <= pre:
        raise Unsupported("arrange: initialisation " + ";".join(sorted(pre)))
    outer = fors[0]
    if len(outer.body) != 1 or not isinstance(outer.body[0], ast.For) or outer.orelse:
        raise Unsupported("arrange: outer loop body")
    inner = outer.body[0]
    if not (isinstance(outer.target, ast.Name) and isinstance(inner.target, ast.Name)) or inner.orelse:
        raise Unsupported("arrange: loop targets")
    bo, bi = range_bound(outer.iter), range_bound(inner.iter)
    if {bo, bi} != {"nS", "nP"}:
        raise Unsupported("arrange: loop bounds %s, %s" % (bo, bi))
    outer_is_state = bo == "nS"
    names = {(outer.target.id if outer_is_state else inner.target.id): "i",
             (inner.target.id if outer_is_state else outer.target.id): "j"}
    if len(names) != 2:
        raise Unsupported("arrange: loop variables")
    body = inner.body
    if len(body) != 2 or norm(body[1]) not in ("k+=1", "k=k+1"):
        raise Unsupported("arrange: inner body must be one store and k += 1")

    def store(n):
        if (isinstance(n, ast.Assign) and len(n.targets) == 1 and norm(n.targets[0]) == "arrangeVector[k]"):
            return z_expr(n.value, names)
        raise Unsupported("arrange: store " + ast.unparse(n))
    st = body[0]
    if isinstance(st, ast.If):
        if len(st.body) != 1 or len(st.orelse) != 1:
            raise Unsupported("arrange: if/else shape")
        expr = "(if %s then %s else %s)" % (z_test(st.test, names), store(st.body[0]), store(st.orelse[0]))
    else:
        expr = store(st)
    # which axes are indexed
    post = [norm(n).replace("np.array(arrangeVector,int)", "idx") for n in block[block.index(fors[0]) + 1:]]
    post = [p for p in post if p not in ("idx=idx", "idx=arrangeVector.astype(int)")]
    oj = [p for p in post if p.startswith("outJ=")]
    sj = [p for p in post if p.startswith("sensJacobianOfState=")]
    if len(oj) != 1 or len(sj) != 1 or len(post) != 2:
        raise Unsupported("arrange: indexing statements " + ";".join(post))
    if sj[0] not in ("sensJacobianOfState=sensJacobianOfState[idx,:]", "sensJacobianOfState=sensJacobianOfState[idx]"):
        raise Unsupported("arrange: " + sj[0])
    if oj[0] in ("outJ=outJ[idx,:]", "outJ=outJ[idx]"):
        perm_cols = False
    elif oj[0] in ("outJ=outJ[idx,:][:,idx]", "outJ=outJ[idx][:,idx]", "outJ=outJ[np.ix_(idx,idx)]",
                   "outJ=outJ[:,idx][idx,:]", "outJ=outJ[:,idx][idx]"):
        perm_cols = True
    else:
        raise Unsupported("arrange: " + oj[0])
    return outer_is_state, expr, perm_cols


# ------------------------------------------------------------------ np.bmat layouts
def bmat_layout(node, what):
    """np.asarray(np.bmat([[..],[..]])) -> list of rows of (kind, evaluated shapes)"""
    if is_call(node, "np.asarray") and len(node.args) == 1:
        node = node.args[0]
    if not is_call(node, "np.bmat") or len(node.args) != 1 or not isinstance(node.args[0], ast.List):
        raise Unsupported("%s: expected np.bmat([...])" % what)
    rows = []
    for r in node.args[0].elts:
        if not isinstance(r, ast.List):
            raise Unsupported("%s: bmat row" % what)
        row = []
        for b in r.elts:
            if is_call(b, "np.zeros") and len(b.args) == 1:
                row.append(("Z",) + tuple(ev_int(b.args[0], env) for env in SAMPLES))
            elif is_call(b, "np.kron"):
                row.append(("K", norm(b)))
            elif isinstance(b, ast.Name):
                row.append(("N", b.id))
            else:
                raise Unsupported("%s: bmat block %s" % (what, ast.unparse(b)))
        rows.append(row)
    return rows


def zb(fn):
    return ("Z",) + tuple(fn(e["nS"], e["nP"]) for e in SAMPLES)


# ------------------------------------------------------------------ the translator
def extract():
    F = {}
    # ---- ode_utils: vecToMatSens / matToVecSens and the shapeAdjust wiring
    x, shp, F["v2m_order"] = reshape_parts(the_return(stmts(find_function(OU, "vecToMatSens")), "vecToMatSens"), "vecToMatSens")
    expect(x, ("s",), "vecToMatSens reshapes")
    same_shape(shp, lambda s, p: (s, p), "vecToMatSens")
    x, shp, F["m2v_order"] = reshape_parts(the_return(stmts(find_function(OU, "matToVecSens")), "matToVecSens"), "matToVecSens")
    expect(x, ("S",), "matToVecSens reshapes")
    same_shape(shp, lambda s, p: s * p, "matToVecSens")
    expect(the_return(stmts(find_method(OU, "shapeAdjust", "vecToMatSens")), "shapeAdjust.vecToMatSens"),
           ("vecToMatSens(s,nS,nP)",), "shapeAdjust.vecToMatSens")
    expect(the_return(stmts(find_method(OU, "shapeAdjust", "matToVecSens")), "shapeAdjust.matToVecSens"),
           ("matToVecSens(S,nS,nP)",), "shapeAdjust.matToVecSens")
    init = [ast.unparse(n).replace(" ", "") for n in ast.walk(find_method(OU, "shapeAdjust", "__init__")) if isinstance(n, ast.Assign)]
    if "self._d=numState" not in init or "self._p=numParam" not in init:
        raise Unsupported("shapeAdjust.__init__ wiring")
    dinit = [norm(n) for n in ast.walk(find_method(DET, "DeterministicOde", "__init__")) if isinstance(n, ast.Assign)]
    if "self._SAUtil=ode_utils.shapeAdjust(nS,nP)" not in dinit:
        # since 9241b05 the helper is a property built from the current sizes: `return ode_utils.shapeAdjust(nS, nP)`
        try:
            prop = find_method(DET, "DeterministicOde", "_SAUtil")
            body = [n for n in stmts(prop) if not isinstance(n, ast.Expr)]
            ok = (len(body) == 1 and isinstance(body[0], ast.Return) and norm(body[0].value) == "ode_utils.shapeAdjust(nS,nP)"
                  and any(isinstance(dec, ast.Name) and dec.id == "property" for dec in prop.decorator_list))
        except Unsupported:
            ok = False
        if not ok:
            raise Unsupported("DeterministicOde: _SAUtil wiring")

    # ---- sensitivity
    b = stmts(find_method(DET, "DeterministicOde", "sensitivity"))
    ifs = find_if(b, "by_state")
    if len(ifs) != 1 or len(ifs[0].body) != 1 or len(ifs[0].orelse) != 1:
        raise Unsupported("sensitivity: by_state branch")
    x, shp, F["bs_in_order"] = reshape_parts(one(assigns(ifs[0].body), "S", "sensitivity"), "sensitivity")
    expect(x, ("sens",), "sensitivity reshapes")
    same_shape(shp, lambda s, p: (s, p), "sensitivity")
    expect(one(assigns(ifs[0].orelse), "S", "sensitivity"), ("self._SAUtil.vecToMatSens(sens)",), "sensitivity default branch")
    expect(the_return(b, "sensitivity"), ("self.eval_sensitivity(S=S,t=t,state=state,by_state=by_state)",
                                         "self.eval_sensitivity(S,t,state,by_state)"), "sensitivity return")

    # ---- eval_sensitivity
    b = stmts(find_method(DET, "DeterministicOde", "eval_sensitivity"))
    a = assigns(b)
    expect(one(a, "J", "eval_sensitivity"), ("self.jacobian(state,t)",), "eval_sensitivity J")
    expect(one(a, "G", "eval_sensitivity"), ("self.grad(state,t)",), "eval_sensitivity G")
    F["dot_sens_swapped"] = sum_dot(one(a, "A", "eval_sensitivity"), "J", "S", "G", "eval_sensitivity A")
    ifs = find_if(b, "by_state")
    if len(ifs) != 1 or len(ifs[0].body) != 1 or len(ifs[0].orelse) != 1:
        raise Unsupported("eval_sensitivity: by_state branch")
    x, shp, F["bs_out_order"] = reshape_parts(the_return(ifs[0].body, "eval_sensitivity"), "eval_sensitivity")
    expect(x, ("A",), "eval_sensitivity reshapes")
    same_shape(shp, lambda s, p: s * p, "eval_sensitivity")
    expect(the_return(ifs[0].orelse, "eval_sensitivity"), ("self._SAUtil.matToVecSens(A)",), "eval_sensitivity default return")

    # ---- ode_and_sensitivity
    b = stmts(find_method(DET, "DeterministicOde", "ode_and_sensitivity"))
    a = assigns(b)
    expect(one(a, "state", "ode_and_sensitivity"), STATE_SLICE, "ode_and_sensitivity state")
    expect(one(a, "sens", "ode_and_sensitivity"), SENS_SLICE, "ode_and_sensitivity sens")
    expect(one(a, "out1", "ode_and_sensitivity"), ("self.ode(state,t)",), "ode_and_sensitivity out1")
    expect(one(a, "out2", "ode_and_sensitivity"), ("self.sensitivity(sens,t,state,by_state)",), "ode_and_sensitivity out2")
    expect(the_return(b, "ode_and_sensitivity"), ("np.append(out1,out2)",), "ode_and_sensitivity return")

    # ---- sensitivityIV
    b = stmts(find_method(DET, "DeterministicOde", "sensitivityIV"))
    a = assigns(b)
    expect(one(a, "sens", "sensitivityIV"), ("sensIV[:nS*nP]", "sensIV[0:nS*nP]"), "sensitivityIV sens")
    expect(one(a, "S", "sensitivityIV"), ("self._SAUtil.vecToMatSens(sens)",), "sensitivityIV S")
    x, shp, F["iv_in_order"] = reshape_parts(one(a, "IV", "sensitivityIV"), "sensitivityIV IV")
    expect(x, ("sensIV[-(nS*nS):]", "sensIV[-nS*nS:]", "sensIV[nS*nP:]"), "sensitivityIV IV slice")
    same_shape(shp, lambda s, p: (s, s), "sensitivityIV IV")
    expect(the_return(b, "sensitivityIV"), ("self.eval_sensitivityIV(S=S,IV=IV,t=t,state=state)",
                                           "self.eval_sensitivityIV(S,IV,t,state)"), "sensitivityIV return")

    # ---- eval_sensitivityIV
    b = stmts(find_method(DET, "DeterministicOde", "eval_sensitivityIV"))
    a = assigns(b)
    expect(one(a, "J", "eval_sensitivityIV"), ("self.jacobian(state,t)",), "eval_sensitivityIV J")
    expect(one(a, "G", "eval_sensitivityIV"), ("self.grad(state,t)",), "eval_sensitivityIV G")
    F["dot_ivA_swapped"] = sum_dot(one(a, "A", "eval_sensitivityIV"), "J", "S", "G", "eval_sensitivityIV A")
    F["dot_ivB_swapped"] = swapped(one(a, "B", "eval_sensitivityIV"), "J", "IV", "eval_sensitivityIV B")
    r = the_return(b, "eval_sensitivityIV")
    if not isinstance(r, ast.Tuple) or len(r.elts) != 2:
        raise Unsupported("eval_sensitivityIV return")
    expect(r.elts[0], ("self._SAUtil.matToVecSens(A)",), "eval_sensitivityIV first output")
    fl = r.elts[1]
    if not (isinstance(fl, ast.Call) and isinstance(fl.func, ast.Attribute) and fl.func.attr in ("flatten", "ravel")
            and norm(fl.func.value) == "B"):
        raise Unsupported("eval_sensitivityIV second output " + ast.unparse(fl))
    F["iv_out_order"] = order_of(fl, 0)

    # ---- ode_and_sensitivityIV
    b = stmts(find_method(DET, "DeterministicOde", "ode_and_sensitivityIV"))
    a = assigns(b)
    expect(one(a, "state", "ode_and_sensitivityIV"), STATE_SLICE, "ode_and_sensitivityIV state")
    expect(one(a, "sens_iv", "ode_and_sensitivityIV"), SENS_SLICE, "ode_and_sensitivityIV sens_iv")
    expect(one(a, "out1", "ode_and_sensitivityIV"), ("self.ode(state,t)",), "ode_and_sensitivityIV out1")
    tup = [n for n in b if isinstance(n, ast.Assign) and isinstance(n.targets[0], ast.Tuple)]
    if len(tup) != 1 or norm(tup[0]).replace("(out2,out3)", "out2,out3") != "out2,out3=self.sensitivityIV(sens_iv,t,state)":
        raise Unsupported("ode_and_sensitivityIV out2, out3")
    expect(the_return(b, "ode_and_sensitivityIV"), ("np.append(np.append(out1,out2),out3)",), "ode_and_sensitivityIV return")

    # ---- sens_jacobian_state / eval_sens_jacobian_state
    b = stmts(find_method(DET, "DeterministicOde", "sens_jacobian_state"))
    a = assigns(b)
    expect(one(a, "state", "sens_jacobian_state"), STATE_SLICE, "sens_jacobian_state state")
    expect(one(a, "sens", "sens_jacobian_state"), SENS_SLICE, "sens_jacobian_state sens")
    expect(the_return(b, "sens_jacobian_state"), ("self.eval_sens_jacobian_state(time=t,state=state,sens=sens)",),
           "sens_jacobian_state return")
    b = stmts(find_method(DET, "DeterministicOde", "eval_sens_jacobian_state"))
    x, shp, F["sjs_order"] = reshape_parts(the_return(b, "eval_sens_jacobian_state"), "eval_sens_jacobian_state")
    same_shape(shp, lambda s, p: (s * p, s), "eval_sens_jacobian_state")
    x, F["sjs_transposed"] = strip_transpose(x)
    F["dot_sjs_swapped"] = swapped(x, "self.diff_jacobian(state,time)", "self._SAUtil.vecToMatSens(sens)",
                                   "eval_sens_jacobian_state")

    # ---- ode_and_sensitivity_jacobian
    fn = find_method(DET, "DeterministicOde", "ode_and_sensitivity_jacobian")
    b = stmts(fn)
    a = assigns(b)
    if "state" not in a or any(norm(v) not in STATE_SLICE for v in a["state"]):
        raise Unsupported("ode_and_sensitivity_jacobian state")
    expect(one(a, "J", "ode_and_sensitivity_jacobian"), ("self.jacobian(state,t)",), "ode_and_sensitivity_jacobian J")
    expect(one(a, "GJ", "ode_and_sensitivity_jacobian"), ("self.grad_jacobian(state,t)",), "ode_and_sensitivity_jacobian GJ")
    oj = [v for v in a.get("outJ", []) if is_call(v, "np.kron")]
    if len(oj) != 1:
        raise Unsupported("ode_and_sensitivity_jacobian outJ")
    F["kron_eye_first"] = kron_eye_first(oj[0], "nP", "ode_and_sensitivity_jacobian")
    sj = [v for v in a.get("sensJacobianOfState", []) if isinstance(v, ast.BinOp)]
    if len(sj) != 1 or norm(sj[0]) not in ("GJ+self.sens_jacobian_state(state_param,t)",
                                           "self.sens_jacobian_state(state_param,t)+GJ"):
        raise Unsupported("ode_and_sensitivity_jacobian sensJacobianOfState")
    blocks = find_if(b, "by_state")
    loops = [n for n in blocks if any(isinstance(m, ast.For) for m in n.body)]
    others = [n for n in blocks if n not in loops]
    if len(loops) != 1 or loops[0].orelse or len(others) > 1:
        raise Unsupported("ode_and_sensitivity_jacobian by_state blocks")
    outer_is_state, expr, perm_cols = arrange_loop(loops[0].body)
    relayout = False
    if others:
        o = others[0]
        sjs_stmt = [n for n in b if isinstance(n, ast.Assign) and norm(n.targets[0]) == "sensJacobianOfState"
                    and isinstance(n.value, ast.BinOp)][0]
        if o.orelse or len(o.body) != 2 or b.index(o) > b.index(sjs_stmt):
            raise Unsupported("ode_and_sensitivity_jacobian: unrecognised by_state block")
        la = assigns(o.body)
        x, shp, od = reshape_parts(one(la, "sens", "relayout"), "relayout")
        expect(x, SENS_SLICE, "relayout reshapes")
        same_shape(shp, lambda s, p: (s, p), "relayout")
        if od != "OrdC":
            raise Unsupported("relayout: order " + od)
        expect(one(la, "state_param", "relayout"), ("np.append(state,self._SAUtil.matToVecSens(sens))",), "relayout append")
        relayout = True
    lay = bmat_layout(the_return(b, "ode_and_sensitivity_jacobian"), "ode_and_sensitivity_jacobian")
    ok1 = lay == [[("N", "J"), zb(lambda s, p: (s, s * p))], [("N", "sensJacobianOfState"), ("N", "outJ")]]

    # ---- ode_and_sensitivityIV_jacobian
    fn = find_method(DET, "DeterministicOde", "ode_and_sensitivityIV_jacobian")
    b = stmts(fn)
    a = assigns(b)
    if "state" not in a or any(norm(v) not in STATE_SLICE for v in a["state"]):
        raise Unsupported("ode_and_sensitivityIV_jacobian state")
    expect(one(a, "nS", "IV jacobian"), ("nS",), "IV jacobian nS")
    expect(one(a, "nP", "IV jacobian"), ("nP",), "IV jacobian nP")
    expect(one(a, "J", "IV jacobian"), ("self.jacobian(state,t)",), "IV jacobian J")
    expect(one(a, "DJ", "IV jacobian"), ("self.diff_jacobian(state,t)",), "IV jacobian DJ")
    expect(one(a, "GJ", "IV jacobian"), ("self.grad_jacobian(state,t)",), "IV jacobian GJ")
    expect(one(a, "GS", "IV jacobian"), ("self.sens_jacobian_state(state_param[:nS*(nP+1)],t)",
                                         "self.sens_jacobian_state(state_param[0:nS*(nP+1)],t)"), "IV jacobian GS")
    expect(one(a, "sensJacobianOfState", "IV jacobian"), ("GJ+GS", "GS+GJ"), "IV jacobian sensJacobianOfState")
    if len(a.get("A", [])) != 2:
        raise Unsupported("IV jacobian: A assigned %d times" % len(a.get("A", [])))
    l, r = dot_parts(a["A"][0], "IV jacobian A")
    if norm(l) == "DJ":
        F["dot_ivjac_swapped"], rs = False, r
    elif norm(r) == "DJ":
        F["dot_ivjac_swapped"], rs = True, l
    else:
        raise Unsupported("IV jacobian A operands")
    x, shp, F["ivjac_in_order"] = reshape_parts(rs, "IV jacobian S0")
    expect(x, ("state_param[nS*(nP+1):]", "state_param[nS*(nP+1)::]", "state_param[-(nS*nS):]"), "IV jacobian S0 slice")
    same_shape(shp, lambda s, p: (s, s), "IV jacobian S0")
    x, shp, F["ivjac_out_order"] = reshape_parts(a["A"][1], "IV jacobian A reshape")
    same_shape(shp, lambda s, p: (s * s, s), "IV jacobian A reshape")
    x, F["ivjac_transposed"] = strip_transpose(x)
    expect(x, ("A",), "IV jacobian A reshape operand")
    F["kron_eye_first_ivP"] = kron_eye_first(one(a, "outJ", "IV jacobian"), "nP", "IV jacobian outJ")
    ifs = find_if(b, "nP==0")
    if len(ifs) != 1:
        raise Unsupported("IV jacobian: nP == 0 branch")
    lay0 = bmat_layout(the_return(ifs[0].body, "IV jacobian nP==0"), "IV jacobian nP==0")
    lay1 = bmat_layout(the_return(ifs[0].orelse, "IV jacobian"), "IV jacobian")
    krons = [blk[1] for row in lay0 + lay1 for blk in row if blk[0] == "K"]
    if len(krons) != 2 or len(set(krons)) != 1:
        raise Unsupported("IV jacobian: kron blocks " + ";".join(krons))
    kS = {"np.kron(np.eye(nS),J)": True, "np.kron(J,np.eye(nS))": False}.get(krons[0])
    if kS is None:
        raise Unsupported("IV jacobian: kron block " + krons[0])
    F["kron_eye_first_ivS"] = kS
    K = ("K", krons[0])
    ok2 = lay0 == [[("N", "J"), zb(lambda s, p: (s, s * s))], [("N", "A"), K]]
    ok3 = lay1 == [[("N", "J"), zb(lambda s, p: (s, s * p)), zb(lambda s, p: (s, s * s))],
                   [("N", "sensJacobianOfState"), ("N", "outJ"), zb(lambda s, p: (s * p, s * s))],
                   [("N", "A"), zb(lambda s, p: (s * s, s * p)), K]]
    return F, outer_is_state, expr, perm_cols, relayout, (ok1 and ok2 and ok3 and tensor_layouts())


def tensor_layouts():
    """layouts of the two derivative tensors the sensitivity Jacobians index into:
       grad_jacobian row k*nS+i col j = d G[i,k]/d x_j ; diff_jacobian = col_join over equations of Hessians"""
    fn = find_method(DET, "DeterministicOde", "get_grad_jacobian_eqn")
    fors = [n for n in stmts(fn) if isinstance(n, ast.For)]
    if len(fors) != 1:
        raise Unsupported("get_grad_jacobian_eqn: loop nest")
    l1 = fors[0]
    l2 = l1.body[0] if len(l1.body) == 1 and isinstance(l1.body[0], ast.For) else None
    l3 = l2.body[0] if l2 is not None and len(l2.body) == 1 and isinstance(l2.body[0], ast.For) else None
    if l3 is None:
        raise Unsupported("get_grad_jacobian_eqn: expected three nested loops")
    if (range_bound(l1.iter), range_bound(l2.iter)) != ("nP", "nS") or norm(l3.iter) != "enumerate(self._iterStateList())":
        raise Unsupported("get_grad_jacobian_eqn: loop ranges")
    kv, iv = l1.target.id, l2.target.id
    if not (isinstance(l3.target, ast.Tuple) and len(l3.target.elts) == 2):
        raise Unsupported("get_grad_jacobian_eqn: inner target")
    jv, sv = l3.target.elts[0].id, l3.target.elts[1].id
    a = assigns(l3.body)
    zexpr = one(a, "z", "get_grad_jacobian_eqn")
    ok = True
    for env in SAMPLES:
        for k in range(env["nP"]):
            for i in range(env["nS"]):
                e = dict(env); e[kv] = k; e[iv] = i
                ok = ok and ev_int(zexpr, e) == k * env["nS"] + i
    src = [norm(n) for n in l3.body]
    ok = ok and ("(eqn,isDifficult)=simplifyEquation(diff(G[%s,%s],%s,1))" % (iv, kv, sv) in src
                 or "eqn,isDifficult=simplifyEquation(diff(G[%s,%s],%s,1))" % (iv, kv, sv) in src)
    ok = ok and "self._GradJacobian[z,%s]=eqn" % jv in src
    # diff_jacobian
    fn = find_method(DET, "DeterministicOde", "get_diff_jacobian_eqn")
    src = [norm(n) for n in ast.walk(fn) if isinstance(n, (ast.Assign, ast.For, ast.Expr))]
    need = ["diffJacMatrix=diffJac[0]", "diffJacMatrix=diffJacMatrix.col_join(diffJac[i])", "diffJac.append(J)",
            "self._diffJacobian=copy.deepcopy(diffJacMatrix)"]
    ok = ok and all(n in src for n in need)
    heads = [norm(n.target) + " in " + norm(n.iter) for n in ast.walk(fn) if isinstance(n, ast.For)]
    ok = ok and heads[:1] == ["eqn in self._ode"] and "i in range(1,len(diffJac))" in heads
    stores = [norm(n) for n in ast.walk(fn) if isinstance(n, ast.Assign) and "simplifyEquation" in norm(n)]
    ok = ok and sorted(x.replace("(", "").replace(")", "") for x in stores) == sorted(
        x.replace("(", "").replace(")", "") for x in ["(diffEqn,D1)=simplifyEquation(diff(eqn,si,1))",
                                                        "(J[i,j],D2)=simplifyEquation(diff(diffEqn,sj,1))"])
    return ok


def sum_dot(node, a, b, g, what):
    """np.dot(a, b) + g (either order of the sum) -> swapped?"""
    if not (isinstance(node, ast.BinOp) and isinstance(node.op, ast.Add)):
        raise Unsupported("%s: expected dot + %s" % (what, g))
    if norm(node.right) == g:
        d = node.left
    elif norm(node.left) == g:
        d = node.right
    else:
        raise Unsupported("%s: %s" % (what, norm(node)))
    return swapped(d, a, b, what)


HEAD = ("From Coq Require Import ZArith Bool.\nFrom PV Require Import Shapes Sens.\n")
FIELDS = ["v2m_order", "m2v_order", "bs_in_order", "bs_out_order", "iv_in_order", "iv_out_order", "sjs_order",
          "ivjac_in_order", "ivjac_out_order", "sjs_transposed", "ivjac_transposed", "dot_sens_swapped",
          "dot_ivA_swapped", "dot_ivB_swapped", "dot_sjs_swapped", "dot_ivjac_swapped", "kron_eye_first",
          "kron_eye_first_ivP", "kron_eye_first_ivS"]


def generate():
    try:
        F, outer_is_state, expr, perm_cols, relayout, structure = extract()
        vals = "; ".join("%s := %s" % (k, F[k] if isinstance(F[k], str) else coq_bool(F[k])) for k in FIELDS)
        return ("(* GENERATED from deterministic.py / ode_utils/__init__.py: sensitivity systems *)\n" + HEAD +
                "Definition translator_ok := true.\n"
                "Definition code_facts : facts :=\n  {| %s |}.\n"
                "Definition structure_ok := %s.\n"
                "Definition arrange_outer_is_state := %s.\n"
                "Definition arrange_expr (nS nP i j : Z) : Z := %s%%Z.\n"
                "Definition arrange := arrange_of arrange_outer_is_state arrange_expr.\n"
                "Definition perm_cols := %s.\nDefinition relayout := %s.\n"
                % (vals, coq_bool(structure), coq_bool(outer_is_state), expr, coq_bool(perm_cols), coq_bool(relayout)))
    except (Unsupported, ValueError, TypeError, IndexError, KeyError, AttributeError, AssertionError, RecursionError) as u:   # any surprise in the source = fail closed
        # the intended model, so that the correspondence still says where the code departs from it
        return (failed("SensGen", str(u)) + HEAD +
                "Definition code_facts : facts := good_facts.\nDefinition structure_ok := false.\n"
                "Definition arrange_outer_is_state := true.\n"
                "Definition arrange_expr (nS nP i j : Z) : Z := (j * nS + i)%Z.\n"
                "Definition arrange := arrange_of arrange_outer_is_state arrange_expr.\n"
                "Definition perm_cols := true.\nDefinition relayout := true.\n")


if __name__ == "__main__":
    print(generate())
