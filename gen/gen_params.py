"""C09 translator: facts about BaseOdeModel.parameters (setter) -> coq/Gen/ParamsGen.v"""
import ast
from pyast import *

COPY_FORMS = ("dict(self._parameters)", "self._parameters.copy()", "copy.copy(self._parameters)",
              "copy.deepcopy(self._parameters)", "{**self._parameters}", "dict(self._parameters.items())")


def generate():
    try:
        f = find_method("model/base_ode_model.py", "BaseOdeModel", "parameters", decorator="parameters.setter")
        # --- dict branch: how is param_out initialised from the live dictionary?
        dict_if = None
        for n in walk_no_nested(f):
            if isinstance(n, ast.If) and ast.unparse(n.test) == "isinstance(parameters, dict)":
                dict_if = n
        if dict_if is None:
            raise Unsupported("dict branch not found")
        alias = None
        for n in ast.walk(ast.Module(body=dict_if.body, type_ignores=[])):
            if isinstance(n, ast.Assign) and len(n.targets) == 1 and ast.unparse(n.targets[0]) == "param_out":
                rhs = ast.unparse(n.value)
                if rhs == "self._parameters":
                    a = True
                elif rhs in COPY_FORMS:
                    a = False
                else:
                    raise Unsupported("param_out initialised from unrecognised expression " + rhs)
                if alias is not None and alias != a:
                    raise Unsupported("two different initialisations of param_out")
                alias = a
            if (isinstance(n, ast.Expr) and ast.unparse(n.value) == "param_out.update(self._parameters)"):
                if alias is True:
                    raise Unsupported("two different initialisations of param_out")
                alias = False
        if alias is None:
            alias = False          # param_out stays the fresh dict(): every dict update replaces (would show in K)
            raise Unsupported("dict branch never reads the live dictionary (not a partial update)")
        # --- pair branch: key from element [i][0] through f, value from [i][1]
        key_idx = val_idx = None
        for n in walk_no_nested(f):
            if isinstance(n, ast.Assign) and ast.unparse(n.targets[0]) == "index_temp":
                s = ast.unparse(n.value)
                if s == "f(parameters[i][0])": key_idx = 0
                elif s == "f(parameters[i][1])": key_idx = 1
                else: raise Unsupported("pair key " + s)
            if isinstance(n, ast.Assign) and ast.unparse(n.targets[0]) == "value_temp":
                s = ast.unparse(n.value)
                if s == "parameters[i][1]": val_idx = 1
                elif s == "parameters[i][0]": val_idx = 0
                else: raise Unsupported("pair value " + s)
        if key_idx is None or val_idx is None:
            raise Unsupported("pair branch not in the expected form")
        # --- rebuild loop
        canonical = False
        for n in walk_no_nested(f):
            if isinstance(n, ast.For) and ast.unparse(n.iter) == "self._parameters.items()":
                body = [ast.unparse(b) for b in n.body]
                tgt = ast.unparse(n.target)
                canonical = (tgt == "(key, val)" and body == ["index = self.get_param_index(key)",
                                                             "self._paramValue[index] = val"])
        src = ast.unparse(f)
        if "self._parameters = param_out" not in src:
            raise Unsupported("final assignment self._parameters = param_out missing")
        return ("(* GENERATED from base_ode_model.py: BaseOdeModel.parameters setter *)\n"
                "Definition translator_ok := true.\n"
                "Definition dict_branch_aliases := %s.\n"
                "Definition pairs_key_index := %d.\nDefinition pairs_value_index := %d.\n"
                "Definition rebuild_loop_is_canonical := %s.\n"
                % (coq_bool(alias), key_idx, val_idx, coq_bool(canonical)))
    except Unsupported as u:
        return (failed("ParamsGen", str(u)) +
                "Definition dict_branch_aliases := true.\nDefinition pairs_key_index := 0.\n"
                "Definition pairs_value_index := 0.\nDefinition rebuild_loop_is_canonical := false.\n")


if __name__ == "__main__":
    print(generate())
