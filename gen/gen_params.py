"""C09 translator: facts about BaseOdeModel.parameters (setter) -> coq/Gen/ParamsGen.v"""
import ast, re
from pyast import *

COPY_FORMS = ("dict(self._parameters)", "self._parameters.copy()", "copy.copy(self._parameters)",
              "copy.deepcopy(self._parameters)", "{**self._parameters}", "dict(self._parameters.items())")


def generate():
    try:
        f = find_method("model/base_ode_model.py", "BaseOdeModel", "parameters", decorator="parameters.setter")
        # --- dict branch: how is param_out initialised from the live dictionary?
        dict_if = None
        for n in walk_no_nested(f):
            if isinstance(n, ast.If) and ast.unparse(n.test) == "isinstance(parameters, dict)":
                dict_if = n
        if dict_if is None:
            raise Unsupported("dict branch not found")
        alias = None
        for n in ast.walk(ast.Module(body=dict_if.body, type_ignores=[])):
            if isinstance(n, ast.Assign) and len(n.targets) == 1 and ast.unparse(n.targets[0]) == "param_out":
                rhs = ast.unparse(n.value)
                if rhs == "self._parameters":
                    a = True
                elif rhs in COPY_FORMS:
                    a = False
                else:
                    raise Unsupported("param_out initialised from unrecognised expression " + rhs)
                if alias is not None and alias != a:
                    raise Unsupported("two different initialisations of param_out")
                alias = a
            if (isinstance(n, ast.Expr) and ast.unparse(n.value) == "param_out.update(self._parameters)"):
                if alias is True:
                    raise Unsupported("two different initialisations of param_out")
                alias = False
        if alias is None:
            alias = False          # param_out stays the fresh dict(): every dict update replaces (would show in K)
            raise Unsupported("dict branch never reads the live dictionary (not a partial update)")
        # --- pair branch: key from element [i][0] through f, value from [i][1]
        key_idx = val_idx = None
        for n in walk_no_nested(f):
            if isinstance(n, ast.Assign) and ast.unparse(n.targets[0]) == "index_temp":
                s = ast.unparse(n.value)
                if s == "f(parameters[i][0])": key_idx = 0
                elif s == "f(parameters[i][1])": key_idx = 1
                else: raise Unsupported("pair key " + s)
            if isinstance(n, ast.Assign) and ast.unparse(n.targets[0]) == "value_temp":
                s = ast.unparse(n.value)
                if s == "parameters[i][1]": val_idx = 1
                elif s == "parameters[i][0]": val_idx = 0
                else: raise Unsupported("pair value " + s)
        if key_idx is None or val_idx is None:
            raise Unsupported("pair branch not in the expected form")
        # --- rebuild loop and commit: either the old form (store first, then resolve names into self._paramValue) or the
        #     atomic form (resolve every name into a local list, then store both)
        canonical = atomic = False
        top = [st for st in f.body if not (isinstance(st, ast.Expr) and isinstance(st.value, ast.Constant))]
        texts = [ast.unparse(st) for st in top]
        for k, n in enumerate(top):
            if isinstance(n, ast.For) and ast.unparse(n.target) == "(key, val)":
                it, body = ast.unparse(n.iter), [ast.unparse(b) for b in n.body]
                if it == "self._parameters.items()" and body == ["index = self.get_param_index(key)",
                                                                 "self._paramValue[index] = val"]:
                    if texts[k - 2:k] != ["self._parameters = param_out", "self._paramValue = [0] * len(self._paramList)"] \
                            or texts[k + 1:] != ["self.set_sp()"]:
                        raise Unsupported("statements around the rebuild loop: " + "; ".join(texts[k - 2:]))
                    canonical, atomic = True, False
                elif it == "param_out.items()" and body == ["index = self.get_param_index(key)", "param_value[index] = val"]:
                    if texts[k - 1:k] != ["param_value = [0] * len(self._paramList)"] \
                            or texts[k + 1:] != ["self._parameters = param_out", "self._paramValue = param_value", "self.set_sp()"]:
                        raise Unsupported("statements around the rebuild loop: " + "; ".join(texts[k - 1:]))
                    canonical, atomic = True, True
                else:
                    raise Unsupported("rebuild loop: for (key, val) in %s: %s" % (it, "; ".join(body)))
        src = ast.unparse(f)
        if src.count("self._parameters = param_out") != 1 or src.count("self._parameters =") != 1:
            raise Unsupported("final assignment self._parameters = param_out missing or not unique")
        # --- set_sp (the last statement of the setter): does it leave the committed values alone?
        g = find_method("model/base_ode_model.py", "BaseOdeModel", "set_sp")
        keeps = True
        for n in ast.walk(g):
            tgts = []
            if isinstance(n, ast.Assign): tgts = n.targets
            elif isinstance(n, (ast.AugAssign, ast.AnnAssign)): tgts = [n.target]
            elif isinstance(n, ast.Delete): tgts = n.targets
            for tg in tgts:
                if re.match(r"self\._(paramValue|parameters)\b", ast.unparse(tg)):
                    keeps = False
            if isinstance(n, ast.Call):
                fn = ast.unparse(n.func)
                if re.match(r"self\._(paramValue|parameters)\.", fn) or fn in ("setattr", "self.__setattr__"):
                    keeps = False
                elif fn.startswith("self.") and fn != "self._hasNewTransition.trip":
                    raise Unsupported("set_sp calls %s (not followed)" % fn)
        return ("(* GENERATED from base_ode_model.py: BaseOdeModel.parameters setter *)\n"
                "Definition translator_ok := true.\n"
                "Definition dict_branch_aliases := %s.\n"
                "Definition pairs_key_index := %d.\nDefinition pairs_value_index := %d.\n"
                "Definition rebuild_loop_is_canonical := %s.\n"
                "Definition commit_is_atomic := %s.\n"
                "Definition setsp_keeps_values := %s.\n"
                % (coq_bool(alias), key_idx, val_idx, coq_bool(canonical), coq_bool(atomic), coq_bool(keeps)))
    except (Unsupported, ValueError, TypeError, IndexError, KeyError, AttributeError, AssertionError, RecursionError) as u:   # any surprise in the source = fail closed
        return (failed("ParamsGen", str(u)) +
                "Definition dict_branch_aliases := true.\nDefinition pairs_key_index := 0.\n"
                "Definition pairs_value_index := 0.\nDefinition rebuild_loop_is_canonical := false.\n"
                "Definition commit_is_atomic := false.\nDefinition setsp_keeps_values := false.\n")


if __name__ == "__main__":
    print(generate())
