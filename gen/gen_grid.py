"""C15 translator: the post-processing of gridded stochastic output in simulate.py -> coq/Gen/GridGen.v

  _extractObservationAtTime      -> Gallina function gen_extract_index (index computation, numpy idioms whitelisted)
  _addJumpsBetweenTime           -> facts: which array is histogrammed, bins, weights, column assembly, output shape
  _interpolateObservationAtTime  -> fact: np.interp(targetTime, t, X[:, i]) column by column into (len(targetTime), n_state)
  solve_stochast                 -> facts: time-argument normalisation table and the dispatch of the post-processing loop
Fail closed: anything outside the recognised subset gives translator_ok := false (with the reason) and bad defaults.
"""
import ast
from pyast import *

REL = "model/simulate.py"
CLS = "SimulateOde"


def src(n):
    return ast.unparse(n)


# ---------------------------------------------------------------------------------------- _extractObservationAtTime
class ExtractTr:
    """symbolic execution of the loop body over Coq Z / bool terms"""

    def __init__(self, tname, vname):
        self.t, self.v = tname, vname

    def is_eq_mask(self, n):
        return (isinstance(n, ast.Compare) and len(n.ops) == 1 and isinstance(n.ops[0], ast.Eq)
                and sorted([src(n.left), src(n.comparators[0])]) == sorted([self.t, self.v]))

    def b(self, n, env):
        if isinstance(n, ast.Call) and src(n.func) in ("np.any", "numpy.any", "any") and len(n.args) == 1 \
                and not n.keywords and self.is_eq_mask(n.args[0]):
            return "(any_eq t v)"
        if isinstance(n, ast.Call) and isinstance(n.func, ast.Attribute) and n.func.attr == "any" and not n.args \
                and self.is_eq_mask(n.func.value):
            return "(any_eq t v)"
        if isinstance(n, ast.Compare) and len(n.ops) == 1 and isinstance(n.ops[0], ast.In) \
                and src(n.left) == self.v and src(n.comparators[0]) == self.t:
            return "(any_eq t v)"
        if isinstance(n, ast.UnaryOp) and isinstance(n.op, ast.Not):
            return "(negb %s)" % self.b(n.operand, env)
        if isinstance(n, ast.Compare) and len(n.ops) == 1 and type(n.ops[0]) in (ast.Lt, ast.LtE, ast.Gt, ast.GtE, ast.Eq):
            op = {ast.Lt: "<?", ast.LtE: "<=?", ast.Gt: ">?", ast.GtE: ">=?", ast.Eq: "=?"}[type(n.ops[0])]
            return "(%s %s %s)%%Z" % (self.z(n.left, env), op, self.z(n.comparators[0], env))
        raise Unsupported("boolean expression " + src(n))

    def z(self, n, env):
        if isinstance(n, ast.Constant) and isinstance(n.value, int) and not isinstance(n.value, bool):
            return "(%d)%%Z" % n.value
        if isinstance(n, ast.UnaryOp) and isinstance(n.op, ast.USub):
            return "(- %s)%%Z" % self.z(n.operand, env)
        if isinstance(n, ast.Name) and n.id in env:
            return env[n.id]
        if isinstance(n, ast.BinOp) and type(n.op) in (ast.Add, ast.Sub):
            return "(%s %s %s)%%Z" % (self.z(n.left, env), "+" if isinstance(n.op, ast.Add) else "-", self.z(n.right, env))
        if isinstance(n, ast.IfExp):
            return "(if %s then %s else %s)" % (self.b(n.test, env), self.z(n.body, env), self.z(n.orelse, env))
        if isinstance(n, ast.Call):
            f = src(n.func)
            if f in ("max", "min") and len(n.args) == 2 and not n.keywords:
                return "(Z.%s %s %s)" % (f, self.z(n.args[0], env), self.z(n.args[1], env))
            if f == "int" and len(n.args) == 1 and not n.keywords:
                return self.z(n.args[0], env)
            if f == "len" and len(n.args) == 1 and src(n.args[0]) == self.t:
                return "(Z.of_nat (length t))"
            if f in ("np.searchsorted", "numpy.searchsorted") or \
                    (isinstance(n.func, ast.Attribute) and n.func.attr == "searchsorted" and src(n.func.value) == self.t):
                args = list(n.args)
                if f.startswith(("np.", "numpy.")):
                    if not args or src(args[0]) != self.t:
                        raise Unsupported("searchsorted over " + src(n))
                    args = args[1:]
                side = "left"
                if len(args) == 2:
                    if not isinstance(args[1], ast.Constant):
                        raise Unsupported("searchsorted side " + src(n))
                    side = args[1].value
                elif len(args) != 1:
                    raise Unsupported("searchsorted arguments " + src(n))
                if src(args[0]) != self.v:
                    raise Unsupported("searchsorted needle " + src(n))
                for k in n.keywords:
                    if k.arg == "side" and isinstance(k.value, ast.Constant):
                        side = k.value.value
                    else:
                        raise Unsupported("searchsorted keyword " + src(n))
                if side not in ("left", "right"):
                    raise Unsupported("searchsorted side " + repr(side))
                return "(Z.of_nat (searchsorted %s t v))" % ("SLeft" if side == "left" else "SRight")
        # np.where(t == v)[0][0]   /  np.nonzero(...)[0][0] / np.argmax(t == v)
        if isinstance(n, ast.Subscript) and src(n.slice) == "0" and isinstance(n.value, ast.Subscript) \
                and src(n.value.slice) == "0" and isinstance(n.value.value, ast.Call) \
                and src(n.value.value.func) in ("np.where", "np.nonzero", "numpy.where", "numpy.nonzero") \
                and len(n.value.value.args) == 1 and not n.value.value.keywords and self.is_eq_mask(n.value.value.args[0]):
            return "(Z.of_nat (first_eq t v))"
        raise Unsupported("index expression " + src(n))

    def block(self, stmts, env):
        for s in stmts:
            if isinstance(s, ast.Assign) and len(s.targets) == 1 and isinstance(s.targets[0], ast.Name):
                env[s.targets[0].id] = self.z(s.value, env)
            elif isinstance(s, ast.If):
                c = self.b(s.test, env)
                e1, e2 = dict(env), dict(env)
                self.block(s.body, e1)
                self.block(s.orelse, e2)
                for k in set(e1) | set(e2):
                    if e1.get(k) != e2.get(k):
                        if k not in e1 or k not in e2:
                            raise Unsupported("variable %s assigned on one branch only" % k)
                        env[k] = "(if %s then %s else %s)" % (c, e1[k], e2[k])
                    else:
                        env[k] = e1[k]
            elif isinstance(s, ast.Pass) or (isinstance(s, ast.Expr) and isinstance(s.value, ast.Constant)):
                pass
            else:
                raise Unsupported("statement in extract loop: " + src(s)[:80])
        return env


def gen_extract():
    f = find_method(REL, CLS, "_extractObservationAtTime")
    args = [a.arg for a in f.args.args]
    if len(args) != 4:
        raise Unsupported("_extractObservationAtTime signature " + str(args))
    _, Xn, tn, gn = args
    body = [s for s in f.body if not (isinstance(s, ast.Expr) and isinstance(s.value, ast.Constant))]
    if len(body) != 3:
        raise Unsupported("_extractObservationAtTime: expected 'out = []; for ...; return np.array(out)'")
    init, loop, ret = body
    if not (isinstance(init, ast.Assign) and src(init.value) in ("[]", "list()") and isinstance(init.targets[0], ast.Name)):
        raise Unsupported("output list initialisation " + src(init))
    out = init.targets[0].id
    if not (isinstance(loop, ast.For) and src(loop.iter) == gn and isinstance(loop.target, ast.Name) and not loop.orelse):
        raise Unsupported("loop over the requested times not found")
    if not (isinstance(ret, ast.Return) and src(ret.value) in ("np.array(%s)" % out, "np.asarray(%s)" % out, "numpy.array(%s)" % out)):
        raise Unsupported("return value " + src(ret))
    vn = loop.target.id
    last = loop.body[-1]
    if not (isinstance(last, ast.Expr) and isinstance(last.value, ast.Call) and src(last.value.func) == out + ".append"
            and len(last.value.args) == 1 and isinstance(last.value.args[0], ast.Subscript)
            and src(last.value.args[0].value) == Xn):
        raise Unsupported("loop does not end with %s.append(%s[index])" % (out, Xn))
    tr = ExtractTr(tn, vn)
    env = tr.block(loop.body[:-1], {})
    idx = tr.z(last.value.args[0].slice, env)
    return idx


# ---------------------------------------------------------------------------------------- _addJumpsBetweenTime
def hist_call(call, tn, gn, dXn, loopvar):
    """classify one np.histogram call -> 'HAll' | 'HTail' | 'HTailW' """
    if not (isinstance(call, ast.Call) and src(call.func) in ("np.histogram", "numpy.histogram")):
        raise Unsupported("not a histogram call: " + src(call))
    if not call.args:
        raise Unsupported("histogram without data " + src(call))
    a = src(call.args[0])
    if a == tn:
        tail = False
    elif a == tn + "[1:]":
        tail = True
    else:
        raise Unsupported("histogrammed array " + a)
    bins = weights = None
    pos = call.args[1:]
    if len(pos) > 1:
        raise Unsupported("positional histogram arguments " + src(call))
    if pos:
        bins = src(pos[0])
    for k in call.keywords:
        if k.arg == "bins":
            bins = src(k.value)
        elif k.arg == "weights":
            weights = src(k.value)
        else:
            raise Unsupported("histogram keyword " + str(k.arg))
    if bins != gn:
        raise Unsupported("histogram bins are %s, not the requested times" % bins)
    if weights in (None, "None"):
        return "HTail" if tail else "HAll"
    if weights.replace(" ", "") != "%s[:,%s]" % (dXn, loopvar):
        raise Unsupported("histogram weights " + weights)
    if not tail:
        raise Unsupported("weights=%s with the un-sliced time array (lengths differ: numpy raises)" % weights)
    return "HTailW"


def gen_hist():
    f = find_method(REL, CLS, "_addJumpsBetweenTime")
    args = [a.arg for a in f.args.args]
    if len(args) != 5:
        raise Unsupported("_addJumpsBetweenTime signature " + str(args))
    _, dXn, tn, gn, exn = args
    body = [s for s in f.body if not (isinstance(s, ast.Expr) and isinstance(s.value, ast.Constant))]
    env = {}
    loop = None
    outn = None
    width = None
    rows_offset = None
    ret = None
    for s in body:
        if isinstance(s, ast.Assign) and len(s.targets) == 1 and isinstance(s.targets[0], ast.Name):
            name, val = s.targets[0].id, src(s.value).replace(" ", "")
            if name == dXn and val in ("np.array(%s)" % dXn, "np.asarray(%s)" % dXn):
                continue
            if name == dXn and val in ["np.%s(%s).reshape(%s)" % (f, dXn, a) for f in ("array", "asarray")
                                       for a in ("-1,self.num_events", "(-1,self.num_events)",
                                                 "len(%s)-1,self.num_events" % tn, "(len(%s)-1,self.num_events)" % tn)]:
                env["#width_from_model"] = True       # 2-D even when no event was recorded
                continue
            if val == dXn + ".shape":
                env[name] = "shape"
                continue
            if val in (dXn + ".shape[1]",) or (val.endswith("[1]") and env.get(val[:-3]) == "shape"):
                env[name] = "dims1"
                continue
            if val.startswith("np.zeros("):
                call = s.value
                if len(call.args) != 1 or call.keywords or not isinstance(call.args[0], ast.Tuple) or len(call.args[0].elts) != 2:
                    raise Unsupported("output allocation " + src(s))
                r, c = call.args[0].elts
                rs = src(r).replace(" ", "")
                if rs == "len(%s)-1" % gn:
                    rows_offset = -1
                elif rs == "len(%s)" % gn:
                    rows_offset = 0
                else:
                    raise Unsupported("number of count rows " + rs)
                cs = src(c).replace(" ", "")
                if env.get(cs) == "dims1" or cs == dXn + ".shape[1]":
                    width = True
                else:
                    raise Unsupported("number of count columns " + cs)
                outn = name
                continue
            raise Unsupported("statement " + src(s))
        elif isinstance(s, ast.For):
            if loop is not None:
                raise Unsupported("two loops")
            loop = s
        elif isinstance(s, ast.Return):
            ret = s
        else:
            raise Unsupported("statement " + src(s)[:80])
    if loop is None or outn is None or ret is None or src(ret.value) != outn:
        raise Unsupported("_addJumpsBetweenTime: allocation / loop / return not in the expected form")
    it = src(loop.iter).replace(" ", "")
    if not (isinstance(loop.target, ast.Name) and (it.startswith("range(") and (env.get(it[6:-1]) == "dims1" or it[6:-1] == dXn + ".shape[1]"))):
        raise Unsupported("column loop " + src(loop.iter))
    lv = loop.target.id
    cfg = {}

    def getcall(s):
        """hist, edges = np.histogram(...)  |  hist = np.histogram(...)[0]"""
        if isinstance(s, ast.Assign) and len(s.targets) == 1:
            tg = s.targets[0]
            if isinstance(tg, ast.Tuple) and len(tg.elts) == 2 and isinstance(tg.elts[0], ast.Name) and isinstance(s.value, ast.Call):
                return tg.elts[0].id, s.value
            if isinstance(tg, ast.Name) and isinstance(s.value, ast.Subscript) and src(s.value.slice) == "0":
                return tg.id, s.value.value
        raise Unsupported("histogram assignment " + src(s))

    histvar = None
    assigned = False
    for s in loop.body:
        if isinstance(s, ast.If):
            test = src(s.test)
            if test not in (exn, "%s == True" % exn, "%s is True" % exn, "not " + exn):
                raise Unsupported("branch on " + test)
            if len(s.body) != 1 or len(s.orelse) != 1:
                raise Unsupported("histogram branches")
            (v1, c1), (v2, c2) = getcall(s.body[0]), getcall(s.orelse[0])
            if v1 != v2:
                raise Unsupported("branches assign different names")
            histvar = v1
            k1, k2 = hist_call(c1, tn, gn, dXn, lv), hist_call(c2, tn, gn, dXn, lv)
            if test.startswith("not "):
                k1, k2 = k2, k1
            cfg = dict(exact=k1, tau=k2)
        elif isinstance(s, ast.Assign) and isinstance(s.targets[0], ast.Subscript):
            tg = src(s.targets[0]).replace(" ", "")
            if tg != "%s[:,%s]" % (outn, lv) or src(s.value) != histvar:
                raise Unsupported("column assembly " + src(s))
            assigned = True
        elif isinstance(s, ast.Assign):
            v, c = getcall(s)
            histvar = v
            k = hist_call(c, tn, gn, dXn, lv)
            cfg = dict(exact=k, tau=k)
        else:
            raise Unsupported("statement in column loop " + src(s)[:80])
    if not cfg or not assigned:
        raise Unsupported("histogram / column assignment missing")
    return cfg, rows_offset, width, bool(env.get('#width_from_model'))


# ---------------------------------------------------------------------------------------- _interpolateObservationAtTime
def gen_interp():
    f = find_method(REL, CLS, "_interpolateObservationAtTime")
    _, Xn, tn, gn = [a.arg for a in f.args.args]
    s = src(f).replace(" ", "")
    ok = ("np.zeros((len(%s),n_state))" % gn) in s and ("X_out[:,i]=np.interp(%s,%s,%s[:,i])" % (gn, tn, Xn)) in s \
        and "foriinrange(n_state)" in s and "n_state=dims[1]" in s and "dims=%s.shape" % Xn in s and "returnX_out" in s
    return ok


# ---------------------------------------------------------------------------------------- solve_stochast
def classify_final(e):
    s = src(e).replace(" ", "")
    if s == "t":
        return "FSelf"
    if s in ("t[-1:]", "t[-1]", "t[len(t)-1]", "t[len(t)-1:]"):
        return "FLast"
    raise Unsupported("finalT = " + s)


def norm_branch(stmts, kind, rows):
    final = tp = None
    for s in stmts:
        if isinstance(s, ast.Assign) and len(s.targets) == 1 and isinstance(s.targets[0], ast.Name):
            n = s.targets[0].id
            if n == "finalT":
                final = classify_final(s.value)
            elif n == "timePoint":
                if not isinstance(s.value, ast.Constant) or not isinstance(s.value.value, bool):
                    raise Unsupported("timePoint = " + src(s.value))
                tp = s.value.value
            elif n == "t" and src(s.value) in ("np.array(t)", "np.asarray(t)"):
                pass
            else:
                raise Unsupported("normalisation statement " + src(s))
        elif isinstance(s, ast.If) and kind == "KSeq" and src(s.test).replace(" ", "") == "len(t)==1":
            norm_branch(s.body, "KSeq1", rows)
            norm_branch(s.orelse, "KSeq", rows)
            return
        else:
            raise Unsupported("normalisation statement " + src(s)[:80])
    if final is None:
        raise Unsupported("no finalT for " + kind)
    rows.append((kind, final, bool(tp)))


def gen_solve():
    f = find_method(REL, CLS, "solve_stochast")
    chain = None
    default_tp = None
    for s in f.body:
        if isinstance(s, ast.Assign) and src(s.targets[0]) == "timePoint":
            default_tp = src(s.value)
        if isinstance(s, ast.If) and src(s.test).startswith("isinstance(t,"):
            chain = s
            break
    if chain is None or default_tp != "False":
        raise Unsupported("time-argument normalisation not found")
    rows = []
    n = chain
    while True:
        t = src(n.test).replace(" ", "")
        if t == "isinstance(t,Number)":
            kind = "KNumber"
        elif t in ("isinstance(t,(list,tuple))", "isinstance(t,(tuple,list))"):
            kind = "KSeq"
        elif t == "isinstance(t,np.ndarray)":
            kind = "KArray"
        else:
            raise Unsupported("type test " + t)
        norm_branch(n.body, kind, rows)
        if len(n.orelse) == 1 and isinstance(n.orelse[0], ast.If):
            n = n.orelse[0]
        else:
            if not (len(n.orelse) == 1 and isinstance(n.orelse[0], ast.Raise)):
                raise Unsupported("normalisation chain does not end with raise")
            break
    # the post-processing loop
    post = None
    for s in f.body:
        if isinstance(s, ast.If) and src(s.test) == "timePoint" and any(isinstance(b, ast.For) for b in s.body):
            post = [b for b in s.body if isinstance(b, ast.For)][0]
    if post is None:
        raise Unsupported("post-processing loop not found")
    lines = [src(b).replace(" ", "") for b in ast.walk(post) if isinstance(b, (ast.Assign, ast.Expr))]
    want = ["simT=simTList.pop(0)", "simX=simXList.pop(0)", "simJump=simJumpList.pop(0)",
            "x=self._extractObservationAtTime(simX,simT,t)", "x=self._interpolateObservationAtTime(simX,simT,t)",
            "simXList.append(x)", "jump=self._addJumpsBetweenTime(simJump,simT,t,exact)", "simJumpList.append(jump)"]
    missing = [w for w in want if w not in lines]
    extra = [l for l in lines if l not in want and not l.startswith(("'", '"'))]
    if missing or extra:
        raise Unsupported("post-processing loop differs: missing %s extra %s" % (missing, extra))
    # dispatch: exact -> extract, else interpolate
    disp = None
    for b in ast.walk(post):
        if isinstance(b, ast.If) and src(b.test) == "exact":
            disp = ("_extractObservationAtTime" in src(b.body[0]) and "_interpolateObservationAtTime" in src(b.orelse[0]))
    if disp is None:
        raise Unsupported("dispatch on exact not found")
    if post.iter is None or src(post.iter).replace(" ", "") != "range(len(simXList))":
        raise Unsupported("post-processing loop range " + src(post.iter))
    s = src(f).replace(" ", "")
    unpack = "simXList,simJumpList,simTList,simdTList=(list(xmat[0]),list(xmat[1]),list(xmat[2]),list(xmat[3]))" in s \
        and "xmat=list(zip(*xtmp))" in s
    ret = "returnsimXList,simJumpList,t" in s or "return(simXList,simJumpList,t)" in s
    serial = "xtmp=[self._jump(finalT,exact=exact,full_output=True)for_iinrange(iteration)]" in s
    return rows, disp, unpack and ret and serial


# fail-closed defaults: translator_ok := false makes the first obligation fail, so nothing is claimed; the remaining
# definitions are the *intended* behaviour, so that the correspondence still compares the implementation with it
DEFAULTS = """Definition gen_extract_index (t : list Qc) (v : Qc) : Z := Z.of_nat (last_le_index t v).
Definition hist_exact : hist_cfg := HTailW.
Definition hist_tau : hist_cfg := HTailW.
Definition counts_rows_offset : Z := 0%Z.
Definition counts_width_is_dims1 := false.
Definition gen_width (nE : nat) (J : list (list Z)) : nat := nE.
Definition interp_canonical := false.
Definition time_norm : list (tkind * (tfinal * bool)) := [].
Definition dispatch_exact_extract := false.
Definition plumbing_canonical := false.
"""

HEAD = """From Coq Require Import List ZArith Bool QArith Qcanon.
From PV Require Import Grid.
Import ListNotations.
Inductive tkind := KNumber | KSeq1 | KSeq | KArray.
Inductive tfinal := FSelf | FLast.
"""


def generate():
    try:
        idx = gen_extract()
        cfg, off, width, wmodel = gen_hist()
        interp = gen_interp()
        rows, disp, plumbing = gen_solve()
        tn = "[" + "; ".join("(%s, (%s, %s))" % (k, fn, coq_bool(tp)) for k, fn, tp in rows) + "]"
        return ("(* GENERATED from simulate.py: _extractObservationAtTime, _addJumpsBetweenTime, "
                "_interpolateObservationAtTime, solve_stochast *)\n" + HEAD +
                "Definition translator_ok := true.\n"
                "Definition gen_extract_index (t : list Qc) (v : Qc) : Z :=\n  %s.\n"
                "Definition hist_exact : hist_cfg := %s.\nDefinition hist_tau : hist_cfg := %s.\n"
                "Definition counts_rows_offset : Z := (%d)%%Z.\nDefinition counts_width_is_dims1 := %s.\n"
                "Definition gen_width (nE : nat) (J : list (list Z)) : nat := %s.\n"
                "Definition interp_canonical := %s.\n"
                "Definition time_norm : list (tkind * (tfinal * bool)) := %s.\n"
                "Definition dispatch_exact_extract := %s.\nDefinition plumbing_canonical := %s.\n"
                % (idx, cfg["exact"], cfg["tau"], off, coq_bool(width), "nE" if wmodel else "ntrans J", coq_bool(interp), tn, coq_bool(disp),
                   coq_bool(plumbing)))
    except (Unsupported, ValueError, TypeError, IndexError, KeyError, AttributeError, AssertionError, RecursionError) as u:   # any surprise in the source = fail closed
        return HEAD + failed("GridGen", str(u)) + DEFAULTS


if __name__ == "__main__":
    print(generate())
