"""C06 translator: facts about pygom's loss bookkeeping -> coq/Gen/LossAlignGen.v

Read by `ast` from the current $PYGOM_REPO source (never imported):
  model/base_ode_model.py : get_state_index, _extractStateIndex, _extractStateIndexSingle (order of the returned positions)
  loss/base_loss.py       : BaseLoss.__init__ (n, p from y; what is stored as _y, _t0, _observeT; how weights / spread / state
                            index are produced), _getSolution (integrator entry point, the x0 / t0 / grid handed to it,
                            includeOrigin, row dropping, the column selection), cost / residual / costIV,
                            _setWeight_or_spread (the (m, q) rule, the branch structure as a decision tree, the final
                            `return x` | `return np.reshape(x, (n, p))`),
                            _setParam (binding loop), _setParamStateInput (decision tree over target lists and len(theta),
                            slices handed to _setX0 / _setParam / _unrollState / _unrollParam), _unrollState, _unrollParam,
                            _setX0 (does the stored array keep the dtype of its input?)
  loss/ode_loss.py        : for the five loss classes, which constructor argument is forwarded to BaseLoss's spread_param slot
                            and which loss_type class _setLossType instantiates with which arguments
Anything not in a recognised shape fails closed.
"""
import ast
from pyast import *

BL = "loss/base_loss.py"
OL = "loss/ode_loss.py"
BM = "model/base_ode_model.py"


def u(n):
    return ast.unparse(n)


def canon(text):
    return ast.unparse(ast.parse(text))


def body_nodoc(f):
    b = list(f.body)
    if b and isinstance(b[0], ast.Expr) and isinstance(b[0].value, ast.Constant) and isinstance(b[0].value.value, str):
        b = b[1:]
    return b


def stmts_of(f):
    """every statement of a function (nested blocks included, nested defs excluded), unparsed one-liners"""
    out = []
    for n in walk_no_nested(f):
        if isinstance(n, (ast.Assign, ast.AugAssign, ast.Expr, ast.Return, ast.Assert, ast.Raise)):
            out.append(u(n))
    return out


def require(stmts, wanted, where, missing):
    for w in wanted:
        if canon(w) not in stmts:
            missing.append("%s: `%s`" % (where, w))


# ---------------------------------------------------------------------------------------- name -> index
def x_index():
    """True when the positions come back sorted, False when in the order named"""
    g = find_method(BM, "BaseOdeModel", "get_state_index")
    rets = [n for n in walk_no_nested(g) if isinstance(n, ast.Return)]
    if not rets:
        raise Unsupported("get_state_index has no return")
    for r in rets:
        if not (isinstance(r.value, ast.Call) and u(r.value.func) == "self._extractStateIndex" and len(r.value.args) == 1):
            raise Unsupported("get_state_index returns %s" % u(r.value))
    e = find_method(BM, "BaseOdeModel", "_extractStateIndex")
    sorted_flag = None
    for r in [n for n in walk_no_nested(e) if isinstance(n, ast.Return)]:
        s = u(r.value)
        if s == "list()":
            continue
        if s == "[self._extractStateIndexSingle(i) for i in input_str]":
            v = False
        elif s in ("sorted([self._extractStateIndexSingle(i) for i in input_str])",
                   "sorted((self._extractStateIndexSingle(i) for i in input_str))",
                   "np.sort([self._extractStateIndexSingle(i) for i in input_str]).tolist()",
                   "list(np.sort([self._extractStateIndexSingle(i) for i in input_str]))"):
            v = True
        else:
            raise Unsupported("_extractStateIndex returns %s" % s)
        if sorted_flag is not None and sorted_flag != v:
            raise Unsupported("_extractStateIndex has two different list returns")
        sorted_flag = v
    if sorted_flag is None:
        raise Unsupported("_extractStateIndex: list comprehension over the names not found")
    for n in walk_no_nested(e):
        if isinstance(n, ast.Call) and u(n.func).endswith(".sort"):
            raise Unsupported("_extractStateIndex sorts in place")
    s1 = find_method(BM, "BaseOdeModel", "_extractStateIndexSingle")
    for r in [n for n in walk_no_nested(s1) if isinstance(n, ast.Return)]:
        if not (isinstance(r.value, ast.Call) and u(r.value.func) == "self._stateList.index" and len(r.value.args) == 1):
            raise Unsupported("_extractStateIndexSingle returns %s" % u(r.value))
    return sorted_flag


# ---------------------------------------------------------------------------------------- BaseLoss.__init__
def x_init(missing):
    f = find_method(BL, "BaseLoss", "__init__")
    st = stmts_of(f)
    idx_sorted = None
    for s in st:
        if s.startswith("self._stateIndex = "):
            rhs = s[len("self._stateIndex = "):]
            if rhs == "self._ode.get_state_index(self._stateName)":
                v = False
            elif rhs in ("sorted(self._ode.get_state_index(self._stateName))",
                         "np.sort(self._ode.get_state_index(self._stateName)).tolist()"):
                v = True
            else:
                raise Unsupported("_stateIndex computed by %s" % rhs)
            if idx_sorted is not None:
                raise Unsupported("_stateIndex assigned twice")
            idx_sorted = v
    if idx_sorted is None:
        raise Unsupported("_stateIndex assignment not found")
    require(st, ["self._stateName = state_name", "self._y = y", "self._t0 = t0", "self._observeT = t.copy()",
                 "self._setParam(theta)", "self._setX0(x0)",
                 "assert len(t) == n, 'Number of observations and time must be equal'",
                 "assert p == len(state_name), 'len(state_name) and len(y[0]) not equal'",
                 "self._lossObj = self._setLossType()"], "__init__", missing)
    # the grid with the initial time prepended (used by the gradient routines; float cast or not, same values)
    if not any(canon(x) in st for x in ("self._t = np.insert(t, 0, t0)", "self._t = np.insert(np.asarray(t, dtype=float), 0, t0)",
                                        "self._t = np.append(t0, t)")):
        missing.append("__init__: `self._t = np.insert(t, 0, t0)`")
    nw = st.count(canon("self._weight = self._setWeight_or_spread(n, p, state_weight, is_weights=True)"))
    ns = st.count(canon("self._spread_param = self._setWeight_or_spread(n, p, spread_param, is_weights=False)"))
    if nw != 2 or ns != 2 or sum(s.startswith("self._weight = ") for s in st) != 2 \
            or sum(s.startswith("self._spread_param = ") for s in st) != 2:
        missing.append("__init__: weights / spread are not both produced by _setWeight_or_spread(n, p, .) in the two state_name branches")
    # n, p from y
    ok = False
    for n in walk_no_nested(f):
        if isinstance(n, ast.If) and u(n.test) == "len(y) == y.size":
            b = [u(s) for s in n.body]
            o = [u(s) for s in n.orelse]
            ok = b == [canon("y = y.flatten()"), canon("n, p = len(y), 1")] and o == [canon("n, p = y.shape")]
    if not ok:
        missing.append("__init__: `if len(y) == y.size: y = y.flatten(); n, p = len(y), 1 else: n, p = y.shape`")
    # the names given are used as they are (a single string becomes a one-element list)
    for n in walk_no_nested(f):
        if isinstance(n, ast.Assign) and u(n.targets[0]) == "state_name":
            if u(n.value) not in ("[state_name]", "[str(i) for i in self._ode._iterStateList()]"):
                raise Unsupported("state_name rewritten as %s" % u(n.value))
    return idx_sorted


# ---------------------------------------------------------------------------------------- _getSolution
def x_get_solution(missing):
    f = find_method(BL, "BaseLoss", "_getSolution")
    b = body_nodoc(f)
    st = stmts_of(f)
    require(st, ["self._setParam(theta)", "self._ode.parameters = self._theta"], "_getSolution", missing)
    call = None
    drop = False
    for n in walk_no_nested(f):
        if isinstance(n, ast.Assign) and u(n.targets[0]) == "solution":
            v = n.value
            if isinstance(v, ast.Call):
                if u(v.func) != "ode_utils.integrateFuncJac":
                    raise Unsupported("_getSolution integrates through %s" % u(v.func))
                if call is not None:
                    raise Unsupported("_getSolution integrates twice")
                call = v
            elif u(v) in ("solution[1:]", "solution[1:, :]", "solution[1:, ...]"):
                drop = True
            else:
                raise Unsupported("_getSolution rewrites the solution as %s" % u(v))
    if call is None:
        raise Unsupported("_getSolution: integrateFuncJac call not found")
    a = [u(x) for x in call.args]
    if len(a) != 5 or a[:4] != ["self._ode.ode_T", "self._ode.jacobian_T", "self._x0", "self._t0"]:
        raise Unsupported("_getSolution hands %s to integrateFuncJac" % a)
    if a[4] == "self._observeT":
        targ = "TObserve"
    elif a[4] == "self._t":
        targ = "TWithOrigin"
    else:
        raise Unsupported("_getSolution integrates over %s" % a[4])
    origin = False
    for k in call.keywords:
        if k.arg == "includeOrigin":
            if not (isinstance(k.value, ast.Constant) and isinstance(k.value.value, bool)):
                raise Unsupported("includeOrigin=%s" % u(k.value))
            origin = k.value.value
        elif k.arg == "full_output":
            if u(k.value) != "False":
                raise Unsupported("full_output=%s" % u(k.value))
        elif k.arg == "method":
            if u(k.value) != "self._ode._intName":
                raise Unsupported("method=%s" % u(k.value))
        else:
            raise Unsupported("integrateFuncJac keyword %s" % k.arg)
    # the return of the selected columns
    last = b[-1]
    if not (isinstance(last, ast.If) and u(last.test) == "all_solution" and len(last.body) == 1 and len(last.orelse) == 1
            and isinstance(last.orelse[0], ast.Return) and u(last.body[0]) == "return solution"):
        raise Unsupported("_getSolution: final `if all_solution: return solution else: return <columns>` not found")
    r = u(last.orelse[0].value)
    sel = {"solution[:, self._stateIndex]": (False, False), "solution[1:, self._stateIndex]": (True, False),
           "solution[:, sorted(self._stateIndex)]": (False, True), "solution[:, np.sort(self._stateIndex)]": (False, True),
           "solution[1:, sorted(self._stateIndex)]": (True, True)}
    if r not in sel:
        raise Unsupported("_getSolution returns %s" % r)
    d2, cs = sel[r]
    if d2 and drop:
        raise Unsupported("_getSolution drops the first row twice")
    return targ, origin, (drop or d2), cs


def x_calls(missing):
    c = find_method(BL, "BaseLoss", "cost")
    require(stmts_of(c), ["yhat = self._getSolution(theta)", "c = self._lossObj.loss(yhat, apply_weighting=apply_weighting)",
                          "return np.nan_to_num(c) if c == np.inf else c"], "cost", missing)
    r = find_method(BL, "BaseLoss", "residual")
    require(stmts_of(r), ["solution = self._getSolution(theta)",
                          "return self._lossObj.residual(solution, apply_weighting=apply_weighting)"], "residual", missing)
    v = find_method(BL, "BaseLoss", "costIV")
    b = [u(s) for s in body_nodoc(v)]
    want = [canon("if theta is not None:\n    self._setParamStateInput(theta)"), canon("solution = self._getSolution()"),
            canon("return self._lossObj.loss(solution, apply_weighting=apply_weighting)")]
    if b != want:
        missing.append("costIV: body is not `if theta is not None: _setParamStateInput(theta); solution = _getSolution(); "
                       "return _lossObj.loss(solution, ...)`")


# ---------------------------------------------------------------------------------------- _setWeight_or_spread
DVARS = {"n": "VN", "p": "VP", "m": "VM", "q": "VQ"}


def dvar(e):
    if isinstance(e, ast.Name) and e.id in DVARS:
        return DVARS[e.id]
    if isinstance(e, ast.Constant) and e.value == 1 and not isinstance(e.value, bool):
        return "V1"
    raise Unsupported("_setWeight_or_spread compares %s" % u(e))


def dcond(t):
    if isinstance(t, ast.BoolOp):
        op = "CAnd" if isinstance(t.op, ast.And) else "COr"
        c = dcond(t.values[0])
        for v in t.values[1:]:
            c = "(%s %s %s)" % (op, c, dcond(v))
        return c
    if isinstance(t, ast.UnaryOp) and isinstance(t.op, ast.Not):
        return "(CNot %s)" % dcond(t.operand)
    if isinstance(t, ast.Compare) and len(t.ops) == 1:
        a, b = dvar(t.left), dvar(t.comparators[0])
        if isinstance(t.ops[0], ast.Eq):
            return "(CEq %s %s)" % (a, b)
        if isinstance(t.ops[0], ast.NotEq):
            return "(CNot (CEq %s %s))" % (a, b)
    raise Unsupported("_setWeight_or_spread condition %s" % u(t))


ONES = ("np.ones((n, p))", "numpy.ones((n, p))", "np.ones([n, p])", "np.ones(shape=(n, p))")
RAVELS = ("x.ravel()", "x.flatten()", "np.ravel(x)", "x.reshape(-1)", "np.reshape(x, -1)")


def dleaf(body):
    if len(body) != 1:
        raise Unsupported("_setWeight_or_spread branch with %d statements" % len(body))
    s = body[0]
    if isinstance(s, ast.Raise):
        if not (isinstance(s.exc, ast.Call) and u(s.exc.func) == "AssertionError"):
            raise Unsupported("_setWeight_or_spread raises %s" % u(s.exc))
        return "(Leaf Raise)"
    if isinstance(s, ast.If):
        return dtree(s)
    if isinstance(s, ast.Assign) and u(s.targets[0]) == "x":
        v = s.value
        if u(v) == "x":
            return "(Leaf Keep)"
        if isinstance(v, ast.BinOp) and isinstance(v.op, ast.Mult):
            l, r = u(v.left), u(v.right)
            if l not in ONES and r in ONES:
                l, r = r, l
            if l in ONES and r == "x":
                return "(Leaf Bcast)"
            if l in ONES and r in RAVELS:
                return "(Leaf BcastRavel)"
    raise Unsupported("_setWeight_or_spread branch `%s`" % u(s))


def dtree(n):
    if not n.orelse:
        raise Unsupported("_setWeight_or_spread: `if %s` without else" % u(n.test))
    return "(Node %s %s %s)" % (dcond(n.test), dleaf(n.body), dleaf(n.orelse))


def x_weights():
    f = find_method(BL, "BaseLoss", "_setWeight_or_spread")
    if [a.arg for a in f.args.args] != ["self", "n", "p", "x", "is_weights"]:
        raise Unsupported("_setWeight_or_spread signature")
    b = body_nodoc(f)
    if u(b[0]) != canon("x = ode_utils.check_array_type(x, accept_booleans=is_weights)"):
        raise Unsupported("_setWeight_or_spread does not start with check_array_type")
    ifs = [s for s in b if isinstance(s, ast.If)]
    # the message-only `if is_weights == True:` block assigns object_contents and nothing else
    main = []
    mq_ok = False
    for s in ifs:
        names = {u(t) for n in ast.walk(s) if isinstance(n, ast.Assign) for t in n.targets}
        if names == {"object_contents"}:
            continue
        if u(s.test) == "len(x) == x.size":
            mq_ok = ([u(x) for x in s.body] == [canon("m, q = len(x), 1")] and
                     [u(x) for x in s.orelse] == [canon("m, q = x.shape")])
            continue
        main.append(s)
    for s in b:
        if not isinstance(s, (ast.If, ast.Return)) and s is not b[0]:
            raise Unsupported("_setWeight_or_spread statement `%s`" % u(s))
    if len(main) != 1 or not isinstance(b[-1], ast.Return):
        raise Unsupported("_setWeight_or_spread: one decision `if` followed by a return expected")
    ret = u(b[-1].value)
    if ret == "x":
        reshapes = False
    elif ret in ("np.reshape(x, (n, p))", "x.reshape((n, p))", "x.reshape(n, p)", "np.reshape(x, [n, p])",
                 "numpy.reshape(x, (n, p))"):
        reshapes = True
    else:
        raise Unsupported("_setWeight_or_spread returns %s" % ret)
    return mq_ok, dtree(main[0]), reshapes


# ---------------------------------------------------------------------------------------- _setParam
def x_set_param(missing):
    f = find_method(BL, "BaseLoss", "_setParam")
    st = stmts_of(f)
    require(st, ["self._theta = None", "thetaDict = dict()", "l1, l2 = len(theta), len(self._targetParam)",
                 "thetaDict[self._targetParam[i]] = theta[i]", "thetaDict[self._targetParam[0]] = theta[0]",
                 "self._theta = thetaDict", "self._theta = np.copy(theta)"], "_setParam", missing)
    loops = [n for n in walk_no_nested(f) if isinstance(n, ast.For)]
    if len(loops) != 1 or u(loops[0].target) != "i" or u(loops[0].iter) != "range(l1)" or \
            [u(s) for s in loops[0].body] != [canon("thetaDict[self._targetParam[i]] = theta[i]")]:
        missing.append("_setParam: `for i in range(l1): thetaDict[self._targetParam[i]] = theta[i]`")
    tests = [u(n.test) for n in walk_no_nested(f) if isinstance(n, ast.If)]
    for t in ["self._num_param == 0", "self._targetParam is not None", "len(self._targetParam) > 1",
              "len(theta) != len(self._targetParam)", "len(theta) > 1"]:
        if canon(t) not in tests:
            missing.append("_setParam: test `%s`" % t)
    # every assignment into thetaDict is one of the recognised ones
    for s in st:
        if s.startswith("thetaDict[") and s not in (canon("thetaDict[self._targetParam[i]] = theta[i]"),
                                                    canon("thetaDict[self._targetParam[0]] = theta[0]"),
                                                    canon("thetaDict[self._targetParam[0]] = theta"),
                                                    canon("thetaDict[str(self._targetParam[0])] = theta[0]")):
            raise Unsupported("_setParam writes `%s`" % s)


def x_unroll(missing):
    f = find_method(BL, "BaseLoss", "_unrollState")
    b = body_nodoc(f)
    want = canon("for i, s in enumerate(self._targetState):\n    index = self._ode.get_state_index(s)\n    self._x0[index] = x0[i]")
    if [u(s) for s in b] != [want]:
        missing.append("_unrollState: `for i, s in enumerate(self._targetState): index = get_state_index(s); self._x0[index] = x0[i]`")
    g = find_method(BL, "BaseLoss", "_unrollParam")
    want = canon("for i, ti in enumerate(theta):\n    param_str = self._targetParam[i]\n    self._theta[param_str] = ti")
    if want not in [u(n) for n in walk_no_nested(g) if isinstance(n, ast.For)]:
        missing.append("_unrollParam: `for i, ti in enumerate(theta): param_str = self._targetParam[i]; self._theta[param_str] = ti`")
    top = body_nodoc(g)
    if not (len(top) == 1 and isinstance(top[0], ast.If) and u(top[0].test) == "self._targetParam is not None"):
        missing.append("_unrollParam: top-level `if self._targetParam is not None:`")


def x_set_x0():
    f = find_method(BL, "BaseLoss", "_setX0")
    b = [u(s) for s in body_nodoc(f)]
    if len(b) != 2 or b[0] != canon("x0 = ode_utils.check_array_type(x0)") or not b[1].startswith("self._x0 = "):
        raise Unsupported("_setX0 body %s" % b)
    rhs = b[1][len("self._x0 = "):]
    if rhs in ("np.copy(x0)", "x0.copy()", "np.array(x0)", "copy.copy(x0)", "copy.deepcopy(x0)"):
        return True
    if rhs in ("np.array(x0, dtype=float)", "np.array(x0, float)", "np.copy(x0).astype(float)", "x0.astype(float)",
               "np.array(x0, dtype=np.float64)", "np.asarray(x0, dtype=float).copy()", "np.copy(x0.astype(float))",
               "np.array(x0, dtype=float, copy=True)"):
        return False
    raise Unsupported("_setX0 stores %s" % rhs)


# ---------------------------------------------------------------------------------------- _setParamStateInput
ATOMS = {"self._num_state": "LNS", "self._num_param": "LNP", "len(self._targetParam)": "LTP", "len(self._targetState)": "LTS"}
AORDER = ["LNS", "LNP", "LTP", "LTS"]


class IvEnv:
    def __init__(self):
        self.lens = {}        # local name -> atom
        self.slices = {}      # local name -> slice text ; "theta" rebinding tracked under the key "theta"


def lexpr(e, env):
    if isinstance(e, ast.BinOp) and isinstance(e.op, ast.Add):
        return lexpr(e.left, env) + lexpr(e.right, env)
    s = u(e)
    if s in ATOMS:
        return [ATOMS[s]]
    if isinstance(e, ast.Name) and e.id in env.lens:
        return [env.lens[e.id]]
    raise Unsupported("_setParamStateInput length expression %s" % s)


def lexpr_text(l):
    l = sorted(l, key=AORDER.index)
    return "[" + "; ".join(l) + "]"


def ivcond(t, env):
    s = u(t)
    if s == "self._targetParam is None": return "TpNone"
    if s == "self._targetState is None": return "TsNone"
    if s == "self._targetParam is not None": return "(INot TpNone)"
    if s == "self._targetState is not None": return "(INot TsNone)"
    if isinstance(t, ast.BoolOp) and isinstance(t.op, ast.And):
        c = ivcond(t.values[0], env)
        for v in t.values[1:]:
            c = "(IAnd %s %s)" % (c, ivcond(v, env))
        return c
    if isinstance(t, ast.UnaryOp) and isinstance(t.op, ast.Not):
        return "(INot %s)" % ivcond(t.operand, env)
    if isinstance(t, ast.Compare) and len(t.ops) == 1 and u(t.left) == "len(theta)":
        if "theta" in env.slices:
            raise Unsupported("_setParamStateInput tests len(theta) after rebinding theta")
        e = lexpr_text(lexpr(t.comparators[0], env))
        if isinstance(t.ops[0], ast.Eq): return "(LenEq %s)" % e
        if isinstance(t.ops[0], ast.NotEq): return "(INot (LenEq %s))" % e
    raise Unsupported("_setParamStateInput condition %s" % s)


def slice_of(e, env):
    """theta | theta[:E] | theta[-E:] | a local name bound to one of these"""
    if isinstance(e, ast.Name):
        if e.id in env.slices:
            return env.slices[e.id]
        if e.id == "theta":
            return "SAll"
        raise Unsupported("_setParamStateInput passes %s" % e.id)
    if isinstance(e, ast.Subscript) and u(e.value) == "theta" and isinstance(e.slice, ast.Slice) and e.slice.step is None:
        if "theta" in env.slices:
            raise Unsupported("_setParamStateInput slices theta after rebinding it")
        lo, hi = e.slice.lower, e.slice.upper
        if lo is None and hi is not None:
            return "(SFirst %s)" % lexpr_text(lexpr(hi, env))
        if hi is None and isinstance(lo, ast.UnaryOp) and isinstance(lo.op, ast.USub):
            return "(SLast %s)" % lexpr_text(lexpr(lo.operand, env))
    raise Unsupported("_setParamStateInput slice %s" % u(e))


IVACTS = {"self._setX0": "ASetX0", "self._setParam": "ASetParam", "self._unrollState": "AUnrollState",
          "self._unrollParam": "AUnrollParam"}


def ivblock(body, env):
    """a straight-line block (actions, local bindings, raise) or a block that is one nested if"""
    env2 = IvEnv()
    env2.lens, env2.slices = dict(env.lens), dict(env.slices)
    acts = []
    for k, s in enumerate(body):
        if isinstance(s, ast.Expr) and isinstance(s.value, ast.Constant):
            continue
        if isinstance(s, ast.Raise):
            if acts:
                raise Unsupported("_setParamStateInput raises after acting")
            return "IRaise"
        if isinstance(s, ast.If):
            if acts or k != len(body) - 1:
                raise Unsupported("_setParamStateInput mixes actions and tests in one block")
            return ivtree(s, env2)
        if isinstance(s, ast.Assign) and len(s.targets) == 1:
            t = s.targets[0]
            if isinstance(t, ast.Tuple) and isinstance(s.value, ast.Tuple) and len(t.elts) == len(s.value.elts):
                for a, b in zip(t.elts, s.value.elts):
                    if u(b) not in ATOMS:
                        raise Unsupported("_setParamStateInput binds %s" % u(b))
                    env2.lens[a.id] = ATOMS[u(b)]
                continue
            if isinstance(t, ast.Name):
                if u(s.value) in ATOMS:
                    env2.lens[t.id] = ATOMS[u(s.value)]
                else:
                    env2.slices[t.id] = slice_of(s.value, env2)
                continue
            raise Unsupported("_setParamStateInput assignment %s" % u(s))
        if isinstance(s, ast.Expr) and isinstance(s.value, ast.Call) and u(s.value.func) in IVACTS \
                and len(s.value.args) == 1 and not s.value.keywords:
            acts.append("%s %s" % (IVACTS[u(s.value.func)], slice_of(s.value.args[0], env2)))
            continue
        raise Unsupported("_setParamStateInput statement `%s`" % u(s))
    if not acts:
        raise Unsupported("_setParamStateInput branch without action")
    return "(ILeaf [%s])" % "; ".join(acts)


def ivtree(n, env):
    if not n.orelse:
        raise Unsupported("_setParamStateInput: `if %s` without else" % u(n.test))
    return "(INode %s %s %s)" % (ivcond(n.test, env), ivblock(n.body, env), ivblock(n.orelse, env))


def x_iv():
    f = find_method(BL, "BaseLoss", "_setParamStateInput")
    b = body_nodoc(f)
    if len(b) != 1 or not isinstance(b[0], ast.If):
        raise Unsupported("_setParamStateInput is not a single if")
    return ivtree(b[0], IvEnv())


# ---------------------------------------------------------------------------------------- ode_loss.py
SLOTS = ["theta", "ode", "x0", "t0", "t", "y", "state_name", "state_weight", "spread_param", "target_param", "target_state"]
CLASSES = [("SquareLoss", "LSquare"), ("NormalLoss", "LNormal"), ("GammaLoss", "LGamma"), ("PoissonLoss", "LPoisson"),
           ("NegBinomLoss", "LNegBinom")]
KERNELS = {"Square": "LSquare", "Normal": "LNormal", "Gamma": "LGamma", "Poisson": "LPoisson", "NegBinom": "LNegBinom"}
SPREADS = {"None": "SpNone", "sigma": "SpSigma", "shape": "SpShape", "k": "SpK"}


def x_loss_table():
    # BaseLoss.__init__'s own slots
    f = find_method(BL, "BaseLoss", "__init__")
    if [a.arg for a in f.args.args][1:] != SLOTS:
        raise Unsupported("BaseLoss.__init__ parameters are %s" % [a.arg for a in f.args.args][1:])
    rows = []
    tree = parse(OL)
    for cname, cq in CLASSES:
        c = find_class(tree, cname)
        if [u(b) for b in c.bases] != ["BaseLoss"]:
            raise Unsupported("%s bases" % cname)
        init = [m for m in c.body if isinstance(m, ast.FunctionDef) and m.name == "__init__"]
        slt = [m for m in c.body if isinstance(m, ast.FunctionDef) and m.name == "_setLossType"]
        if len(init) != 1 or len(slt) != 1:
            raise Unsupported("%s: __init__/_setLossType" % cname)
        calls = [n for n in walk_no_nested(init[0]) if isinstance(n, ast.Call) and u(n.func) == "super().__init__"]
        if len(calls) != 1 or len(body_nodoc(init[0])) != 1:
            raise Unsupported("%s.__init__ is not a single super().__init__ call" % cname)
        bound = {}
        for i, a in enumerate(calls[0].args):
            bound[SLOTS[i]] = u(a)
        for k in calls[0].keywords:
            if k.arg in bound or k.arg not in SLOTS:
                raise Unsupported("%s.__init__ keyword %s" % (cname, k.arg))
            bound[k.arg] = u(k.value)
        ok = all(bound.get(s) == s for s in SLOTS if s != "spread_param")
        sp = bound.get("spread_param", "None")
        if sp not in SPREADS:
            raise Unsupported("%s forwards %s as spread_param" % (cname, sp))
        own = [a.arg for a in init[0].args.args]
        if sp != "None" and sp not in own:
            raise Unsupported("%s: spread argument %s is not a constructor argument" % (cname, sp))
        b = body_nodoc(slt[0])
        if len(b) != 2 or u(b[1]) != "return self._lossObj" or not (isinstance(b[0], ast.Assign) and u(b[0].targets[0]) == "self._lossObj"
                                                                    and isinstance(b[0].value, ast.Call)):
            raise Unsupported("%s._setLossType body" % cname)
        kc = b[0].value
        if u(kc.func) not in KERNELS or kc.keywords:
            raise Unsupported("%s._setLossType instantiates %s" % (cname, u(kc.func)))
        args = [u(a) for a in kc.args]
        want = ["self._y", "self._weight"] + ([] if sp == "None" else ["self._spread_param"])
        ok = ok and args == want
        rows.append("{| l_class := %s; l_kernel := %s; l_spread := %s; l_args_ok := %s |}"
                    % (cq, KERNELS[u(kc.func)], SPREADS[sp], coq_bool(ok)))
    # the kernels are imported from loss_type under their own names
    imp = [n for n in tree.body if isinstance(n, ast.ImportFrom) and n.module == "pygom.loss.loss_type"]
    for n in imp:
        for a in n.names:
            if a.asname and a.asname != a.name:
                raise Unsupported("ode_loss imports %s as %s" % (a.name, a.asname))
    return "[ " + ";\n    ".join(rows) + " ]"


HEAD = ("(* GENERATED from loss/base_loss.py, loss/ode_loss.py, model/base_ode_model.py: bookkeeping between theta / data and the loss *)\n"
        "From Coq Require Import List Bool.\nFrom PV Require Import LossAlign.\nImport ListNotations.\n")

FALLBACK = ("Definition code_facts : facts := {| index_sorted := true; cols_sorted := true; sol_time_arg := TWithOrigin; "
            "include_origin := true; drop_first := false; x0_keeps_dtype := true |}.\n"
            "Definition structure_ok := false.\nDefinition mq_rule_canonical := false.\n"
            "Definition wos_reshapes := false.\nDefinition weight_tree : dtree := Leaf Raise.\nDefinition iv_tree : ivtree := IRaise.\n"
            "Definition loss_table : list lrow := [].\n")


def generate():
    try:
        missing = []
        s1 = x_index()
        s2 = x_init(missing)
        targ, origin, drop, cs = x_get_solution(missing)
        x_calls(missing)
        mq_ok, wt, reshapes = x_weights()
        x_set_param(missing)
        x_unroll(missing)
        keeps = x_set_x0()
        iv = x_iv()
        lt = x_loss_table()
        note = "".join("(* not in the expected form: %s *)\n" % m.replace("*)", "* )") for m in missing)
        return (HEAD + "Definition translator_ok := true.\n" + note +
                "Definition code_facts : facts :=\n  {| index_sorted := %s; cols_sorted := %s; sol_time_arg := %s; include_origin := %s;\n"
                "     drop_first := %s; x0_keeps_dtype := %s |}.\n"
                % (coq_bool(s1 or s2), coq_bool(cs), targ, coq_bool(origin), coq_bool(drop), coq_bool(keeps)) +
                "Definition structure_ok := %s.\nDefinition mq_rule_canonical := %s.\n" % (coq_bool(not missing), coq_bool(mq_ok)) +
                "Definition wos_reshapes := %s.\n" % coq_bool(reshapes) +
                "Definition weight_tree : dtree :=\n  %s.\n" % wt +
                "Definition iv_tree : ivtree :=\n  %s.\n" % iv +
                "Definition loss_table : list lrow :=\n  %s.\n" % lt)
    except (Unsupported, ValueError, TypeError, IndexError, KeyError, AttributeError, AssertionError, RecursionError) as e:   # any surprise in the source = fail closed
        return HEAD + failed("LossAlignGen", str(e)) + FALLBACK


if __name__ == "__main__":
    print(generate())
