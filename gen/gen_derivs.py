"""C03 translator: the layout loops of the derivative getters and of the tau-leap statistics
(DeterministicOde.get_jacobian_eqn / get_grad_eqn / get_diff_jacobian_eqn / get_grad_jacobian_eqn,
 SimulateOde.get_TransitionJacobian / get_TransitionMean / get_TransitionVar) -> coq/Gen/DerivsGen.v.

Each getter is reduced to: which entry [row, col] receives the derivative of which object with respect to which
variables.  Index expressions become Gallina functions; the rest are facts.  Fail-closed."""
import ast
from pyast import *

DET = "model/deterministic.py"
SIM = "model/simulate.py"


def body(rel, cls, name):
    f = find_method(rel, cls, name)
    return [s for s in f.body if not (isinstance(s, ast.Expr) and isinstance(s.value, ast.Constant))]


def u(n):
    return ast.unparse(n)


def arith(e, names):
    """integer index expression over loop variables and self.num_state / self.num_param -> Gallina nat expression"""
    if isinstance(e, ast.Name) and e.id in names:
        return names[e.id]
    if isinstance(e, ast.Attribute) and u(e) == "self.num_state": return "nS"
    if isinstance(e, ast.Attribute) and u(e) == "self.num_param": return "nP"
    if isinstance(e, ast.Attribute) and u(e) == "self.num_events": return "nE"
    if isinstance(e, ast.Constant) and isinstance(e.value, int) and e.value >= 0: return str(e.value)
    if isinstance(e, ast.BinOp) and isinstance(e.op, (ast.Add, ast.Mult)):
        op = "+" if isinstance(e.op, ast.Add) else "*"
        return "(%s %s %s)" % (arith(e.left, names), op, arith(e.right, names))
    raise Unsupported("index expression " + u(e))


def strip_simplify(e):
    """simplifyEquation(x) used as `a, flag = simplifyEquation(x)` -> x"""
    if isinstance(e, ast.Call) and u(e.func) == "simplifyEquation" and len(e.args) == 1:
        return e.args[0]
    return e


def diff_call(e):
    """diff(expr, var, 1) / sympy.diff(expr, var, 1) / diff(expr, var) -> (expr, var)"""
    if isinstance(e, ast.Call) and u(e.func) in ("diff", "sympy.diff") and len(e.args) in (2, 3):
        if len(e.args) == 3 and u(e.args[2]) != "1":
            raise Unsupported("derivative order " + u(e.args[2]))
        return e.args[0], e.args[1]
    raise Unsupported("not a first derivative: " + u(e))


def loops(stmts):
    """yield (loopvars dict name->(kind, index name), innermost body) for a perfect loop nest"""
    env = {}
    cur = stmts
    while len(cur) >= 1 and isinstance(cur[0], ast.For) and len([s for s in cur if isinstance(s, ast.For)]) == 1 and \
            all(isinstance(s, (ast.For,)) or isinstance(s, ast.Assign) for s in cur):
        pre = [s for s in cur if not isinstance(s, ast.For)]
        f = [s for s in cur if isinstance(s, ast.For)][0]
        it = u(f.iter)
        if it in ("range(self.num_state)", "range(0, self.num_state)"):
            env[f.target.id] = ("state_idx", f.target.id)
        elif it in ("range(self.num_param)", "range(0, self.num_param)"):
            env[f.target.id] = ("param_idx", f.target.id)
        elif it in ("range(self.num_events)", "range(0, self.num_events)"):
            env[f.target.id] = ("event_idx", f.target.id)
        elif it == "enumerate(self._iterStateList())" and isinstance(f.target, ast.Tuple):
            env[f.target.elts[0].id] = ("state_idx", f.target.elts[0].id)
            env[f.target.elts[1].id] = ("state_sym", f.target.elts[0].id)
        elif it == "enumerate(self._iterParamList())" and isinstance(f.target, ast.Tuple):
            env[f.target.elts[0].id] = ("param_idx", f.target.elts[0].id)
            env[f.target.elts[1].id] = ("param_sym", f.target.elts[0].id)
        elif it == "enumerate(self._eventRateVector)" and isinstance(f.target, ast.Tuple):
            env[f.target.elts[0].id] = ("event_idx", f.target.elts[0].id)
            env[f.target.elts[1].id] = ("rate", f.target.elts[0].id)
        elif it == "self._ode" and isinstance(f.target, ast.Name):
            env[f.target.id] = ("ode_eqn", None)
        else:
            raise Unsupported("loop over " + it)
        yield dict(env), pre, f
        cur = f.body


def gen_grad():
    b = body(DET, "DeterministicOde", "get_grad_eqn")
    src = [u(s) for s in b]
    want0 = ["ode = self.get_ode_eqn()", "self._Grad = sympy.zeros(self.num_state, self.num_param)"]
    if src[:2] != want0 or src[-1] != "return self._Grad" or len(b) != 4 or not isinstance(b[2], ast.For):
        raise Unsupported("get_grad_eqn outline")
    f1 = b[2]
    if u(f1.iter) != "range(self.num_state)" or len(f1.body) != 1 or not isinstance(f1.body[0], ast.For):
        raise Unsupported("get_grad_eqn outer loop")
    i = f1.target.id
    f2 = f1.body[0]
    if u(f2.iter) != "enumerate(self._iterParamList())":
        raise Unsupported("get_grad_eqn inner loop")
    j, p = f2.target.elts[0].id, f2.target.elts[1].id
    row = col = None
    val = {}
    for s in f2.body:
        if isinstance(s, ast.Assign) and isinstance(s.targets[0], ast.Tuple) and u(s.value.func) == "simplifyEquation":
            val[s.targets[0].elts[0].id] = s.value.args[0]
        elif isinstance(s, ast.Assign) and u(s.targets[0]).startswith("self._Grad["):
            sl = s.targets[0].slice
            row, col = u(sl.elts[0]), u(sl.elts[1])
            v = s.value
            if isinstance(v, ast.Name) and v.id in val: v = val[v.id]
            e, x = diff_call(strip_simplify(v))
            if u(e) != "ode[%s]" % i or u(x) != p:
                raise Unsupported("grad entry is " + u(v))
        elif u(s).startswith("self._isDifficult ="):
            pass
        else:
            raise Unsupported("get_grad_eqn statement " + u(s))
    return row == i and col == j


def gen_jac():
    src = [u(s) for s in body(DET, "DeterministicOde", "get_jacobian_eqn")]
    if src[:3] != ["self.get_ode_eqn()", "states = [s for s in self._iterStateList()]", "self._Jacobian = self._ode.jacobian(states)"] \
            or src[-1] != "return self._Jacobian":
        raise Unsupported("get_jacobian_eqn outline")
    post = src[3:-1]
    if post and post != ["for i in range(self.num_state):\n    for j in range(self.num_state):\n        eqn = self._Jacobian[i, j]\n"
                         "        if eqn != 0:\n            self._Jacobian[i, j], isDifficult = simplifyEquation(eqn)\n"
                         "            self._isDifficult = self._isDifficult or isDifficult"]:
        raise Unsupported("get_jacobian_eqn post-processing")
    return True


def gen_diffjac():
    b = body(DET, "DeterministicOde", "get_diff_jacobian_eqn")
    src = [u(s) for s in b]
    if src[0] != "self.get_ode_eqn()" or src[1] not in ("diffJac = list()", "diffJac = []") or not isinstance(b[2], ast.For) \
            or u(b[2].iter) != "self._ode":
        raise Unsupported("get_diff_jacobian_eqn outline")
    f = b[2]
    eq = f.target.id
    fb = f.body
    if u(fb[0]) != "J = sympy.zeros(self.num_state, self.num_state)" or u(fb[-1]) != "diffJac.append(J)" or len(fb) != 3:
        raise Unsupported("per-equation block")
    f1 = fb[1]
    if u(f1.iter) != "enumerate(self._iterStateList())":
        raise Unsupported("first state loop")
    i, si = f1.target.elts[0].id, f1.target.elts[1].id
    first = None
    f2 = None
    for s in f1.body:
        if isinstance(s, ast.Assign) and isinstance(s.targets[0], ast.Tuple) and u(s.value.func) == "simplifyEquation":
            e, x = diff_call(s.value.args[0])
            if u(e) != eq or u(x) != si:
                raise Unsupported("first derivative " + u(s.value))
            first = s.targets[0].elts[0].id
        elif isinstance(s, ast.For):
            f2 = s
        else:
            raise Unsupported("statement " + u(s))
    if first is None or f2 is None or u(f2.iter) != "enumerate(self._iterStateList())":
        raise Unsupported("second state loop")
    j, sj = f2.target.elts[0].id, f2.target.elts[1].id
    ok = False
    for s in f2.body:
        if isinstance(s, ast.Assign) and isinstance(s.targets[0], ast.Tuple) and u(s.targets[0].elts[0]).startswith("J["):
            sl = s.targets[0].elts[0].slice
            e, x = diff_call(s.value.args[0])
            ok = (u(sl.elts[0]) == i and u(sl.elts[1]) == j and u(e) == first and u(x) == sj)
        elif u(s).startswith("self._isDifficult ="):
            pass
        else:
            raise Unsupported("statement " + u(s))
    tail = src[3:]
    want = ["diffJacMatrix = diffJac[0]", "for i in range(1, len(diffJac)):\n    diffJacMatrix = diffJacMatrix.col_join(diffJac[i])",
            "self._diffJacobian = copy.deepcopy(diffJacMatrix)", "return self._diffJacobian"]
    if tail != want:
        raise Unsupported("block joining " + " ; ".join(tail)[:120])
    return ok


def gen_gradjac():
    b = body(DET, "DeterministicOde", "get_grad_jacobian_eqn")
    src = [u(s) for s in b]
    if src[0] != "self._GradJacobian = sympy.zeros(self.num_state * self.num_param, self.num_state)" or \
            src[1] != "G = self.get_grad_eqn()" or src[-1] != "return self._GradJacobian" or len(b) != 4:
        raise Unsupported("get_grad_jacobian_eqn outline")
    env, inner = None, None
    for e, pre, f in loops([b[2]]):
        env, inner = e, f.body
    kinds = {k: v[0] for k, v in env.items()}
    pidx = [k for k, v in kinds.items() if v == "param_idx"]
    sidx = [k for k, v in kinds.items() if v == "state_idx"]
    ssym = [k for k, v in env.items() if v[0] == "state_sym"]
    if len(pidx) != 1 or len(sidx) != 2 or len(ssym) != 1:
        raise Unsupported("loop variables %s" % kinds)
    k = pidx[0]
    j = env[ssym[0]][1]
    i = [x for x in sidx if x != j][0]
    loc, row_e, ok = {}, None, False
    for s in inner:
        if isinstance(s, ast.Assign) and isinstance(s.targets[0], ast.Name):
            loc[s.targets[0].id] = s.value
        elif isinstance(s, ast.Assign) and isinstance(s.targets[0], ast.Tuple):
            loc[s.targets[0].elts[0].id] = strip_simplify(s.value)
        elif isinstance(s, ast.Assign) and u(s.targets[0]).startswith("self._GradJacobian["):
            sl = s.targets[0].slice
            r, c = sl.elts
            if isinstance(r, ast.Name) and r.id in loc: r = loc[r.id]
            row_e = arith(r, {k: "k", i: "i", j: "j"})
            v = s.value
            if isinstance(v, ast.Name) and v.id in loc: v = loc[v.id]
            e, x = diff_call(strip_simplify(v))
            ok = (u(c) == j and u(e) == "G[%s, %s]" % (i, k) and u(x) == ssym[0])
        elif u(s).startswith("self._isDifficult ="):
            pass
        else:
            raise Unsupported("statement " + u(s))
    if row_e is None:
        raise Unsupported("no assignment into _GradJacobian")
    return row_e, ok


def gen_trans():
    # F[i, j] += diff(a_i, x_k) * V[k, j]
    b = body(SIM, "SimulateOde", "get_TransitionJacobian")
    src = [u(s) for s in b]
    if src[:3] != ["self.get_StateChangeMatrix()", "self.get_EventRateVector()", "F = sympy.zeros(self.num_events, self.num_events)"] \
            or src[-2:] != ["self._transitionJacobian = F", "return self._transitionJacobian"] or len(b) != 6:
        raise Unsupported("get_TransitionJacobian outline")
    env, inner = None, None
    for e, pre, f in loops([b[3]]):
        env, inner = e, f.body
    rate = [k for k, v in env.items() if v[0] == "rate"]
    ssym = [k for k, v in env.items() if v[0] == "state_sym"]
    ev = [k for k, v in env.items() if v[0] == "event_idx"]
    if len(rate) != 1 or len(ssym) != 1 or len(ev) != 2:
        raise Unsupported("loop variables of get_TransitionJacobian")
    i = env[rate[0]][1]
    j = [x for x in ev if x != i][0]
    kk = env[ssym[0]][1]
    loc, okF = {}, False
    for s in inner:
        if isinstance(s, ast.Assign) and isinstance(s.targets[0], ast.Tuple):
            loc[s.targets[0].elts[0].id] = strip_simplify(s.value)
        elif isinstance(s, ast.AugAssign) and isinstance(s.op, ast.Add) and u(s.target) == "F[%s, %s]" % (i, j):
            v = s.value
            if not (isinstance(v, ast.BinOp) and isinstance(v.op, ast.Mult)):
                raise Unsupported("F increment " + u(v))
            l, r = v.left, v.right
            if isinstance(l, ast.Name) and l.id in loc: l = loc[l.id]
            e, x = diff_call(l)
            okF = (u(e) == rate[0] and u(x) == ssym[0] and u(r) == "self._vMat[%s, %s]" % (kk, j))
        elif u(s).startswith("self._isDifficult ="):
            pass
        else:
            raise Unsupported("statement " + u(s))
    # mu[i] += F[i, j] * a_j ; sigma2[i] += F[i, j] * F[i, j] * a_j
    def stat(name, acc, squared):
        bb = body(SIM, "SimulateOde", name)
        ss = [u(s) for s in bb]
        loopsrc = [s for s in ss if s.startswith("for ")]
        if len(loopsrc) != 1:
            raise Unsupported(name + " outline")
        term = "F[event_index_i, event_index_j] * " + ("F[event_index_i, event_index_j] * " if squared else "") + "rate_j"
        want = ("for event_index_i in range(self.num_events):\n    for event_index_j, rate_j in enumerate(self._eventRateVector):\n"
                "        %s[event_index_i] += %s" % (acc, term))
        if loopsrc[0] != want:
            raise Unsupported(name + " loop is " + loopsrc[0][:160])
        if "F = self._transitionJacobian" not in ss or ("%s = sympy.zeros(self.num_events, 1)" % acc) not in ss:
            raise Unsupported(name + " set-up")
        if not any(s.startswith("return ") for s in ss):
            raise Unsupported(name + " return")
        return True
    return okF, stat("get_TransitionMean", "mu", False), stat("get_TransitionVar", "sigma2", True)


def generate():
    try:
        g = gen_grad(); jc = gen_jac(); dj = gen_diffjac(); row, gj = gen_gradjac(); f, mu, sg = gen_trans()
        return ("(* GENERATED from deterministic.py / simulate.py: layout of the derivative getters *)\n"
                "Definition translator_ok := true.\n"
                "(* get_jacobian_eqn = ode.jacobian(states in declared order) *)\nDefinition jac_is_sympy_jacobian_of_states := %s.\n"
                "(* get_grad_eqn: Grad[i, j] = d ode[i] / d param_j *)\nDefinition grad_layout_ok := %s.\n"
                "(* get_diff_jacobian_eqn: block per equation in order, J[a, b] = d/dx_b (d eqn / d x_a), blocks col_join'ed in order *)\n"
                "Definition diffjac_layout_ok := %s.\n"
                "(* get_grad_jacobian_eqn: row index as coded, column = state index, entry = d G[i,k] / d x_j *)\n"
                "Definition gj_row (k i j nS nP : nat) : nat := %s.\nDefinition gradjac_entry_ok := %s.\n"
                "(* F[i,j] += d a_i/d x_k * V[k,j]; mu[i] += F[i,j] a_j; sigma2[i] += F[i,j]^2 a_j *)\n"
                "Definition tF_loop_ok := %s.\nDefinition tmean_loop_ok := %s.\nDefinition tvar_loop_ok := %s.\n"
                % (coq_bool(jc), coq_bool(g), coq_bool(dj), row, coq_bool(gj), coq_bool(f), coq_bool(mu), coq_bool(sg)))
    except (Unsupported, ValueError, TypeError, IndexError, KeyError, AttributeError, AssertionError, RecursionError) as e:   # any surprise in the source = fail closed
        return (failed("DerivsGen", str(e)) +
                "Definition jac_is_sympy_jacobian_of_states := false.\nDefinition grad_layout_ok := false.\n"
                "Definition diffjac_layout_ok := false.\nDefinition gj_row (k i j nS nP : nat) : nat := 0.\n"
                "Definition gradjac_entry_ok := false.\nDefinition tF_loop_ok := false.\nDefinition tmean_loop_ok := false.\n"
                "Definition tvar_loop_ok := false.\n")


if __name__ == "__main__":
    print(generate())
