"""C08 translator: facts about pygom's recompile-flag machinery -> coq/Gen/CanaryGen.v

Extracted from the current $PYGOM_REPO source (Python ast, fail-closed):
 (a) for every public mutator of BaseOdeModel (methods add_*, setters *_list, _addDerivedParam): does every
     non-raising path through its body that changes a definition field also reach self._hasNewTransition.trip()
     (directly or through a callee of the same class)?  A small interprocedural abstract interpretation over
     the pairs (changed?, tripped?).
 (b) the canary entries of SimulateOde (HasNewTransition.states) and the evaluators registered through add_func
     (with the is_master_canary flag) in DeterministicOde.__init__ / SimulateOde.__init__.
 (c) the recompile condition of add_func.func, what add_compiled_sympy_object does to the canary (own flag,
     master trip, order), when the wrapper reads the parameter values, whether the sympy generators cache.
 (d) CompileCanary.trip / reset / __setattr__ / __getattr__ : the values written.
 (e) the `parameters` setter: does it call set_sp(), and does a change of self._sp trip the canary.
Anything not recognised => translator_ok := false with the reason (never a guess); facts that could not be
established are emitted with their *bad* value.
"""
import ast
from pyast import *

BASE = "model/base_ode_model.py"
DET = "model/deterministic.py"
SIM = "model/simulate.py"
CAN = "model/ode_utils/compile_canary.py"

# attributes of the model object that make up its definition (what the sympy generators read)
DEF_FIELDS = {"_eventList", "_transitionList", "_birthDeathList", "_odeList", "_paramList", "_stateList",
              "_derivedParamList", "_derivedParamEqn", "_paramDict", "_stateDict", "_derivedParamDict",
              "_vectorStateDict"}
MUTATING_METHODS = {"append", "extend", "insert", "remove", "pop", "clear", "update", "setdefault", "__setitem__",
                    "__delitem__", "sort", "reverse"}
TRIP = "self._hasNewTransition.trip"


# --------------------------------------------------------------------------- class tables
def class_tables(rel, cls):
    c = find_class(parse(rel), cls)
    methods, setters = {}, {}
    for f in c.body:
        if isinstance(f, ast.FunctionDef):
            decs = [ast.unparse(d) for d in f.decorator_list]
            if any(d.endswith(".setter") for d in decs):
                setters[f.name] = f
            elif "property" in decs:
                pass
            else:
                methods[f.name] = f
    return methods, setters


class Analysis:
    """states are frozensets of pairs (changed, tripped); summaries map a callable to the set of pairs
    reachable at its normal exits starting from (False, False)"""

    def __init__(self, methods, setters, evaluators):
        self.methods, self.setters, self.evaluators = methods, setters, evaluators
        self.memo, self.stack = {}, []

    def summary(self, key):
        if key in self.memo:
            return self.memo[key]
        if key in self.stack:                   # recursion: may or may not change, never credited with a trip
            return frozenset({(False, False), (True, False)})
        kind, nm = key
        f = (self.setters if kind == "set" else self.methods)[nm]
        self.stack.append(key)
        exits = set()
        out = self.block(f.body, frozenset({(False, False)}), exits)
        exits |= out
        self.stack.pop()
        self.memo[key] = frozenset(exits)
        return self.memo[key]

    @staticmethod
    def join(st, eff):
        return frozenset((c or dc, t or dt) for c, t in st for dc, dt in eff)

    # effects of the calls / stores inside one expression or simple statement, in source order
    def effects(self, node, st):
        evs = []
        for n in ast.walk(node):
            if isinstance(n, (ast.FunctionDef, ast.Lambda)) and n is not node:
                raise Unsupported("nested function inside a mutator")
            pos = (getattr(n, "lineno", 0), getattr(n, "col_offset", 0))
            if isinstance(n, ast.Call):
                fn = n.func
                src = ast.unparse(fn)
                if src == TRIP:
                    evs.append((pos, frozenset({(False, True)})))
                    continue
                if src in ("self.__setattr__", "setattr", "self.__dict__.update", "object.__setattr__"):
                    raise Unsupported("dynamic attribute store %s in a mutator path" % src)
                if isinstance(fn, ast.Attribute) and isinstance(fn.value, ast.Name) and fn.value.id == "self":
                    if fn.attr in self.evaluators:
                        raise Unsupported("mutator calls evaluator %s" % fn.attr)
                    passes_field = any(self.is_field(a) for a in list(n.args) + [k.value for k in n.keywords])
                    if fn.attr in self.methods:
                        eff = self.summary(("m", fn.attr))
                        if passes_field:      # a definition list handed to a helper: assume the helper fills it
                            eff = self.join(eff, frozenset({(True, False)}))
                        evs.append((pos, eff))
                    elif passes_field:
                        evs.append((pos, frozenset({(True, False)})))
                    # unknown self.<method> (inherited / dynamic): no definition effect assumed, but never a trip
                    continue
                # self._xxxList.append(...) and friends
                if isinstance(fn, ast.Attribute) and fn.attr in MUTATING_METHODS and self.is_field(fn.value):
                    evs.append((pos, frozenset({(True, False)})))
        # stores
        targets = []
        if isinstance(node, ast.Assign):
            targets = node.targets
        elif isinstance(node, (ast.AugAssign, ast.AnnAssign)):
            targets = [node.target]
        elif isinstance(node, ast.Delete):
            targets = node.targets
        for t in targets:
            for el in (t.elts if isinstance(t, (ast.Tuple, ast.List)) else [t]):
                base = el.value if isinstance(el, ast.Subscript) else el
                pos = (getattr(el, "lineno", 0), getattr(el, "col_offset", 0) + 10 ** 6)   # store happens after the rhs
                if self.is_field(base):
                    evs.append((pos, frozenset({(True, False)})))
                elif (isinstance(base, ast.Attribute) and isinstance(base.value, ast.Name)
                      and base.value.id == "self" and base.attr in self.setters and not isinstance(el, ast.Subscript)):
                    evs.append((pos, self.summary(("set", base.attr))))
        for _, eff in sorted(evs, key=lambda e: e[0]):
            st = self.join(st, eff)
        return st

    @staticmethod
    def is_field(e):
        return (isinstance(e, ast.Attribute) and isinstance(e.value, ast.Name) and e.value.id == "self"
                and e.attr in DEF_FIELDS)

    def block(self, stmts, st, exits):
        for s in stmts:
            if not st:
                break
            st = self.stmt(s, st, exits)
        return st

    def stmt(self, s, st, exits):
        if isinstance(s, (ast.Expr, ast.Assign, ast.AugAssign, ast.AnnAssign, ast.Assert, ast.Delete)):
            return self.effects(s, st)
        if isinstance(s, ast.Pass):
            return st
        if isinstance(s, ast.Return):
            if s.value is not None:
                st = self.effects(s.value, st)
            exits |= st
            return frozenset()
        if isinstance(s, ast.Raise):
            return frozenset()                      # abnormal exit: nothing is claimed about it
        if isinstance(s, ast.If):
            st = self.effects(s.test, st)
            a = self.block(s.body, st, exits)
            b = self.block(s.orelse, st, exits)
            return a | b
        if isinstance(s, (ast.For, ast.While)):
            st = self.effects(s.iter if isinstance(s, ast.For) else s.test, st)
            if s.orelse:
                raise Unsupported("loop else")
            cur = st
            for _ in range(4):                      # lattice of 4 pairs: 4 rounds reach the fixpoint
                for b in ast.walk(ast.Module(body=s.body, type_ignores=[])):
                    if isinstance(b, (ast.Break, ast.Continue)):
                        raise Unsupported("break/continue in a mutator loop")
                nxt = cur | self.block(s.body, cur, exits)
                if nxt == cur:
                    break
                cur = nxt
            return cur
        if isinstance(s, ast.With):
            return self.block(s.body, st, exits)
        if isinstance(s, ast.Try):
            body_out = self.block(s.body, st, exits)
            # a handler may be entered after any prefix of the body: worst case = changed, no trip credited
            any_change = any(c for c, _ in body_out) or any(c for c, _ in exits)
            mid = st | frozenset((c or any_change, t) for c, t in st) | body_out
            out = self.block(s.orelse, body_out, exits)
            for h in s.handlers:
                out = out | self.block(h.body, mid, exits)
            if s.finalbody:
                out = self.block(s.finalbody, out, exits)
            return out
        raise Unsupported("statement %s in a mutator path" % type(s).__name__)


def mutator_table(evaluators):
    methods, setters = class_tables(BASE, "BaseOdeModel")
    an = Analysis(methods, setters, evaluators)
    pub = []
    for nm in methods:
        if nm.startswith("add_") or nm == "_addDerivedParam":
            pub.append(("m", nm))
    for nm in setters:
        if nm.endswith("_list"):
            pub.append(("set", nm))
    need = {"add_transition", "add_event", "add_birth_death", "add_ode", "param_list", "state_list",
            "derived_param_list", "_addDerivedParam"}
    have = {nm for _, nm in pub}
    if not need <= have:
        raise Unsupported("public mutators missing from BaseOdeModel: %s" % sorted(need - have))
    table = []
    for key in pub:
        summ = an.summary(key)
        changes = any(c for c, _ in summ)
        ok = all(t for c, t in summ if c)
        if not changes:
            raise Unsupported("mutator %s never changes a definition field (analysis lost track)" % key[1])
        table.append((key[1], ok))
    # completeness: a public method outside the table that changes the definition directly
    for nm, f in methods.items():
        if nm.startswith("_") or ("m", nm) in pub or nm == "__init__":
            continue
        summ = an.summary(("m", nm))
        if any(c and not t for c, t in summ):
            reach_only_private = False
            raise Unsupported("public method %s changes the definition without being a listed mutator" % nm)
    # subclasses must not override a mutator (the table would describe the wrong body)
    for rel, cls in ((DET, "DeterministicOde"), (SIM, "SimulateOde")):
        m2, s2 = class_tables(rel, cls)
        for nm in have:
            if nm in m2 or nm in s2:
                raise Unsupported("%s overrides mutator %s" % (cls, nm))
    return table


# --------------------------------------------------------------------------- canary class
def canary_facts():
    ms, _ = class_tables(CAN, "CompileCanary")
    for nm in ("__init__", "trip", "reset", "__getattr__", "__setattr__"):
        if nm not in ms:
            raise Unsupported("CompileCanary.%s missing" % nm)
    # __init__ trips
    if "self.trip()" not in [ast.unparse(s) for s in ms["__init__"].body]:
        raise Unsupported("CompileCanary.__init__ does not call self.trip()")
    # trip: self._states = dict([(state, V) for state in self.states])  /  {state: V for state in self.states}
    body = [s for s in ms["trip"].body if not (isinstance(s, ast.Expr) and isinstance(s.value, ast.Constant))]
    if len(body) != 1 or not isinstance(body[0], ast.Assign) or ast.unparse(body[0].targets[0]) != "self._states":
        raise Unsupported("trip body not a single assignment to self._states")
    v = body[0].value
    comp = None
    if isinstance(v, ast.Call) and ast.unparse(v.func) == "dict" and len(v.args) == 1 and isinstance(v.args[0], (ast.ListComp, ast.GeneratorExp)):
        c = v.args[0]
        if isinstance(c.elt, ast.Tuple) and len(c.elt.elts) == 2:
            comp = (c.elt.elts[0], c.elt.elts[1], c.generators)
    elif isinstance(v, ast.DictComp):
        comp = (v.key, v.value, v.generators)
    if comp is None:
        raise Unsupported("trip: unrecognised dictionary construction")
    k, val, gens = comp
    if (len(gens) != 1 or gens[0].ifs or ast.unparse(gens[0].iter) != "self.states"
            or ast.unparse(gens[0].target) != ast.unparse(k) or not isinstance(val, ast.Constant)
            or not isinstance(val.value, bool)):
        raise Unsupported("trip: comprehension is not `for state in self.states` with a boolean constant")
    trip_value = val.value
    # reset: self.__setattr__(name, <const>)
    body = [s for s in ms["reset"].body if not (isinstance(s, ast.Expr) and isinstance(s.value, ast.Constant))]
    if len(body) != 1 or not isinstance(body[0], ast.Expr) or not isinstance(body[0].value, ast.Call):
        raise Unsupported("reset body")
    call = body[0].value
    argn = [a.arg for a in ms["reset"].args.args]
    if (ast.unparse(call.func) != "self.__setattr__" or len(call.args) != 2 or ast.unparse(call.args[0]) != argn[1]
            or not isinstance(call.args[1], ast.Constant) or not isinstance(call.args[1].value, bool)):
        raise Unsupported("reset: not self.__setattr__(name, <bool>)")
    asked = call.args[1].value
    # __setattr__: if name in self.states: if not value: self._states[name] = False   else: object.__setattr__
    f = ms["__setattr__"]
    body = [s for s in f.body if not (isinstance(s, ast.Expr) and isinstance(s.value, ast.Constant))]
    if len(body) != 1 or not isinstance(body[0], ast.If) or ast.unparse(body[0].test) != "name in self.states":
        raise Unsupported("__setattr__: outer test")
    inner, other = body[0].body, body[0].orelse
    if [ast.unparse(s) for s in other] != ["object.__setattr__(self, name, value)"]:
        raise Unsupported("__setattr__: else branch")
    if len(inner) != 1 or not isinstance(inner[0], ast.If) or inner[0].orelse:
        raise Unsupported("__setattr__: inner test")
    t = ast.unparse(inner[0].test)
    st = [ast.unparse(s) for s in inner[0].body]
    if len(st) != 1 or not st[0].startswith("self._states[name] = "):
        raise Unsupported("__setattr__: store")
    stored = st[0].split("= ")[1]
    if t == "not value" and stored in ("False", "value"):
        # only falsy assignments go through; they store False
        if asked is not False:
            raise Unsupported("reset asks for True but __setattr__ only accepts falsy values")
        reset_value = False
    elif t == "value" and stored in ("True", "value"):
        if asked is not True:
            raise Unsupported("reset asks for False but __setattr__ only accepts truthy values")
        reset_value = True
    else:
        raise Unsupported("__setattr__: unrecognised guard/store %s / %s" % (t, stored))
    # __getattr__ returns self._states[name] for known names
    g = ast.unparse(ms["__getattr__"])
    if "if name in self._states:\n        return self._states[name]" not in g:
        raise Unsupported("__getattr__ does not return self._states[name]")
    return trip_value, reset_value


# --------------------------------------------------------------------------- registrations and add_func
def canary_names():
    c = find_class(parse(SIM), "HasNewTransition")
    bases = [ast.unparse(b) for b in c.bases]
    if bases != ["ode_utils.CompileCanary"]:
        raise Unsupported("HasNewTransition bases %s" % bases)
    names = None
    for s in c.body:
        if isinstance(s, ast.Assign) and ast.unparse(s.targets[0]) == "states":
            if not isinstance(s.value, ast.List) or not all(isinstance(e, ast.Constant) and isinstance(e.value, str) for e in s.value.elts):
                raise Unsupported("HasNewTransition.states is not a list of string literals")
            names = [e.value for e in s.value.elts]
        elif isinstance(s, ast.FunctionDef):
            raise Unsupported("HasNewTransition overrides %s" % s.name)
    if names is None:
        raise Unsupported("HasNewTransition.states missing")
    init = find_method(SIM, "SimulateOde", "__init__")
    if "self._hasNewTransition = HasNewTransition()" not in [ast.unparse(s) for s in init.body]:
        raise Unsupported("SimulateOde.__init__ does not install its HasNewTransition")
    return names


def registrations():
    regs = []
    for rel, cls in ((DET, "DeterministicOde"), (SIM, "SimulateOde")):
        init = find_method(rel, cls, "__init__")
        for n in walk_no_nested(init):
            if isinstance(n, ast.Call) and ast.unparse(n.func) == "self.add_func":
                if len(n.args) != 2 or not isinstance(n.args[0], ast.Constant) or not isinstance(n.args[0].value, str):
                    raise Unsupported("add_func call not in the form (\"name\", self.getter, ...)")
                g = n.args[1]
                if not (isinstance(g, ast.Attribute) and isinstance(g.value, ast.Name) and g.value.id == "self"):
                    raise Unsupported("add_func generator is not a bound method of self")
                master = False
                for k in n.keywords:
                    if k.arg == "is_master_canary":
                        if not isinstance(k.value, ast.Constant) or not isinstance(k.value.value, bool):
                            raise Unsupported("is_master_canary not a literal")
                        master = k.value.value
                    elif k.arg != "oT":
                        raise Unsupported("add_func keyword " + str(k.arg))
                regs.append((n.args[0].value, master, g.attr, n.lineno, cls))
    # order of registration = source order (DeterministicOde first)
    regs.sort(key=lambda r: (r[4] != "DeterministicOde", r[3]))
    names = [r[0] for r in regs]
    if len(set(names)) != len(names):
        raise Unsupported("an evaluator is registered twice")
    return regs


def add_func_facts():
    f = find_method(DET, "DeterministicOde", "add_func")
    args = [a.arg for a in f.args.args]
    if args[:3] != ["self", "method_name", "sympy_obj_generator_func"]:
        raise Unsupported("add_func signature")
    srcs = [ast.unparse(s) for s in f.body if not (isinstance(s, ast.Expr) and isinstance(s.value, ast.Constant))]
    if srcs[0].replace("'", '"') != 'compiled_obj_name = method_name + "Compiled"':
        raise Unsupported("add_func: compiled_obj_name")
    inner = [s for s in f.body if isinstance(s, ast.FunctionDef)]
    if len(inner) != 1 or [a.arg for a in inner[0].args.args] != ["self", "state", "t"]:
        raise Unsupported("add_func: inner func")
    if srcs[-1] != "setattr(self, method_name, func.__get__(self))":
        raise Unsupported("add_func: registration " + srcs[-1])
    body = inner[0].body
    if len(body) != 2 or not isinstance(body[0], ast.If) or body[0].orelse or not isinstance(body[1], ast.Return):
        raise Unsupported("add_func.func: body shape")
    if ast.unparse(body[1].value) != "getattr(self, compiled_obj_name)(time=t, state=state)":
        raise Unsupported("add_func.func: return " + ast.unparse(body[1].value))
    call = [ast.unparse(s) for s in body[0].body]
    EARLY = ["self.add_compiled_sympy_object(method_name, compiled_obj_name, sympy_obj_generator_func, oT, is_master_canary)"]
    LATE = ["generator = getattr(self, getattr(sympy_obj_generator_func, '__name__', ''), sympy_obj_generator_func)",
            "self.add_compiled_sympy_object(method_name, compiled_obj_name, generator, oT, is_master_canary)"]
    # EARLY: the generator captured when the evaluator was registered (on a deep copy: the ORIGINAL model's getter);
    # LATE: looked up by name on the object the evaluator is bound to
    if call == LATE:
        late_bound = True
    elif call == EARLY:
        late_bound = False
    else:
        raise Unsupported("add_func.func: recompile call " + str(call))
    MISSING = "not hasattr(self, compiled_obj_name)"
    FLAG = "getattr(self._hasNewTransition, method_name)"
    t = body[0].test
    parts = [ast.unparse(v) for v in t.values] if isinstance(t, ast.BoolOp) and isinstance(t.op, ast.Or) else [ast.unparse(t)]
    if not set(parts) <= {MISSING, FLAG}:
        raise Unsupported("add_func.func: recompile condition " + ast.unparse(t))
    if FLAG in parts and MISSING in parts and parts.index(FLAG) < parts.index(MISSING):
        raise Unsupported("flag read before the hasattr test")
    return MISSING in parts, FLAG in parts, late_bound


def compile_facts():
    f = find_method(DET, "DeterministicOde", "add_compiled_sympy_object")
    args = [a.arg for a in f.args.args]
    if args != ["self", "method_name", "compiled_obj_name", "sympy_obj_generator_func", "oT", "is_master_canary"]:
        raise Unsupported("add_compiled_sympy_object signature")
    top = [s for s in f.body if not (isinstance(s, ast.Expr) and isinstance(s.value, ast.Constant))]
    srcs = [ast.unparse(s) for s in top]
    if "sympy_obj = sympy_obj_generator_func()" not in srcs:
        raise Unsupported("the sympy object is not generated at compile time")
    # compiled from sympy_obj with self._sp in every branch
    ncomp = 0
    for n in walk_no_nested(f):
        if isinstance(n, ast.Assign) and ast.unparse(n.targets[0]) == "compiled_obj":
            c = n.value
            if not (isinstance(c, ast.Call) and ast.unparse(c.func) == "f" and len(c.args) == 2
                    and ast.unparse(c.args[0]) == "self._sp" and ast.unparse(c.args[1]) == "sympy_obj"):
                raise Unsupported("compiled_obj = " + ast.unparse(c))
            ncomp += 1
    if ncomp == 0 or "f = self._SC.compileExprAndFormat" not in srcs:
        raise Unsupported("compile call not found")
    if "setattr(self, compiled_obj_name, comp_obj)" not in srcs:
        raise Unsupported("compiled object not stored under compiled_obj_name")
    inner = [s for s in top if isinstance(s, ast.FunctionDef)]
    if len(inner) != 1 or inner[0].name != "comp_obj" or [a.arg for a in inner[0].args.args] != ["state", "time"]:
        raise Unsupported("comp_obj wrapper")
    wb = [ast.unparse(s) for s in inner[0].body]
    if wb == ["return compiled_obj(self._getEvalParam(state, time, None))"]:
        at_call = True
    else:
        # e.g. the argument vector (or the parameter part of it) is prepared outside the closure
        at_call = False
        if not (len(wb) == 1 and wb[0].startswith("return compiled_obj(")):
            raise Unsupported("comp_obj body " + str(wb))
    g = find_method(DET, "DeterministicOde", "_getEvalParam")
    last = g.body[-1]
    if not isinstance(last, ast.Return) or ast.unparse(last.value) != "eval_param + self._paramValue":
        raise Unsupported("_getEvalParam does not return eval_param + self._paramValue")
    # canary handling: [if is_master_canary: trip()] and reset(method_name), in which order
    i_set = srcs.index("setattr(self, compiled_obj_name, comp_obj)")
    tail = top[i_set + 1:]
    kinds = []
    for s in tail:
        u = ast.unparse(s)
        if isinstance(s, ast.If) and ast.unparse(s.test) == "is_master_canary" and not s.orelse \
                and [ast.unparse(b) for b in s.body] == ["self._hasNewTransition.trip()"]:
            kinds.append("master_trip")
        elif u == "self._hasNewTransition.reset(method_name)":
            kinds.append("reset")
        else:
            raise Unsupported("add_compiled_sympy_object: unexpected canary statement: " + u[:80])
    for s in top[:i_set]:
        if "_hasNewTransition" in ast.unparse(s):
            raise Unsupported("canary touched before the compiled object is stored")
    if sorted(kinds) != ["master_trip", "reset"]:
        raise Unsupported("add_compiled_sympy_object: canary statements " + str(kinds))
    return at_call, kinds.index("master_trip") < kinds.index("reset")


def getters_fresh(regs):
    """every registered generator (and every self.get_* it calls) recomputes: straight-line/loops at top level,
    a single return at the end, no early exit, no conditional at top level"""
    tables = {}
    for rel, cls in ((BASE, "BaseOdeModel"), (DET, "DeterministicOde"), (SIM, "SimulateOde")):
        tables.update(class_tables(rel, cls)[0])
    seen, todo = set(), [r[2] for r in regs]
    while todo:
        nm = todo.pop()
        if nm in seen:
            continue
        seen.add(nm)
        if nm not in tables:
            raise Unsupported("generator %s not found" % nm)
        f = tables[nm]
        body = [s for s in f.body if not (isinstance(s, ast.Expr) and isinstance(s.value, ast.Constant))]
        for i, s in enumerate(body):
            if isinstance(s, ast.Return):
                if i != len(body) - 1:
                    return False, "%s returns early" % nm
            elif not isinstance(s, (ast.Assign, ast.AugAssign, ast.Expr, ast.For)):
                return False, "%s has a top-level %s" % (nm, type(s).__name__)
        for n in ast.walk(f):
            if isinstance(n, ast.Return) and n is not body[-1]:
                return False, "%s has a nested return" % nm
            if isinstance(n, (ast.Break,)):
                return False, "%s breaks out of a loop" % nm
            if isinstance(n, ast.Call) and isinstance(n.func, ast.Attribute) and isinstance(n.func.value, ast.Name) \
                    and n.func.value.id == "self" and n.func.attr.startswith("get_") and n.func.attr in tables:
                todo.append(n.func.attr)
        if not isinstance(body[-1], ast.Return):
            return False, "%s does not end with a return" % nm
    return True, ""


def sp_facts():
    f = find_method(BASE, "BaseOdeModel", "parameters", decorator="parameters.setter")
    top = [ast.unparse(s) for s in f.body]
    sets_sp = top[-1] == "self.set_sp()"
    g = find_method(BASE, "BaseOdeModel", "set_sp")
    gs = [s for s in g.body if not (isinstance(s, ast.Expr) and isinstance(s.value, ast.Constant))]
    gsrc = [ast.unparse(s) for s in gs]
    if "self._sp = self._s + self._paramList" not in gsrc or "self._s = self._stateList + [self._t]" not in gsrc:
        raise Unsupported("set_sp does not build self._sp from the state and parameter lists")
    # does a change of the argument list trip?  recognised forms (in set_sp, after self._sp is final):
    #   self._hasNewTransition.trip()                                  (unconditional)
    #   if <old> != self._sp: trip()   /  if <old> is not None and <old> != self._sp: trip()
    #   where <old> = getattr(self, '_sp', None) | self._sp  was saved before self._sp is reassigned
    trips = False
    old = None
    i_assign = gsrc.index("self._sp = self._s + self._paramList")
    for s in gs[:i_assign]:
        if isinstance(s, ast.Assign) and isinstance(s.targets[0], ast.Name):
            r = ast.unparse(s.value).replace('"', "'")
            if r in ("getattr(self, '_sp', None)", "self._sp", "list(self._sp)", "list(getattr(self, '_sp', []))",
                     "getattr(self, '_sp', [])"):
                old = s.targets[0].id
    # the fix-up loop over self._sp must come before the comparison
    i_loop = max([i for i, s in enumerate(gs) if isinstance(s, ast.For)] + [i_assign])
    for s in gs[i_loop + 1:]:
        u = ast.unparse(s)
        if u == "self._hasNewTransition.trip()":
            trips = True
        elif isinstance(s, ast.If) and [ast.unparse(b) for b in s.body] == ["self._hasNewTransition.trip()"] and not s.orelse:
            t = ast.unparse(s.test)
            if old and t in ("%s != self._sp" % old, "self._sp != %s" % old,
                             "%s is not None and %s != self._sp" % (old, old),
                             "%s is not None and self._sp != %s" % (old, old)):
                trips = True
            else:
                raise Unsupported("set_sp: unrecognised guard on trip(): " + t)
        elif "_hasNewTransition" in u:
            raise Unsupported("set_sp: unrecognised canary statement " + u[:80])
    for s in gs[:i_loop + 1]:
        if "_hasNewTransition" in ast.unparse(s):
            raise Unsupported("set_sp: canary touched before self._sp is final")
    return sets_sp, trips


def helper_fact():
    """the shape helper of the sensitivity functions (`self._SAUtil`, ode_utils.shapeAdjust(num_state, num_param)): built once in
    the constructor (False) or from the current sizes whenever it is read (True: a property)"""
    want = "ode_utils.shapeAdjust(self.num_state, self.num_param)"
    init = find_method(DET, "DeterministicOde", "__init__")
    in_init = [ast.unparse(n.value) for n in ast.walk(init) if isinstance(n, ast.Assign) and ast.unparse(n.targets[0]) == "self._SAUtil"]
    try:
        prop = find_method(DET, "DeterministicOde", "_SAUtil")
    except Unsupported:
        prop = None
    if prop is not None:
        body = [n for n in prop.body if not (isinstance(n, ast.Expr) and isinstance(n.value, ast.Constant))]
        if (not in_init and len(body) == 1 and isinstance(body[0], ast.Return) and ast.unparse(body[0].value) == want
                and [ast.unparse(dc) for dc in prop.decorator_list] == ["property"]):
            return True
        raise Unsupported("_SAUtil property of an unknown shape")
    if in_init == [want]:
        # assigned anywhere else as well?  (a refresh in a mutator would be another design: not recognised)
        cls = find_class(parse(DET), "DeterministicOde")
        others = [n for n in ast.walk(cls) if isinstance(n, ast.Assign) and ast.unparse(n.targets[0]) == "self._SAUtil"]
        if len(others) == 1:
            return False
    raise Unsupported("_SAUtil wiring")


def coq_str_list(xs):
    return "[" + "; ".join('"%s"' % x for x in xs) + "]"


BAD_DEFAULT = """Definition facts : facts := {|
  f_mutators := []; f_canary := []; f_registered := []; f_param_mutator := "param_list";
  f_cond_missing := false; f_cond_flag := false; f_trip_value := false; f_reset_value := true;
  f_master_trip_first := true; f_params_at_call := false; f_getters_fresh := false;
  f_setter_sets_sp := false; f_sp_change_trips := false |}.
Definition getters_note := "".
Definition helper_current := false.
"""

HEAD = ("From Coq Require Import List String.\nFrom PV Require Import Canary.\nImport ListNotations.\n"
        "Open Scope string_scope.\n")


def extract():
    """returns a dict of facts (raises Unsupported)"""
    regs = registrations()
    evaluators = {r[0] for r in regs}
    names = canary_names()
    table = mutator_table(evaluators)
    trip_value, reset_value = canary_facts()
    cond_missing, cond_flag, late_bound = add_func_facts()
    at_call, trip_first = compile_facts()
    fresh, why = getters_fresh(regs)
    if not late_bound:
        fresh, why = False, "add_func captures the generator at registration: a deep copy recompiles from the original model's lists"
    sets_sp, sp_trips = sp_facts()
    return dict(mutators=table, canary=names, registered=[(r[0], r[1]) for r in regs],
                cond_missing=cond_missing, cond_flag=cond_flag, trip_value=trip_value, reset_value=reset_value,
                master_trip_first=trip_first, params_at_call=at_call, getters_fresh=fresh, getters_note=why,
                setter_sets_sp=sets_sp, sp_change_trips=sp_trips, helper_current=helper_fact())


def generate():
    try:
        d = extract()
        b = coq_bool
        return (HEAD + "(* GENERATED from base_ode_model.py, deterministic.py, simulate.py, ode_utils/compile_canary.py *)\n"
                "Definition translator_ok := true.\n"
                "Definition facts : facts := {|\n"
                "  f_mutators := [%s];\n  f_canary := %s;\n  f_registered := [%s];\n"
                "  f_param_mutator := \"param_list\";\n"
                "  f_cond_missing := %s; f_cond_flag := %s; f_trip_value := %s; f_reset_value := %s;\n"
                "  f_master_trip_first := %s; f_params_at_call := %s; f_getters_fresh := %s;\n"
                "  f_setter_sets_sp := %s; f_sp_change_trips := %s |}.\n"
                "Definition getters_note := \"%s\".\n"
                "Definition helper_current := %s.\n"
                % ("; ".join('("%s", %s)' % (m, b(t)) for m, t in d["mutators"]),
                   coq_str_list(d["canary"]),
                   "; ".join('("%s", %s)' % (e, b(m)) for e, m in d["registered"]),
                   b(d["cond_missing"]), b(d["cond_flag"]), b(d["trip_value"]), b(d["reset_value"]),
                   b(d["master_trip_first"]), b(d["params_at_call"]), b(d["getters_fresh"]),
                   b(d["setter_sets_sp"]), b(d["sp_change_trips"]), d["getters_note"].replace('"', "'"), b(d["helper_current"])))
    except (Unsupported, ValueError, TypeError, IndexError, KeyError, AttributeError, AssertionError, RecursionError) as u:   # any surprise in the source = fail closed
        return HEAD + failed("CanaryGen", str(u)) + BAD_DEFAULT


if __name__ == "__main__":
    print(generate())
