#!/bin/bash
# refresh gen/pinned from the current /repo source (run after a fix: commit, once every check passes on it)
here="$(cd "$(dirname "$0")" && pwd)"
rm -rf "$here/pinned" && mkdir "$here/pinned" && rsync -a --include='*/' --include='*.py' --exclude='*' "${PYGOM_REPO:-/repo}/src/pygom/" "$here/pinned/" && find "$here/pinned" -name "*.py" | wc -l
