"""C07 translator: how BaseLoss turns integrated sensitivities into a gradient -> coq/Gen/GradGen.v

Reads (Python ast, fail-closed) from the current $PYGOM_REPO source
  loss/base_loss.py : _getTargetParamSensIndex, _getTargetStateSensIndex (loop nest order, the integer index
                      expression, whether the result is re-sorted), _getTargetParamIndex, _getTargetStateIndex (does it
                      collect ints or the one-element lists get_state_index returns), sens_to_grad (reshape shape
                      and order, where the weights multiply, the contraction), _sensToGrad(IV)WithoutIndex,
                      sensitivity, gradient, jac, sensitivityIV, jacIV (wiring: which index list, which columns feed
                      diff_loss, order of the two gradient halves, initial conditions of the sensitivity blocks)
  loss/loss_type.py : Baseloss_Type.residual (weighting, single-column ravel), diff_loss of the five classes and
                      loss of Square / Normal as per-observation real functions; whether the three count losses'
                      cost mentions the weights; whether every kernel that uses yhat directly ravels a single column
  model/base_ode_model.py : get_state_index always returns a list
and emits code_facts : Grad.gfacts, psi_expr, ssi_expr, structure_ok, the kernels over R.
Anything not recognised => translator_ok := false with the reason (never a guess).
"""
import ast, re
from pyast import *

BL = "loss/base_loss.py"
LT = "loss/loss_type.py"
BM = "model/base_ode_model.py"


def norm(node_or_str):
    s = node_or_str if isinstance(node_or_str, str) else ast.unparse(node_or_str)
    return s.replace(" ", "").replace('"', "'")


def stmts(fn):
    body = list(fn.body)
    if body and isinstance(body[0], ast.Expr) and isinstance(getattr(body[0], "value", None), ast.Constant):
        body = body[1:]
    return body


def is_comment_expr(n):
    return isinstance(n, ast.Expr) and isinstance(n.value, ast.Constant) and isinstance(n.value.value, str)


def flat_norm(body):
    """normalised text of every simple statement in body, recursively, with compound heads as `if <test>:` etc."""
    out = []
    for n in body:
        if is_comment_expr(n):
            continue
        if isinstance(n, ast.If):
            out.append("if " + norm(n.test) + ":")
            out += ["  " + x for x in flat_norm(n.body)]
            if n.orelse:
                out.append("else:")
                out += ["  " + x for x in flat_norm(n.orelse)]
        elif isinstance(n, ast.For):
            out.append("for %s in %s:" % (norm(n.target), norm(n.iter)))
            out += ["  " + x for x in flat_norm(n.body)]
        elif isinstance(n, ast.Assert):
            continue            # no effect on valid input
        elif isinstance(n, ast.Return) and isinstance(n.value, ast.Tuple):
            out.append("return " + ",".join(norm(e) for e in n.value.elts))
        else:
            out.append(norm(n).replace("(n,p)=", "n,p="))
    return out


def nospace(lines):
    return [x.replace(" ", "") for x in lines]


def expect_body(fn_name, got, accepted):
    """got: flat_norm list; accepted: list of alternatives (each a list of lines)"""
    for alt in accepted:
        if nospace(got) == nospace(alt):
            return
    raise Unsupported("%s: unrecognised body: %s" % (fn_name, " | ".join(got)))


# ------------------------------------------------------------------ integer index expressions
Z_NAMES = {"self._num_state": "nS", "n_s": "nS", "self._num_param": "nP", "n_p": "nP"}


def z_expr(node, names):
    if isinstance(node, ast.Constant) and isinstance(node.value, int) and not isinstance(node.value, bool):
        return "(%d)" % node.value
    if isinstance(node, ast.Name) and node.id in names:
        return names[node.id]
    if isinstance(node, (ast.Name, ast.Attribute)) and norm(node) in Z_NAMES:
        return Z_NAMES[norm(node)]
    if isinstance(node, ast.BinOp) and isinstance(node.op, (ast.Add, ast.Sub, ast.Mult)):
        op = {ast.Add: "+", ast.Sub: "-", ast.Mult: "*"}[type(node.op)]
        return "(%s %s %s)" % (z_expr(node.left, names), op, z_expr(node.right, names))
    if isinstance(node, ast.UnaryOp) and isinstance(node.op, ast.USub):
        return "(- %s)" % z_expr(node.operand, names)
    raise Unsupported("index expression " + ast.unparse(node))


def sens_index(method, list_call, locals_ok):
    """-> (sorted, state_outer, coq expr) for _getTargetParamSensIndex / _getTargetStateSensIndex"""
    fn = find_method(BL, "BaseLoss", method)
    body = [n for n in stmts(fn) if not is_comment_expr(n)]
    pre, nestholder, ret = [], None, None
    for n in body:
        if isinstance(n, ast.Assign):
            pre.append(norm(n))
        elif isinstance(n, (ast.If, ast.For)) and nestholder is None:
            nestholder = n
        elif isinstance(n, ast.Return) and ret is None:
            ret = n
        else:
            raise Unsupported("%s: unexpected statement %s" % (method, norm(n)[:60]))
    need = {"state_index=self._ode.get_state_index(self._stateName)", "index_list=self.%s()" % list_call}
    init = {"index_out=list()", "index_out=[]"}
    if not need <= set(pre) or not (init & set(pre)) or set(pre) - need - init - set(locals_ok):
        raise Unsupported("%s: preamble %s" % (method, ";".join(pre)))
    if nestholder is None or ret is None:
        raise Unsupported("%s: no loop nest / return" % method)
    if isinstance(nestholder, ast.If):
        if norm(nestholder.test) != "isinstance(state_index,list)" or len(nestholder.body) != 1:
            raise Unsupported("%s: branch %s" % (method, norm(nestholder.test)))
        # get_state_index always returns a list (checked below), the else branch is unreachable
        outer = nestholder.body[0]
    else:
        outer = nestholder
    if not isinstance(outer, ast.For) or outer.orelse or len([m for m in outer.body if not is_comment_expr(m)]) != 1:
        raise Unsupported("%s: outer loop" % method)
    inner = [m for m in outer.body if not is_comment_expr(m)][0]
    if not isinstance(inner, ast.For) or inner.orelse:
        raise Unsupported("%s: inner loop" % method)
    its = (norm(outer.iter), norm(inner.iter))
    if its == ("state_index", "index_list"):
        state_outer, jv, iv = True, outer.target, inner.target
    elif its == ("index_list", "state_index"):
        state_outer, jv, iv = False, inner.target, outer.target
    else:
        raise Unsupported("%s: loops over %s, %s" % (method, its[0], its[1]))
    if not (isinstance(jv, ast.Name) and isinstance(iv, ast.Name)) or jv.id == iv.id:
        raise Unsupported("%s: loop variables" % method)
    ib = [m for m in inner.body if not is_comment_expr(m)]
    if len(ib) != 1 or not (isinstance(ib[0], ast.Expr) and isinstance(ib[0].value, ast.Call)
                            and norm(ib[0].value.func) == "index_out.append" and len(ib[0].value.args) == 1):
        raise Unsupported("%s: inner body" % method)
    expr = z_expr(ib[0].value.args[0], {jv.id: "j", iv.id: "i"})
    r = norm(ret.value)
    if r in ("np.sort(np.array(index_out)).tolist()", "sorted(index_out)", "np.sort(index_out).tolist()",
             "list(np.sort(index_out))", "list(np.sort(np.array(index_out)))"):
        srt = True
    elif r in ("index_out", "list(index_out)"):
        srt = False
    else:
        raise Unsupported("%s: return %s" % (method, r))
    return srt, state_outer, expr


# ------------------------------------------------------------------ real kernels
R_ATTR = {"self._y": "y", "self._w": "w", "self._sigma": "sigma", "self._shape": "a", "self._k": "k"}


class Kernel:
    """per-observation reading of a loss_type method: numpy broadcasting is elementwise, .sum() is dropped"""
    def __init__(self, cls, name, sigma2_ok):
        self.cls, self.name = cls, name
        self.fn = find_method(LT, cls, name)
        self.env = {"yhat": "yh"}
        self.ravels = False
        self.uses_yhat = False
        self.uses_w = False
        self.sigma2_ok = sigma2_ok
        a = self.fn.args
        names = [x.arg for x in a.args]
        if names != ["self", "yhat", "apply_weighting"] or len(a.defaults) != 1 or norm(a.defaults[0]) != "True":
            raise Unsupported("%s.%s signature" % (cls, name))
        self.summed = False
        self.value = self.run(stmts(self.fn))

    def expr(self, n):
        if isinstance(n, ast.Constant) and isinstance(n.value, int) and not isinstance(n.value, bool):
            return "(IZR (%d))" % n.value
        if isinstance(n, ast.Name):
            if n.id == "yhat":
                self.uses_yhat = True
            if n.id in self.env:
                return self.env[n.id]
            raise Unsupported("%s.%s: name %s" % (self.cls, self.name, n.id))
        if isinstance(n, ast.Attribute):
            s = norm(n)
            if s == "np.pi":
                return "PI"
            if s == "self._sigma2" and self.sigma2_ok:
                return "(sigma ^ 2)"
            if s in R_ATTR:
                if s == "self._w":
                    self.uses_w = True
                return R_ATTR[s]
            raise Unsupported("%s.%s: attribute %s" % (self.cls, self.name, s))
        if isinstance(n, ast.UnaryOp) and isinstance(n.op, ast.USub):
            return "(- %s)" % self.expr(n.operand)
        if isinstance(n, ast.BinOp):
            if isinstance(n.op, ast.Pow):
                if isinstance(n.right, ast.Constant) and isinstance(n.right.value, int) and n.right.value >= 0:
                    return "(%s ^ %d)" % (self.expr(n.left), n.right.value)
                raise Unsupported("%s.%s: power %s" % (self.cls, self.name, ast.unparse(n)))
            ops = {ast.Add: "+", ast.Sub: "-", ast.Mult: "*", ast.Div: "/"}
            if type(n.op) in ops:
                return "(%s %s %s)" % (self.expr(n.left), ops[type(n.op)], self.expr(n.right))
        if isinstance(n, ast.Call):
            f = norm(n.func)
            if f == "np.log" and len(n.args) == 1 and not n.keywords:
                return "(ln %s)" % self.expr(n.args[0])
            if f == "self.residual" and [norm(x) for x in n.args] == ["yhat", "apply_weighting"] and not n.keywords:
                self.uses_w = True
                return "(resid w y yh)"
        raise Unsupported("%s.%s: expression %s" % (self.cls, self.name, ast.unparse(n)[:80]))

    def run(self, body):
        for n in body:
            if is_comment_expr(n):
                continue
            if isinstance(n, ast.If):
                if nospace(flat_norm([n])) == nospace(["if len(yhat.shape)>1:", "  if 1 in yhat.shape:", "    yhat=yhat.ravel()"]):
                    self.ravels = True
                    continue
                raise Unsupported("%s.%s: branch %s" % (self.cls, self.name, norm(n.test)))
            if isinstance(n, ast.Assign) and len(n.targets) == 1 and isinstance(n.targets[0], ast.Name):
                self.env[n.targets[0].id] = self.expr(n.value)
                continue
            if isinstance(n, ast.Return):
                v = n.value
                if (isinstance(v, ast.Call) and isinstance(v.func, ast.Attribute) and v.func.attr == "sum"
                        and not v.args and not v.keywords):
                    self.summed = True
                    v = v.func.value
                return self.expr(v)
            raise Unsupported("%s.%s: statement %s" % (self.cls, self.name, norm(n)[:60]))
        raise Unsupported("%s.%s: no return" % (self.cls, self.name))


def check_residual():
    fn = find_method(LT, "Baseloss_Type", "residual")
    a = fn.args
    if [x.arg for x in a.args] != ["self", "yhat", "apply_weighting"] or norm(a.defaults[0]) != "True":
        raise Unsupported("Baseloss_Type.residual signature")
    got = flat_norm(stmts(fn))
    alts = []
    for wline in ("resid=resid*self._w", "resid*=self._w", "resid=self._w*resid"):
        alts.append(["if not isinstance(apply_weighting,bool):", "  raiseTypeError('apply_weightingshouldbeboolean')",
                     "if len(yhat.shape)>1:", "  if 1 in yhat.shape:", "    resid=self._y-yhat.ravel()", "  else:",
                     "    resid=self._y-yhat", "else:", "  resid=self._y-yhat", "if apply_weighting:", "  " + wline,
                     "return resid"])
    expect_body("Baseloss_Type.residual", got, alts)


def count_loss_mentions_weights(cls):
    fn = find_method(LT, cls, "loss")
    for n in walk_no_nested(fn):
        if isinstance(n, ast.Attribute) and norm(n) in ("self._w", "self.residual"):
            return True
        if isinstance(n, ast.Name) and n.id == "apply_weighting" and isinstance(n.ctx, ast.Load):
            return True
    return False


# ------------------------------------------------------------------ the translator
def extract():
    F = {}
    F["psi_sorted"], F["psi_state_outer"], psi = sens_index("_getTargetParamSensIndex", "_getTargetParamIndex", ())
    F["ssi_sorted"], F["ssi_state_outer"], ssi = sens_index(
        "_getTargetStateSensIndex", "_getTargetStateIndex", ("n_s=self._num_state", "n_p=self._num_param"))

    # ---- _getTargetParamIndex
    got = flat_norm(stmts(find_method(BL, "BaseLoss", "_getTargetParamIndex")))
    rng_alts = ("index_list=range(0,self._num_param)", "index_list=range(self._num_param)",
                "index_list=list(range(self._num_param))", "index_list=list(range(0,self._num_param))")
    alts = []
    for r in rng_alts:
        alts.append(["if self._targetParam is None:", "  " + r, "else:", "  index_list=list()",
                     "  for i in self._targetParam:", "    index_list.append(self._ode.get_param_index(i))", "return index_list"])
        alts.append(["if self._targetParam is None:", "  " + r, "else:",
                     "  index_list=[self._ode.get_param_index(i) for i in self._targetParam]", "return index_list"])
    got_c = [g.replace(" ", "") for g in got]
    if got_c not in [[x.replace(" ", "") for x in a] for a in alts]:
        raise Unsupported("_getTargetParamIndex: unrecognised body: " + " | ".join(got))

    # ---- _getTargetStateIndex
    got = [g.replace(" ", "") for g in flat_norm(stmts(find_method(BL, "BaseLoss", "_getTargetStateIndex")))]
    head = ["ifself._targetStateisNone:", None, "else:", None, "returnindex_list"]
    if len(got) != 5 or got[0] != head[0] or got[2] != head[2] or got[4] != head[4] or got[1] not in (
            "index_list=range(self._num_state)", "index_list=range(0,self._num_state)", "index_list=list(range(self._num_state))"):
        raise Unsupported("_getTargetStateIndex: unrecognised body: " + " | ".join(got))
    tsi = got[3]
    if tsi == "index_list=[self._ode.get_state_index(i)foriinself._targetState]":
        F["tsi_wrapped"] = True
    elif tsi in ("index_list=[self._ode.get_state_index(i)[0]foriinself._targetState]",
                 "index_list=self._ode.get_state_index(self._targetState)",
                 "index_list=list(self._ode.get_state_index(self._targetState))"):
        F["tsi_wrapped"] = False
    else:
        raise Unsupported("_getTargetStateIndex: " + tsi)
    # get_state_index returns a list for a name and for a list of names
    src = [norm(n) for n in ast.walk(find_method(BM, "BaseOdeModel", "_extractStateIndex")) if isinstance(n, (ast.Assign, ast.Return))]
    if "input_str=[input_str]" not in src or "return[self._extractStateIndexSingle(i)foriininput_str]" not in src:
        raise Unsupported("_extractStateIndex no longer returns one index per name as a list")
    rets = {norm(n) for n in ast.walk(find_method(BM, "BaseOdeModel", "get_state_index")) if isinstance(n, ast.Return)}
    if not rets <= {"returnself._extractStateIndex(str(input_str))", "returnself._extractStateIndex(input_str.ID)",
                    "returnself._extractStateIndex(input_str)"}:
        raise Unsupported("get_state_index: " + ";".join(sorted(rets)))
    init = {norm(n) for n in ast.walk(find_method(BL, "BaseLoss", "__init__")) if isinstance(n, ast.Assign)}
    if "self._stateIndex=self._ode.get_state_index(self._stateName)" not in init or "self._stateName=state_name" not in init:
        raise Unsupported("BaseLoss.__init__: _stateIndex / _stateName wiring")

    # ---- sens_to_grad
    fn = find_method(BL, "BaseLoss", "sens_to_grad")
    got = flat_norm(stmts(fn))
    order = None
    for g in got:
        m = re.match(r"sens=np\.reshape\(sens,\(n,num_s,num_out\),(?:order=)?'([CF])'\)$", g)
        if m:
            order = "Ord" + m.group(1)
        if g == "sens=np.reshape(sens,(n,num_s,num_out))":
            order = "OrdC"
    if order is None:
        raise Unsupported("sens_to_grad: reshape not recognised: " + " | ".join(got))
    F["g_order"] = order
    rs = [g for g in got if g.startswith("sens=np.reshape")][0]
    for nout in ("num_out=int(p/num_s)", "num_out=p//num_s"):
        alt = ["num_s=len(self._stateName)", "n,p=sens.shape", nout, rs, "for j in range(num_out):",
               "  sens[:,:,j]*=self._weight", "grad=functools.reduce(np.add,map(np.dot,diff_loss,sens)).ravel()", "returngrad"]
        if [g.replace(" ", "") for g in got] == [a.replace(" ", "") for a in alt]:
            break
    else:
        raise Unsupported("sens_to_grad: unrecognised body: " + " | ".join(got))

    def body_is(method, alts_):
        got_ = [g.replace(" ", "") for g in flat_norm(stmts(find_method(BL, "BaseLoss", method)))]
        if got_ not in [[x.replace(" ", "") for x in a] for a in alts_]:
            raise Unsupported("%s: unrecognised body: %s" % (method, " | ".join(got_)))

    body_is("_sensToGradWithoutIndex", [["index_out=self._getTargetParamSensIndex()", "return self.sens_to_grad(sens[:,index_out],diffLoss)"]])
    body_is("_sensToGradIVWithoutIndex", [["index_out=self._getTargetStateSensIndex()", "return self.sens_to_grad(sens[:,index_out],diffLoss)"]])
    body_is("gradient", [["return self.sensitivity(theta,full_output)"], ["return self.sensitivity(theta=theta,full_output=full_output)"]])
    body_is("sensitivity", [[
        "if full_output:",
        "  _jac,output=self.jac(theta=theta,full_output=True,method=method)",
        "  sens=output['sens']", "  diff_loss=output['diff_loss']",
        "  grad=self._sensToGradWithoutIndex(sens,diff_loss)", "  output['JTJ']=self._sensToJTJWithoutIndex(sens)",
        "  return grad,output", "else:",
        "  _jac,sens=self.jac(theta=theta,sens_output=True,full_output=False,method=method)",
        "  i=self._stateIndex", "  diff_loss=self._lossObj.diff_loss(sens[:,i])",
        "  grad=self._sensToGradWithoutIndex(sens,diff_loss)", "  return grad"]])
    body_is("sensitivityIV", [[
        "if full_output:",
        "  _jac_iv,output_iv=self.jacIV(theta=theta,full_output=True,method=method)",
        "  diff_loss=output_iv['diff_loss']", "  sens=output_iv['sens']",
        "  grad=self._sensToGradWithoutIndex(sens,diff_loss)", "  grad_iv=self._sensToGradIVWithoutIndex(sens,diff_loss)",
        "  grad=np.append(grad,grad_iv)", "  return grad,output_iv", "else:",
        "  _sol_iv,sens=self.jacIV(theta=theta,sens_output=True,full_output=False,method=method)",
        "  i=self._stateIndex", "  diff_loss=self._lossObj.diff_loss(sens[:,i])",
        "  grad=self._sensToGradWithoutIndex(sens,diff_loss)", "  grad_iv=self._sensToGradIVWithoutIndex(sens,diff_loss)",
        "  grad=np.append(grad,grad_iv)", "  return grad"]])
    intcall = ("f(self._ode.ode_and_sensitivity%s_T,self._ode.ode_and_sensitivity%s_jacobian_T,%s,self._t[0],self._t[1:],"
               "%smethod=method)")
    body_is("jac", [[
        "if theta is not None:", "  self._setParam(theta)", "self._ode.parameters=self._theta",
        "if method is None:", "  method=self._ode._intName",
        "num_sens=self._num_state*self._num_param", "init_state_sens=np.append(self._x0,np.zeros(num_sens))",
        "f=ode_utils.integrateFuncJac", "index_out=self._getTargetParamSensIndex()",
        "if full_output:",
        "  s_sens=" + intcall % ("", "", "init_state_sens", "full_output=full_output,"),
        "  sol_sens=s_sens[0]", "  sol_out=s_sens[1]", "  output=dict()", "  i=self._stateIndex",
        "  output['resid']=self._lossObj.residual(sol_sens[:,i])", "  output['diff_loss']=self._lossObj.diff_loss(sol_sens[:,i])",
        "  output['sens']=sol_sens", "  for i in sol_out:", "    output[i]=sol_out[i]",
        "  return sol_sens[:,index_out],output", "else:",
        "  sol_sens=" + intcall % ("", "", "init_state_sens", ""),
        "  if sens_output:", "    return sol_sens[:,index_out],sol_sens", "  else:", "    return sol_sens[:,index_out]"]])
    body_is("jacIV", [[
        "if theta is not None:", "  self._setParamStateInput(theta)", "self._ode.parameters=self._theta",
        "if method is None:", "  method=self._ode._intName",
        "num_sens=self._num_state*self._num_param",
        "initial_state_sens=np.append(np.append(self._x0,np.zeros(num_sens)),np.eye(self._num_state).flatten())",
        "f=ode_utils.integrateFuncJac", "index1=self._getTargetParamSensIndex()", "index2=self._getTargetStateSensIndex()",
        "index_out=index1+index2",
        "if full_output:",
        "  s_iv=" + intcall % ("IV", "IV", "initial_state_sens", "full_output=full_output,"),
        "  sol_iv=s_iv[0]", "  output_iv=s_iv[1]", "  output=dict()", "  i=self._stateIndex",
        "  output['resid']=self._lossObj.residual(sol_iv[:,i])", "  output['diff_loss']=self._lossObj.diff_loss(sol_iv[:,i])",
        "  output['sens']=sol_iv", "  for i in output_iv:", "    output[i]=output_iv[i]",
        "  return sol_iv[:,index_out],output", "else:",
        "  sol_iv=" + intcall % ("IV", "IV", "initial_state_sens", ""),
        "  if sens_output:", "    return sol_iv[:,index_out],sol_iv", "  else:", "    return sol_iv[:,index_out]"]])

    # ---- loss kernels
    check_residual()
    ninit = {norm(n) for n in ast.walk(find_method(LT, "Normal", "__init__")) if isinstance(n, ast.Assign)}
    sigma2_ok = "self._sigma2=self._sigma**2" in ninit
    K = {}
    for cls in ("Square", "Normal", "Gamma", "Poisson", "NegBinom"):
        K[cls] = Kernel(cls, "diff_loss", sigma2_ok)
        if K[cls].summed:
            raise Unsupported("%s.diff_loss is summed" % cls)
    LS, LN = Kernel("Square", "loss", sigma2_ok), Kernel("Normal", "loss", sigma2_ok)
    if not (LS.summed and LN.summed):
        raise Unsupported("Square/Normal.loss: expected a .sum() over the observations")
    ravel_ok = all(K[c].ravels or not K[c].uses_yhat for c in K)
    count_w = any(count_loss_mentions_weights(c) for c in ("Poisson", "Gamma", "NegBinom"))
    dl_weighted = all(K[c].uses_w for c in K)
    return F, psi, ssi, K, LS, LN, ravel_ok, count_w, dl_weighted


HEAD = ("From Coq Require Import ZArith Bool Reals.\nFrom PV Require Import Shapes Grad.\n")
FIELDS = ["psi_sorted", "psi_state_outer", "ssi_sorted", "ssi_state_outer", "tsi_wrapped", "g_order"]
KARGS = {"Square": "(w y yh : R)", "Normal": "(w sigma y yh : R)", "Gamma": "(w a y yh : R)", "Poisson": "(w y yh : R)",
         "NegBinom": "(w k y yh : R)"}
RESID = "Definition resid (w y yh : R) : R := ((y - yh) * w)%R.\n"


def generate():
    try:
        F, psi, ssi, K, LS, LN, ravel_ok, count_w, dl_weighted = extract()
        vals = "; ".join("%s := %s" % (k, F[k] if isinstance(F[k], str) else coq_bool(F[k])) for k in FIELDS)
        out = ("(* GENERATED from loss/base_loss.py, loss/loss_type.py, model/base_ode_model.py: sensitivities -> gradient *)\n" + HEAD +
               "Definition translator_ok := true.\n"
               "Definition code_facts : gfacts :=\n  {| %s |}.\n"
               "Definition psi_expr (nS nP j i : Z) : Z := %s%%Z.\n"
               "Definition ssi_expr (nS nP j i : Z) : Z := %s%%Z.\n"
               "Definition structure_ok := true.\n"
               "Definition single_column_ravelled := %s.\n"
               "Definition count_losses_cost_uses_weights := %s.\n"
               "Definition diff_loss_uses_weighted_residual := %s.\n"
               % (vals, psi, ssi, coq_bool(ravel_ok), coq_bool(count_w), coq_bool(dl_weighted)))
        out += RESID
        for c in ("Square", "Normal", "Gamma", "Poisson", "NegBinom"):
            out += "Definition dl_%s %s : R := %s%%R.\n" % (c.lower(), KARGS[c], K[c].value)
        out += "Definition loss_square %s : R := %s%%R.\n" % (KARGS["Square"], LS.value)
        out += "Definition loss_normal %s : R := %s%%R.\n" % (KARGS["Normal"], LN.value)
        return out
    except (Unsupported, ValueError, TypeError, IndexError, KeyError, AttributeError, AssertionError, RecursionError) as u:   # any surprise in the source = fail closed
        # the intended model, so that the correspondence still says where the code departs from it
        return (failed("GradGen", str(u)) + HEAD +
                "Definition code_facts : gfacts := good_facts.\n"
                "Definition psi_expr := psi_spec.\nDefinition ssi_expr := ssi_spec.\n"
                "Definition structure_ok := false.\n"
                "Definition single_column_ravelled := false.\n"
                "Definition count_losses_cost_uses_weights := true.\n"
                "Definition diff_loss_uses_weighted_residual := false.\n" + RESID +
                "Definition dl_square (w y yh : R) : R := (-2 * resid w y yh)%R.\n"
                "Definition dl_normal (w sigma y yh : R) : R := (- resid w y yh / sigma ^ 2)%R.\n"
                "Definition dl_gamma (w a y yh : R) : R := (a * - resid w y yh / yh ^ 2)%R.\n"
                "Definition dl_poisson (w y yh : R) : R := (- resid w y yh / yh)%R.\n"
                "Definition dl_negbinom (w k y yh : R) : R := (k * - resid w y yh / (yh * (k + yh)))%R.\n"
                "Definition loss_square (w y yh : R) : R := (resid w y yh ^ 2)%R.\n"
                "Definition loss_normal (w sigma y yh : R) : R := (resid w y yh ^ 2 / (2 * sigma ^ 2))%R.\n")


if __name__ == "__main__":
    print(generate())
