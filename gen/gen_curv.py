"""C20 translator: facts about the curvature code -> coq/Gen/CurvGen.v

Reads (Python ast, fail-closed) from the current $PYGOM_REPO source
  loss/base_loss.py          : sens_to_jtj (reshape order, weight loop, dot operand form, accumulation loop),
                               _sensToJTJWithoutIndex, _getTargetParamSensIndex (loop nesting, np.sort), _getTargetParamIndex,
                               jtj and the full_output branch of jac (which integration feeds it),
                               hessian (integration call, base index, diff_loss, the E / kron / H loop with the SIGN and WEIGHT
                               of the residual-curvature term, parameter selection, factor of JTJ)
  loss/loss_type.py          : Baseloss_Type.residual, Square.diff_loss (constants of the square-loss kernel)
  model/ode_utils/__init__.py: vecToMatFF, matToVecFF, shapeAdjust.kronParam / kronState / vecToMatFF / matToVecFF
  model/deterministic.py     : forwardforward, eval_forwardforward (which evaluators feed which term, kron operands, dot chain),
                               ode_and_forwardforward (slices, append order), ode_and_forwardforward_jacobian (recorded only)
and emits
  code_jfacts : Curv.jfacts, code_hfacts : Curv.hfacts, code_fffacts : FF.fffacts
  ff_terms : which evaluators eval_forwardforward reads (the model covers exactly jacobian + diff_jacobian)
  hess_path, jtj_path : the integration routes (strings, for the evidence)
Anything not recognised => translator_ok := false with the reason (never a guess).
"""
import ast
from pyast import *
from gen_sens import (norm, stmts, assigns, one, expect, reshape_parts, order_of, is_call, the_return, find_if, same_shape,
                      strip_transpose, dot_parts)

BL = "loss/base_loss.py"
LT = "loss/loss_type.py"
DET = "model/deterministic.py"
OU = "model/ode_utils/__init__.py"


def body_norm(fn):
    return [norm(n) for n in stmts(fn)]


def need(cond, what):
    if not cond:
        raise Unsupported(what)


def flat_stmts(body):
    """all simple statements (Assign/AugAssign/Expr/Return) in a body, in source order, not descending into nested defs"""
    out = []
    for n in body:
        if isinstance(n, (ast.Assign, ast.AugAssign, ast.Expr, ast.Return)):
            out.append(n)
        elif isinstance(n, (ast.If, ast.For, ast.While, ast.With, ast.Try)):
            for fld in ("body", "orelse", "finalbody"):
                out += flat_stmts(getattr(n, fld, []) or [])
    return out


# ------------------------------------------------------------------ base_loss.py
def x_sens_to_jtj(F):
    fn = find_method(BL, "BaseLoss", "sens_to_jtj")
    need([a.arg for a in fn.args.args] == ["self", "sens", "resid"], "sens_to_jtj: signature")
    b = stmts(fn)
    a = assigns(b)
    expect(one(a, "num_s", "sens_to_jtj"), ("len(self._stateName)",), "sens_to_jtj num_s")
    expect(one(a, "num_out", "sens_to_jtj"), ("int(p/num_s)", "p//num_s"), "sens_to_jtj num_out")
    expect(one(a, "J", "sens_to_jtj"), ("np.zeros((num_out,num_out))",), "sens_to_jtj J")
    tup = [norm(n) for n in b if isinstance(n, ast.Assign) and isinstance(n.targets[0], ast.Tuple)]
    need(tup in (["(n,p)=sens.shape"], ["n,p=sens.shape"]), "sens_to_jtj: n, p = sens.shape")
    x, shp, F["jtj_reshape_order"] = reshape_parts(one(a, "sens", "sens_to_jtj"), "sens_to_jtj reshape")
    expect(x, ("sens",), "sens_to_jtj reshapes")
    expect(shp, ("(n,num_s,num_out)",), "sens_to_jtj reshape shape")
    fors = [n for n in b if isinstance(n, ast.For)]
    need(len(fors) in (1, 2), "sens_to_jtj: loops")
    wl = [n for n in fors if norm(n.iter) == "range(num_out)"]
    al = [n for n in fors if norm(n.iter) == "enumerate(sens)"]
    need(len(al) == 1 and len(wl) + len(al) == len(fors), "sens_to_jtj: loop heads")
    F["jtj_weighted"] = False
    if wl:
        need(len(wl[0].body) == 1 and norm(wl[0].body[0]) == "sens[:,:,%s]*=self._weight" % norm(wl[0].target),
             "sens_to_jtj: weight loop body")
        need(b.index(wl[0]) < b.index(al[0]), "sens_to_jtj: weight loop after accumulation")
        F["jtj_weighted"] = True
    lp = al[0]
    need(norm(lp.target) in ("(i,s)", "i,s") and len(lp.body) == 1 and isinstance(lp.body[0], ast.If)
         and norm(lp.body[0].test) == "residisNone" and len(lp.body[0].body) == 1, "sens_to_jtj: accumulation loop")
    acc = lp.body[0].body[0]
    need(isinstance(acc, ast.AugAssign) and isinstance(acc.op, ast.Add) and norm(acc.target) == "J", "sens_to_jtj: J += ...")
    l, r = dot_parts(acc.value, "sens_to_jtj dot")
    (l0, lt), (r0, rt) = strip_transpose(l), strip_transpose(r)
    need(norm(l0) == "s" and norm(r0) == "s" and lt != rt, "sens_to_jtj: dot operands %s" % norm(acc.value))
    F["jtj_dot_tfirst"] = lt
    expect(the_return(b, "sens_to_jtj"), ("J",), "sens_to_jtj return")


def x_selection(F):
    b = stmts(find_method(BL, "BaseLoss", "_sensToJTJWithoutIndex"))
    a = assigns(b)
    expect(one(a, "index_out", "_sensToJTJWithoutIndex"), ("self._getTargetParamSensIndex()",), "_sensToJTJWithoutIndex index")
    expect(the_return(b, "_sensToJTJWithoutIndex"), ("self.sens_to_jtj(sens[:,index_out],diffLoss)",
                                                     "self.sens_to_jtj(sens[:,index_out])"), "_sensToJTJWithoutIndex return")
    # _getTargetParamIndex: all parameters in declaration order, or the targets in the order supplied
    b = stmts(find_method(BL, "BaseLoss", "_getTargetParamIndex"))
    src = [norm(n) for n in flat_stmts(b)]
    need("index_list=range(0,self._num_param)" in src or "index_list=range(self._num_param)" in src, "_getTargetParamIndex: all")
    need("index_list.append(self._ode.get_param_index(i))" in src and "returnindex_list" in src, "_getTargetParamIndex: targets")
    fl = [n for n in ast.walk(ast.Module(body=b, type_ignores=[])) if isinstance(n, ast.For)]
    need(len(fl) == 1 and norm(fl[0].iter) == "self._targetParam" and norm(fl[0].target) == "i", "_getTargetParamIndex: loop")
    # _getTargetParamSensIndex
    fn = find_method(BL, "BaseLoss", "_getTargetParamSensIndex")
    b = stmts(fn)
    a = assigns(b)
    expect(one(a, "state_index", "_getTargetParamSensIndex"), ("self._ode.get_state_index(self._stateName)",), "sens index: states")
    expect(one(a, "index_list", "_getTargetParamSensIndex"), ("self._getTargetParamIndex()",), "sens index: parameters")
    fors = [n for n in b if isinstance(n, ast.For)]
    guarded = [n for n in b if isinstance(n, ast.If) and norm(n.test) == "isinstance(state_index,list)"]
    if guarded and not fors:
        need(len(guarded) == 1, "sens index: guards")
        fors = [n for n in guarded[0].body if isinstance(n, ast.For)]
        need(len(guarded[0].body) == 1, "sens index: list branch")
        # the scalar branch (state_index not a list) is dead: get_state_index of a list returns a list
    need(len(fors) == 1 and len(fors[0].body) == 1 and isinstance(fors[0].body[0], ast.For), "sens index: loop nest")
    outer, inner = fors[0], fors[0].body[0]
    heads = (norm(outer.target) + ":" + norm(outer.iter), norm(inner.target) + ":" + norm(inner.iter))
    if heads == ("j:state_index", "i:index_list"):
        F["sel_param_outer"] = False
    elif heads == ("i:index_list", "j:state_index"):
        F["sel_param_outer"] = True
    else:
        raise Unsupported("sens index: loop heads %s" % (heads,))
    need(len(inner.body) == 1 and norm(inner.body[0]) in ("index_out.append(j+(i+1)*self._num_state)",
                                                          "index_out.append(j+(i+1)*nS)"), "sens index: stored expression")
    r = norm(the_return(b, "_getTargetParamSensIndex"))
    if r == "np.sort(np.array(index_out)).tolist()":
        F["sel_sorted"] = True
    elif r == "index_out":
        F["sel_sorted"] = False
    else:
        raise Unsupported("sens index: return " + r)


def x_jtj_path():
    b = stmts(find_method(BL, "BaseLoss", "jtj"))
    src = [norm(n) for n in flat_stmts(b)]
    need(src[:3] == ["(_jac,output)=self.jac(theta=theta,full_output=True,method=method)", "sens=output['sens']",
                     "JTJ=self._sensToJTJWithoutIndex(sens)"] or
         src[:3] == ["_jac,output=self.jac(theta=theta,full_output=True,method=method)", "sens=output['sens']",
                     "JTJ=self._sensToJTJWithoutIndex(sens)"], "jtj: body")
    need("returnJTJ" in src and "return(JTJ,output)" in src or "returnJTJ,output" in src, "jtj: returns")
    # jac, full_output branch
    b = stmts(find_method(BL, "BaseLoss", "jac"))
    src = [norm(n) for n in flat_stmts(b)]
    for s in ["num_sens=self._num_state*self._num_param", "init_state_sens=np.append(self._x0,np.zeros(num_sens))",
              "f=ode_utils.integrateFuncJac",
              "s_sens=f(self._ode.ode_and_sensitivity_T,self._ode.ode_and_sensitivity_jacobian_T,init_state_sens,self._t[0],"
              "self._t[1:],full_output=full_output,method=method)",
              "sol_sens=s_sens[0]", "output['sens']=sol_sens", "self._ode.parameters=self._theta"]:
        need(s in src, "jac: missing statement " + s)
    return ("jtj -> jac(full_output=True) -> ode_utils.integrateFuncJac(ode_and_sensitivity_T, ode_and_sensitivity_jacobian_T, "
            "x0 ++ zeros(nS*nP), t[0], t[1:], full_output=True) -> output['sens'] -> _sensToJTJWithoutIndex")


def x_hessian(F):
    fn = find_method(BL, "BaseLoss", "hessian")
    b = stmts(fn)
    src = [norm(n) for n in flat_stmts(b)]
    for s in ["self._ode.parameters=self._theta", "nS=self._num_state", "nP=self._num_param", "num_time=len(self._t)",
              "num_sens=nS*nP", "num_ff=nS*nP*nP", "initial_state_sens=np.append(self._x0,np.zeros(num_sens+num_ff))",
              "f=ode_utils.integrateFuncJac",
              "s_out_all=f(self._ode.ode_and_forwardforward_T,self._ode.ode_and_forwardforward_jacobian_T,initial_state_sens,"
              "self._t[0],self._t[1:],full_output=full_output,method=method)",
              "solution_all=s_out_all[0]", "solution_all=s_out_all", "base_index_hess=nS+nS*nP",
              "diff_loss=self._lossObj.diff_loss(solution_all[:,self._stateIndex])", "H=np.zeros((nP,nP))",
              "param_idx=self._getTargetParamIndex()", "JTJ=self._sensToJTJWithoutIndex(solution_all)"]:
        need(s in src, "hessian: missing statement " + s)
    need("HJTJ=H[param_idx][:,param_idx].copy()" in src or "HJTJ=H[param_idx][:,param_idx]" in src, "hessian: parameter selection")
    a = assigns(b)
    for nm in ("H", "HJTJ", "JTJ", "diff_loss", "base_index_hess", "param_idx"):
        need(len(a.get(nm, [])) == 1, "hessian: %s assigned more than once" % nm)
    loops = [n for n in b if isinstance(n, ast.For)]
    need(len(loops) == 1 and norm(loops[0].target) == "i" and norm(loops[0].iter) == "range(num_time-1)", "hessian: loop head")
    lb = loops[0].body
    need(len(lb) == 4, "hessian: loop body has %d statements" % len(lb))
    need(norm(lb[0]) == "FF=ode_utils.vecToMatFF(solution_all[i,base_index_hess::],nS,nP)"
         or norm(lb[0]) == "FF=ode_utils.vecToMatFF(solution_all[i,base_index_hess:],nS,nP)", "hessian: FF")
    need(norm(lb[1]) == "E=np.zeros(nS)", "hessian: E")
    st = lb[2]
    need(isinstance(st, ast.AugAssign) and isinstance(st.op, ast.Add) and norm(st.target) == "E[self._stateIndex]",
         "hessian: E[...] += ...")
    v, neg = st.value, False
    if isinstance(v, ast.UnaryOp) and isinstance(v.op, ast.USub):
        v, neg = v.operand, True
    if norm(v) == "diff_loss[i]":
        weighted = False
    elif norm(v) in ("diff_loss[i]*self._weight[i]", "self._weight[i]*diff_loss[i]"):
        weighted = True
    else:
        raise Unsupported("hessian: residual term " + norm(st.value))
    F["h_resid_negated"], F["h_resid_weighted"] = neg, weighted
    k = norm(lb[3])
    if k == "H+=scipy.sparse.kron(E,scipy.sparse.eye(nP)).dot(FF)":
        F["h_kron_E_first"] = True
    elif k == "H+=scipy.sparse.kron(scipy.sparse.eye(nP),E).dot(FF)":
        F["h_kron_E_first"] = False
    else:
        raise Unsupported("hessian: " + k)
    aug = [n for n in b if isinstance(n, ast.AugAssign) and norm(n.target) == "HJTJ"]
    need(len(aug) == 1 and isinstance(aug[0].op, ast.Add), "hessian: HJTJ += ...")
    v = aug[0].value
    need(isinstance(v, ast.BinOp) and isinstance(v.op, ast.Mult), "hessian: HJTJ += c*JTJ")
    c, j = (v.left, v.right) if norm(v.right) == "JTJ" else (v.right, v.left)
    need(norm(j) == "JTJ" and isinstance(c, ast.Constant) and isinstance(c.value, int) and 0 <= c.value <= 9, "hessian: factor of JTJ")
    F["h_jtj_factor"] = c.value
    need(b.index(loops[0]) < b.index(aug[0]), "hessian: order of statements")
    rets = [norm(n.value) for n in ast.walk(fn) if isinstance(n, ast.Return)]
    need(sorted(rets) == sorted(["(HJTJ,output)", "HJTJ"]), "hessian: returns " + ";".join(rets))
    return ("hessian -> ode_utils.integrateFuncJac(ode_and_forwardforward_T, ode_and_forwardforward_jacobian_T, "
            "x0 ++ zeros(nS*nP + nS*nP*nP), t[0], t[1:], full_output=full_output) (default: lsoda, rows copied since 017de9b)")


# ------------------------------------------------------------------ loss_type.py
def x_square(F):
    fn = find_method(LT, "Square", "diff_loss")
    r = the_return(stmts(fn), "Square.diff_loss")
    need(isinstance(r, ast.BinOp) and isinstance(r.op, ast.Mult), "Square.diff_loss: return")
    c, neg = r.left, False
    if isinstance(c, ast.UnaryOp) and isinstance(c.op, ast.USub):
        c, neg = c.operand, True
    need(isinstance(c, ast.Constant) and isinstance(c.value, int) and 0 <= c.value <= 9, "Square.diff_loss: constant")
    need(norm(r.right) in ("self.residual(yhat,apply_weighting)",), "Square.diff_loss: operand " + norm(r.right))
    F["dl_negated"], F["dl_factor"] = neg, c.value
    fn = find_method(LT, "Baseloss_Type", "residual")
    b = stmts(fn)
    vals = {norm(v) for v in assigns(b).get("resid", [])}
    orient = {"self._y-yhat.ravel()", "self._y-yhat"}
    rev = {"yhat.ravel()-self._y", "yhat-self._y"}
    w = {"resid*self._w", "self._w*resid"}
    if vals - w <= orient and vals - w:
        F["res_y_minus_yhat"] = True
    elif vals - w <= rev and vals - w:
        F["res_y_minus_yhat"] = False
    else:
        raise Unsupported("Baseloss_Type.residual: " + ";".join(sorted(vals)))
    ifs = find_if(b, "apply_weighting")
    need(len(ifs) == 1 and not ifs[0].orelse and [norm(n) for n in ifs[0].body] in (["resid=resid*self._w"], ["resid=self._w*resid"],
                                                                                     ["resid*=self._w"]),
         "Baseloss_Type.residual: weighting")
    F["res_weighted"] = True
    expect(the_return(b, "residual"), ("resid",), "Baseloss_Type.residual return")
    # the kernel object of a SquareLoss: Square(self._y, self._weight)
    for rel, cls in (("loss/ode_loss.py", "SquareLoss"), (BL, "BaseLoss")):
        src = [norm(n) for n in flat_stmts(stmts(find_method(rel, cls, "_setLossType")))]
        need("self._lossObj=Square(self._y,self._weight)" in src, "%s._setLossType" % cls)


# ------------------------------------------------------------------ ode_utils / deterministic.py
def x_ff(F):
    x, shp, F["ffv2m_order"] = reshape_parts(the_return(stmts(find_function(OU, "vecToMatFF")), "vecToMatFF"), "vecToMatFF")
    expect(x, ("ff",), "vecToMatFF reshapes")
    same_shape(shp, lambda s, p: (s * p, p), "vecToMatFF")
    F["h_ff_order"] = F["ffv2m_order"]
    r = the_return(stmts(find_function(OU, "matToVecFF")), "matToVecFF")
    need(isinstance(r, ast.Call) and isinstance(r.func, ast.Attribute) and r.func.attr in ("ravel", "flatten") and norm(r.func.value) == "FF",
         "matToVecFF: " + norm(r))
    F["ffm2v_order"] = order_of(r, 0)
    expect(the_return(stmts(find_method(OU, "shapeAdjust", "vecToMatFF")), "shapeAdjust.vecToMatFF"), ("vecToMatFF(ff,nS,nP)",),
           "shapeAdjust.vecToMatFF")
    expect(the_return(stmts(find_method(OU, "shapeAdjust", "matToVecFF")), "shapeAdjust.matToVecFF"), ("matToVecFF(FF,nS,nP)",),
           "shapeAdjust.matToVecFF")
    for name, dim, key_default, key_first in (("kronParam", "nP", "kp_pre_default", "kp_eye_first_if_pre"),
                                              ("kronState", "nS", None, "ks_eye_first_if_pre")):
        fn = find_method(OU, "shapeAdjust", name)
        need([a.arg for a in fn.args.args] == ["self", "A", "pre"] and len(fn.args.defaults) == 1
             and isinstance(fn.args.defaults[0], ast.Constant) and fn.args.defaults[0].value in (True, False), name + ": signature")
        if key_default:
            F[key_default] = bool(fn.args.defaults[0].value)
        ifs = find_if(stmts(fn), "pre")
        need(len(ifs) == 1 and len(ifs[0].body) == 1 and len(ifs[0].orelse) == 1, name + ": branches")
        t, e = norm(the_return(ifs[0].body, name)), norm(the_return(ifs[0].orelse, name))
        ef = "scipy.sparse.kron(scipy.sparse.eye(%s),A)" % dim
        al = "scipy.sparse.kron(A,scipy.sparse.eye(%s))" % dim
        if (t, e) == (ef, al):
            F[key_first] = True
        elif (t, e) == (al, ef):
            F[key_first] = False
        else:
            raise Unsupported("%s: %s / %s" % (name, t, e))
    # forwardforward
    b = stmts(find_method(DET, "DeterministicOde", "forwardforward"))
    a = assigns(b)
    expect(one(a, "S", "forwardforward"), ("self._SAUtil.vecToMatSens(s)",), "forwardforward S")
    expect(one(a, "FF", "forwardforward"), ("self._SAUtil.vecToMatFF(ff)",), "forwardforward FF")
    expect(the_return(b, "forwardforward"), ("self.eval_forwardforward(FF=FF,S=S,state=state,t=t)",
                                            "self.eval_forwardforward(FF,S,state,t)"), "forwardforward return")
    need([x.arg for x in find_method(DET, "DeterministicOde", "forwardforward").args.args] == ["self", "ff", "t", "state", "s"],
         "forwardforward: signature")
    # eval_forwardforward: exactly  J, diffJ;  outFF = kronParam(J).dot(FF);  outFF += kronState(A=S.T, pre=True).dot(diffJ).dot(S)
    fn = find_method(DET, "DeterministicOde", "eval_forwardforward")
    need([x.arg for x in fn.args.args] == ["self", "FF", "S", "state", "t"], "eval_forwardforward: signature")
    b = stmts(fn)
    need(all(isinstance(n, (ast.Assign, ast.AugAssign, ast.Return)) for n in b), "eval_forwardforward: unexpected statement kind")
    a = assigns(b)
    evaluators = sorted(norm(v) for vs in a.values() for v in vs if norm(v).startswith("self.") and "(state,t)" in norm(v))
    need(len(b) == 5, "eval_forwardforward: %d statements (the model covers J, diffJ, outFF =, outFF +=, return)" % len(b))
    expect(one(a, "J", "eval_forwardforward"), ("self.jacobian(state,t)",), "eval_forwardforward J")
    expect(one(a, "diffJ", "eval_forwardforward"), ("self.diff_jacobian(state,t)",), "eval_forwardforward diffJ")
    first = one(a, "outFF", "eval_forwardforward")
    l, r = dot_parts(first, "eval_forwardforward first term")
    need(norm(r) == "FF" and norm(l) == "self._SAUtil.kronParam(J)", "eval_forwardforward: first term " + norm(first))
    aug = [n for n in b if isinstance(n, ast.AugAssign)]
    need(len(aug) == 1 and isinstance(aug[0].op, ast.Add) and norm(aug[0].target) == "outFF", "eval_forwardforward: outFF += ...")
    l, r = dot_parts(aug[0].value, "eval_forwardforward second term")
    need(norm(r) == "S", "eval_forwardforward: second term right operand " + norm(r))
    l2, r2 = dot_parts(l, "eval_forwardforward second term")
    need(norm(r2) == "diffJ", "eval_forwardforward: second term middle operand " + norm(r2))
    need(is_call(l2, "self._SAUtil.kronState") and not l2.args and sorted(k.arg for k in l2.keywords) == ["A", "pre"],
         "eval_forwardforward: kronState call " + norm(l2))
    kw = {k.arg: k.value for k in l2.keywords}
    need(isinstance(kw["pre"], ast.Constant) and kw["pre"].value in (True, False), "eval_forwardforward: pre argument")
    F["ks_pre_arg"] = bool(kw["pre"].value)
    x, F["ks_transposed"] = strip_transpose(kw["A"])
    need(norm(x) == "S", "eval_forwardforward: kronState operand " + norm(kw["A"]))
    expect(the_return(b, "eval_forwardforward"), ("self._SAUtil.matToVecFF(outFF)",), "eval_forwardforward return")
    # ode_and_forwardforward
    b = stmts(find_method(DET, "DeterministicOde", "ode_and_forwardforward"))
    a = assigns(b)
    expect(one(a, "state", "ode_and_forwardforward"), ("state_param[0:nS]", "state_param[:nS]"), "ode_and_forwardforward state")
    expect(one(a, "sens", "ode_and_forwardforward"), ("state_param[nS:nS*(nP+1)]",), "ode_and_forwardforward sens")
    expect(one(a, "ff", "ode_and_forwardforward"), ("state_param[nS*(nP+1)::]", "state_param[nS*(nP+1):]"), "ode_and_forwardforward ff")
    expect(one(a, "out1", "ode_and_forwardforward"), ("self.ode(state,t)",), "ode_and_forwardforward out1")
    expect(one(a, "out2", "ode_and_forwardforward"), ("self.sensitivity(sens,t,state)",), "ode_and_forwardforward out2")
    expect(one(a, "out3", "ode_and_forwardforward"), ("self.forwardforward(ff,t,state,sens)",), "ode_and_forwardforward out3")
    expect(the_return(b, "ode_and_forwardforward"), ("np.append(np.append(out1,out2),out3)",), "ode_and_forwardforward return")
    expect(the_return(stmts(find_method(DET, "DeterministicOde", "ode_and_forwardforward_T")), "ode_and_forwardforward_T"),
           ("self.ode_and_forwardforward(state_param,t)",), "ode_and_forwardforward_T")
    # the supplied Jacobian: recorded only (block diagonal J, I(x)J, I(x)J; it is not the Jacobian of the system, lsoda only
    # uses it in its corrector iteration)
    b = stmts(find_method(DET, "DeterministicOde", "ode_and_forwardforward_jacobian"))
    jac = norm(the_return(b, "ode_and_forwardforward_jacobian"))
    return evaluators, jac


FIELDS_J = ["jtj_reshape_order", "jtj_weighted", "jtj_dot_tfirst", "sel_param_outer", "sel_sorted"]
FIELDS_H = ["h_ff_order", "h_resid_negated", "h_resid_weighted", "h_kron_E_first", "h_jtj_factor", "dl_negated", "dl_factor",
            "res_y_minus_yhat", "res_weighted"]
FIELDS_F = ["ffv2m_order", "ffm2v_order", "kp_pre_default", "kp_eye_first_if_pre", "ks_pre_arg", "ks_eye_first_if_pre", "ks_transposed"]
HEAD = "From Coq Require Import ZArith Bool String.\nFrom PV Require Import Shapes Curv FF.\nOpen Scope string_scope.\n"


def lit(v):
    if isinstance(v, bool):
        return coq_bool(v)
    if isinstance(v, int):
        return "%d%%nat" % v
    return v


def record(fields, F):
    return "{| " + "; ".join("%s := %s" % (k, lit(F[k])) for k in fields) + " |}"


def extract():
    F = {}
    x_sens_to_jtj(F)
    x_selection(F)
    jtj_path = x_jtj_path()
    hess_path = x_hessian(F)
    x_square(F)
    evaluators, ffjac = x_ff(F)
    return F, jtj_path, hess_path, evaluators, ffjac


def generate():
    try:
        F, jtj_path, hess_path, evaluators, ffjac = extract()
        return ("(* GENERATED from loss/base_loss.py, loss/loss_type.py, model/ode_utils/__init__.py, model/deterministic.py: "
                "curvature code *)\n" + HEAD +
                "Definition translator_ok := true.\n"
                "Definition code_jfacts : jfacts :=\n  %s.\n"
                "Definition code_hfacts : hfacts :=\n  %s.\n"
                "Definition code_fffacts : fffacts :=\n  %s.\n"
                "(* evaluators read by eval_forwardforward (the model covers exactly jacobian and diff_jacobian) *)\n"
                "Definition ff_evaluators := \"%s\".\n"
                "Definition ff_reads_mixed_derivatives := %s.\n"
                "Definition jtj_path := \"%s\".\nDefinition hess_path := \"%s\".\n"
                "Definition ff_supplied_jacobian := \"%s\".\n"
                % (record(FIELDS_J, F), record(FIELDS_H, F), record(FIELDS_F, F), ";".join(evaluators),
                   coq_bool(any("grad_jacobian" in e for e in evaluators)), jtj_path, hess_path, ffjac))
    except (Unsupported, ValueError, TypeError, IndexError, KeyError, AttributeError, AssertionError, RecursionError) as u:   # any surprise in the source = fail closed
        # the intended model, so that the correspondence still says where the code departs from it
        return (failed("CurvGen", str(u)) + HEAD +
                "Definition code_jfacts : jfacts := good_jfacts.\nDefinition code_hfacts : hfacts := good_hfacts.\n"
                "Definition code_fffacts : fffacts := good_fffacts.\n"
                "Definition ff_evaluators := \"\".\nDefinition ff_reads_mixed_derivatives := false.\n"
                "Definition jtj_path := \"\".\nDefinition hess_path := \"\".\nDefinition ff_supplied_jacobian := \"\".\n")


if __name__ == "__main__":
    print(generate())
