"""A small interpreter for the subset of Python in which pygom's model-definition routes are written
(Transition / Event constructors, add_* methods and the list setters of BaseOdeModel).  It runs the CURRENT source, read as
an AST, on symbolic inputs; anything outside the subset raises Unsupported (the translator then fails closed).

Values: None, bool, int, str, list, tuple, Obj (instance of an interpreted class), EnumVal, ClassRef, bound methods.
Exceptions of the interpreted program are PyRaise(class name)."""
import ast
from pyast import Unsupported


class PyRaise(Exception):
    def __init__(self, cls, msg=""):
        Exception.__init__(self, "%s: %s" % (cls, msg))
        self.cls = cls


class _Return(Exception):
    def __init__(self, v): self.v = v


class Obj:
    def __init__(self, cls):
        self.cls, self.attrs = cls, {}
    def __repr__(self): return "<%s %r>" % (self.cls, self.attrs)


class EnumVal:
    def __init__(self, cls, name): self.cls, self.name = cls, name
    def __repr__(self): return "%s.%s" % (self.cls, self.name)


class ClassRef:
    def __init__(self, name): self.name = name


class ExcRef(ClassRef):
    pass


class Interp:
    def __init__(self, modules, enums=(), exceptions=(), max_steps=2000000):
        """modules: list of ast.Module; classes are collected by name (later wins); enums: names of Enum classes"""
        self.classes, self.enums = {}, {}
        self.steps, self.max_steps = 0, max_steps
        for mod in modules:
            for n in mod.body:
                if isinstance(n, ast.ClassDef):
                    self.classes[n.name] = n
        for e in enums:
            c = self.classes.get(e)
            if c is None:
                raise Unsupported("enum class %s not found" % e)
            members = {}
            for st in c.body:
                if isinstance(st, ast.Assign) and len(st.targets) == 1 and isinstance(st.targets[0], ast.Name):
                    members[st.targets[0].id] = EnumVal(e, st.targets[0].id)
            self.enums[e] = members
        self.exceptions = set(exceptions)

    # ------------------------------------------------------------------ classes
    def bases(self, cname):
        c = self.classes.get(cname)
        out = []
        if c is not None:
            for b in c.bases:
                if isinstance(b, ast.Name) and b.id in self.classes:
                    out.append(b.id)
        return out

    def is_exception_class(self, cname):
        if cname in self.exceptions or cname in ("Exception", "ValueError", "TypeError", "Warning", "NotImplementedError",
                                                 "AttributeError", "AssertionError"):
            return True
        c = self.classes.get(cname)
        if c is None:
            return False
        for b in c.bases:
            if isinstance(b, ast.Name) and self.is_exception_class(b.id):
                return True
        return False

    def find_member(self, cname, name, want=None):
        """-> (FunctionDef, kind) with kind in {'method', 'property', 'setter'}; later definitions win; bases searched after"""
        seen = [cname]
        while seen:
            cn = seen.pop(0)
            c = self.classes.get(cn)
            if c is None:
                continue
            found = None
            for st in c.body:
                if isinstance(st, ast.FunctionDef) and st.name == name:
                    decs = [ast.unparse(d) for d in st.decorator_list]
                    kind = "property" if "property" in decs else ("setter" if any(d.endswith(".setter") for d in decs) else "method")
                    if want is None and kind != "setter" or want == kind:
                        found = (st, kind)
            if found:
                return found
            seen.extend(self.bases(cn))
        return None

    def isinstance_(self, v, cref):
        if isinstance(cref, tuple):
            return any(self.isinstance_(v, c) for c in cref)
        if not isinstance(cref, ClassRef):
            raise Unsupported("isinstance against %r" % (cref,))
        n = cref.name
        if n == "list": return isinstance(v, list)
        if n == "tuple": return isinstance(v, tuple)
        if n == "str": return isinstance(v, str)
        if n == "dict": return isinstance(v, dict)
        if n in self.enums: return isinstance(v, EnumVal) and v.cls == n
        if isinstance(v, Obj):
            todo = [v.cls]
            while todo:
                c = todo.pop()
                if c == n: return True
                todo.extend(self.bases(c))
            return False
        return False

    # ------------------------------------------------------------------ calls
    def construct(self, cname, args, kwargs):
        if self.is_exception_class(cname):
            o = Obj(cname); o.attrs["args"] = tuple(args); return o
        o = Obj(cname)
        init = self.find_member(cname, "__init__")
        if init:
            self.call_function(init[0], [o] + list(args), kwargs)
        elif args or kwargs:
            raise Unsupported("constructor arguments for %s without __init__" % cname)
        return o

    def call_function(self, f, args, kwargs):
        a = f.args
        if a.vararg or a.kwarg or a.posonlyargs or a.kwonlyargs:
            raise Unsupported("signature of %s" % f.name)
        names = [x.arg for x in a.args]
        env = {}
        if len(args) > len(names):
            raise PyRaise("TypeError", "too many positional arguments for %s" % f.name)
        for n, v in zip(names, args):
            env[n] = v
        for k, v in kwargs.items():
            if k not in names or k in env:
                raise PyRaise("TypeError", "unexpected / repeated argument %s for %s" % (k, f.name))
            env[k] = v
        defaults = a.defaults
        for n, d in zip(names[len(names) - len(defaults):], defaults):
            if n not in env:
                env[n] = self.eval(d, {})
        for n in names:
            if n not in env:
                raise PyRaise("TypeError", "missing argument %s for %s" % (n, f.name))
        try:
            self.block(f.body, env)
        except _Return as r:
            return r.v
        return None

    # ------------------------------------------------------------------ statements
    def block(self, stmts, env):
        for st in stmts:
            self.stmt(st, env)

    def tick(self):
        self.steps += 1
        if self.steps > self.max_steps:
            raise Unsupported("step budget exhausted")

    def stmt(self, st, env):
        self.tick()
        if isinstance(st, ast.Expr):
            if isinstance(st.value, ast.Constant):
                return
            self.eval(st.value, env); return
        if isinstance(st, ast.Pass):
            return
        if isinstance(st, ast.Return):
            raise _Return(self.eval(st.value, env) if st.value is not None else None)
        if isinstance(st, ast.Raise):
            if st.exc is None:
                raise Unsupported("bare raise")
            v = self.eval(st.exc, env)
            if isinstance(v, ClassRef):
                raise PyRaise(v.name)
            if isinstance(v, Obj) and self.is_exception_class(v.cls):
                raise PyRaise(v.cls, " ".join(str(x) for x in v.attrs.get("args", ())))
            raise Unsupported("raise of %r" % (v,))
        if isinstance(st, ast.Assign):
            v = self.eval(st.value, env)
            for t in st.targets:
                self.assign(t, v, env)
            return
        if isinstance(st, ast.AugAssign):
            if not isinstance(st.target, ast.Name):
                raise Unsupported("augmented assignment target")
            cur = self.eval(ast.Name(id=st.target.id, ctx=ast.Load()), env)
            env[st.target.id] = self.binop(st.op, cur, self.eval(st.value, env))
            return
        if isinstance(st, ast.If):
            self.block(st.body if self.truth(self.eval(st.test, env)) else st.orelse, env)
            return
        if isinstance(st, ast.For):
            if st.orelse:
                raise Unsupported("for-else")
            it = self.eval(st.iter, env)
            if not isinstance(it, (list, tuple)):
                raise Unsupported("iteration over %r" % (it,))
            for v in list(it):
                self.assign(st.target, v, env)
                self.block(st.body, env)
            return
        raise Unsupported("statement " + type(st).__name__)

    def assign(self, t, v, env):
        if isinstance(t, ast.Name):
            env[t.id] = v
        elif isinstance(t, ast.Attribute):
            o = self.eval(t.value, env)
            if not isinstance(o, Obj):
                raise Unsupported("attribute assignment on %r" % (o,))
            setter = self.find_member(o.cls, t.attr, want="setter")
            if setter:
                self.call_function(setter[0], [o, v], {})
            else:
                o.attrs[t.attr] = v
        elif isinstance(t, (ast.Tuple, ast.List)):
            if not isinstance(v, (list, tuple)) or len(v) != len(t.elts):
                raise PyRaise("ValueError", "unpack")
            for tt, vv in zip(t.elts, v):
                self.assign(tt, vv, env)
        else:
            raise Unsupported("assignment target " + type(t).__name__)

    # ------------------------------------------------------------------ expressions
    def truth(self, v):
        if v is None or v is False: return False
        if v is True: return True
        if isinstance(v, (int, str, list, tuple, dict)): return bool(v)
        if isinstance(v, (Obj, EnumVal, ClassRef)): return True
        raise Unsupported("truth value of %r" % (v,))

    def binop(self, op, a, b):
        if isinstance(op, ast.Add):
            if isinstance(a, int) and isinstance(b, int) and not isinstance(a, bool): return a + b
            if isinstance(a, str) and isinstance(b, str): return a + b
            if isinstance(a, list) and isinstance(b, list): return a + b
        if isinstance(op, ast.Mod) and isinstance(a, str):
            return a            # error-message formatting: the text is irrelevant
        raise Unsupported("binary operator %s on %r, %r" % (type(op).__name__, a, b))

    def eq(self, a, b):
        if isinstance(a, EnumVal) or isinstance(b, EnumVal):
            return isinstance(a, EnumVal) and isinstance(b, EnumVal) and a.cls == b.cls and a.name == b.name
        if isinstance(a, Obj) or isinstance(b, Obj):
            if isinstance(a, Obj) and self.find_member(a.cls, "__eq__"):
                return self.truth(self.call_function(self.find_member(a.cls, "__eq__")[0], [a, b], {}))
            return a is b
        return a == b

    def eval(self, e, env):
        self.tick()
        if isinstance(e, ast.Constant):
            return e.value
        if isinstance(e, ast.Name):
            if e.id in env: return env[e.id]
            if e.id in ("None", "True", "False"): return {"None": None, "True": True, "False": False}[e.id]
            if e.id in self.classes or e.id in ("list", "tuple", "str", "dict") or self.is_exception_class(e.id):
                return ClassRef(e.id)
            if e.id in ("isinstance", "len", "hasattr", "str", "type", "getattr"):
                return ("builtin", e.id)
            raise Unsupported("free name " + e.id)
        if isinstance(e, ast.Attribute):
            v = self.eval(e.value, env)
            return self.getattr_(v, e.attr)
        if isinstance(e, ast.List):
            return [self.eval(x, env) for x in e.elts]
        if isinstance(e, ast.Tuple):
            return tuple(self.eval(x, env) for x in e.elts)
        if isinstance(e, ast.BoolOp):
            if isinstance(e.op, ast.And):
                v = True
                for x in e.values:
                    v = self.eval(x, env)
                    if not self.truth(v): return v
                return v
            v = False
            for x in e.values:
                v = self.eval(x, env)
                if self.truth(v): return v
            return v
        if isinstance(e, ast.UnaryOp) and isinstance(e.op, ast.Not):
            return not self.truth(self.eval(e.operand, env))
        if isinstance(e, ast.BinOp):
            return self.binop(e.op, self.eval(e.left, env), self.eval(e.right, env))
        if isinstance(e, ast.Compare):
            left = self.eval(e.left, env)
            for op, r in zip(e.ops, e.comparators):
                right = self.eval(r, env)
                if isinstance(op, ast.Eq): ok = self.eq(left, right)
                elif isinstance(op, ast.NotEq): ok = not self.eq(left, right)
                elif isinstance(op, ast.Is):
                    ok = (left is right) or (isinstance(left, EnumVal) and isinstance(right, EnumVal) and self.eq(left, right)) \
                        or (left is None and right is None)
                    if isinstance(left, (str, int)) and not isinstance(left, bool) and right is not None:
                        raise Unsupported("`is` on a value")
                elif isinstance(op, ast.IsNot):
                    ok = not ((left is right) or (isinstance(left, EnumVal) and isinstance(right, EnumVal) and self.eq(left, right)))
                elif isinstance(op, ast.In):
                    ok = any(self.eq(left, x) for x in right)
                elif isinstance(op, ast.NotIn):
                    ok = not any(self.eq(left, x) for x in right)
                elif isinstance(op, (ast.Gt, ast.Lt, ast.GtE, ast.LtE)) and isinstance(left, int) and isinstance(right, int):
                    ok = {ast.Gt: left > right, ast.Lt: left < right, ast.GtE: left >= right, ast.LtE: left <= right}[type(op)]
                else:
                    raise Unsupported("comparison " + type(op).__name__)
                if not ok: return False
                left = right
            return True
        if isinstance(e, ast.Subscript):
            v = self.eval(e.value, env)
            i = self.eval(e.slice, env)
            if isinstance(v, (list, tuple)) and isinstance(i, int):
                if not -len(v) <= i < len(v): raise PyRaise("IndexError")
                return v[i]
            raise Unsupported("subscript")
        if isinstance(e, ast.ListComp):
            if len(e.generators) != 1 or e.generators[0].is_async:
                raise Unsupported("comprehension shape")
            g = e.generators[0]
            it = self.eval(g.iter, env)
            if not isinstance(it, (list, tuple)): raise Unsupported("comprehension over %r" % (it,))
            out, inner = [], dict(env)
            for v in it:
                self.assign(g.target, v, inner)
                if all(self.truth(self.eval(c, inner)) for c in g.ifs):
                    out.append(self.eval(e.elt, inner))
            return out
        if isinstance(e, ast.Call):
            return self.call(e, env)
        raise Unsupported("expression " + type(e).__name__)

    def getattr_(self, v, name):
        if isinstance(v, ClassRef) and v.name in self.enums:
            if name in self.enums[v.name]: return self.enums[v.name][name]
            raise PyRaise("AttributeError", name)
        if isinstance(v, Obj):
            if name in v.attrs: return v.attrs[name]
            m = self.find_member(v.cls, name)
            if m is None:
                raise PyRaise("AttributeError", "%s has no attribute %s" % (v.cls, name))
            if m[1] == "property":
                return self.call_function(m[0], [v], {})
            return ("bound", v, m[0])
        if isinstance(v, list) and name == "append":
            return ("append", v)
        if isinstance(v, str) and name == "lower":
            return ("lower", v)
        raise Unsupported("attribute %s of %r" % (name, v))

    def call(self, e, env):
        f = self.eval(e.func, env)
        if any(isinstance(a, ast.Starred) for a in e.args) or any(k.arg is None for k in e.keywords):
            raise Unsupported("star arguments")
        args = [self.eval(a, env) for a in e.args]
        kwargs = {k.arg: self.eval(k.value, env) for k in e.keywords}
        if isinstance(f, ClassRef):
            if f.name in self.classes or self.is_exception_class(f.name):
                return self.construct(f.name, args, kwargs)
            if f.name == "str" and len(args) == 1: return str(args[0])
            raise Unsupported("call of " + f.name)
        if isinstance(f, tuple):
            if f[0] == "bound": return self.call_function(f[2], [f[1]] + args, kwargs)
            if f[0] == "append" and len(args) == 1 and not kwargs:
                f[1].append(args[0]); return None
            if f[0] == "lower" and not args: return f[1].lower()
            if f[0] == "builtin":
                n = f[1]
                if n == "isinstance" and len(args) == 2: return self.isinstance_(args[0], args[1])
                if n == "len" and len(args) == 1 and isinstance(args[0], (list, tuple, str, dict)): return len(args[0])
                if n == "hasattr" and len(args) == 2 and isinstance(args[0], Obj):
                    return args[1] in args[0].attrs or self.find_member(args[0].cls, args[1]) is not None
                if n == "str" and len(args) == 1: return str(args[0])
                if n == "type" and len(args) == 1: return "type"
                raise Unsupported("builtin " + n)
        raise Unsupported("call of %r" % (f,))
