"""C12 translator: the API routes by which a process enters a model -> coq/Gen/RoutesGen.v

The CURRENT source of transition.py (Transition.__init__, Event.__init__, the setters they call, TransitionType) and of
base_ode_model.py (add_transition, add_event, add_birth_death, add_ode and the four list setters) is run by the small
interpreter gen/minipy.py on SYMBOLIC process descriptions (state names 'o', 'd', magnitudes 'm0', 'm1', rate 'r'); what ends up
in the model's event list is emitted as a table.  Props/C12.v checks the table against the canonical normal form
(Routes.routes_ok) and proves that every route then contributes exactly the process it was given."""
import ast
from pyast import *
import minipy
from minipy import Interp, Obj, EnumVal, PyRaise

STUB = """
class _Canary:
    def trip(self):
        self.tripped = True
"""

SLOT = {None: "SNone", "o": "SO", "d": "SD"}
MAG = {"m0": 0, "m1": 1, "1": 2}


def mk_interp():
    mods = [parse("model/transition.py"), parse("model/base_ode_model.py"), ast.parse(STUB)]
    return Interp(mods, enums=("TransitionType",), exceptions=("InputError", "InputStateError", "TransitionTypeError", "OutputError"))


def new_model(I):
    m = Obj("BaseOdeModel")
    m.attrs.update(_eventList=[], _transitionList=[], _birthDeathList=[], _odeList=[], _explicitOde=False,
                   _hasNewTransition=Obj("_Canary"))
    return m


class SymBackend:
    """the current source run by the interpreter"""
    def __init__(self, I): self.I = I
    def T(self, **kw): return self.I.construct("Transition", [], kw)
    def Tpos(self, *args): return self.I.construct("Transition", list(args), {})
    def enum(self, name): return self.I.enums["TransitionType"][name]
    def E(self, *args, **kw): return self.I.construct("Event", list(args), kw)
    def new_model(self): return new_model(self.I)
    def call(self, m, name, arg):
        f = self.I.find_member("BaseOdeModel", name)
        if f is None:
            raise Unsupported("BaseOdeModel.%s not found" % name)
        return self.I.call_function(f[0], [m, arg], {})
    def set(self, m, name, v):
        f = self.I.find_member("BaseOdeModel", name, want="setter")
        if f is None:
            raise Unsupported("setter BaseOdeModel.%s not found" % name)
        return self.I.call_function(f[0], [m, v], {})


def T(I, **kw): return I.T(**kw)
def E(I, *args, **kw): return I.E(*args, **kw)
def method(I, m, name): return lambda a: I.call(m, name, a)
def setter(I, m, name): return lambda v: I.set(m, name, v)


def read_events(m):
    """the model's event list: list of (rate_is_r, [(type, orig slot, dest slot, magnitude index)])"""
    out = []
    for ev in m.attrs["_eventList"]:
        if not isinstance(ev, Obj) or ev.cls != "Event":
            raise Unsupported("event list holds %r" % (ev,))
        rate = ev.attrs.get("rate")
        trs = []
        tl = ev.attrs.get("transition_list")
        if not isinstance(tl, list):
            raise Unsupported("Event.transition_list is %r" % (tl,))
        for t in tl:
            ty = t.attrs.get("_transition_type")
            if not isinstance(ty, EnumVal) or ty.name not in ("T", "B", "D"):
                raise Unsupported("transition type %r in an event" % (ty,))
            o, d, mg = t.attrs.get("_orig_state"), t.attrs.get("_dest_state"), t.attrs.get("_magnitude")
            if o not in SLOT or d not in SLOT or mg not in MAG:
                raise Unsupported("stored fields %r %r %r" % (o, d, mg))
            trs.append((ty.name, SLOT[o], SLOT[d], MAG[mg]))
        out.append((rate == "r", trs))
    return out


def coq_events(evs):
    return "; ".join("(%s, [%s])" % (coq_bool(r), "; ".join("NT %s %s %s %d" % t for t in trs)) for r, trs in evs)


# process kinds: how the user describes them (keyword arguments of Transition, without the rate)
KINDS = {
    "PT":  dict(origin="o", destination="d", transition_type="T", magnitude="m0"),
    "PD":  dict(origin="o", transition_type="D", magnitude="m0"),
    "PBd": dict(destination="d", transition_type="B", magnitude="m0"),
    "PBo": dict(origin="o", transition_type="B", magnitude="m0"),          # birth named by origin
    "PT1": dict(origin="o", destination="d", transition_type="T"),          # default magnitude
}


def scenarios(I):
    """(route name, process kind, thunk(model) that enters the process)"""
    sc = []
    for k, kw in KINDS.items():
        sc.append(("Event(rate, [t]) via add_event", k, lambda m, kw=kw: method(I, m, "add_event")(E(I, rate="r", transition_list=[T(I, **kw)]))))
        sc.append(("Event([t with rate]) via add_event", k, lambda m, kw=kw: method(I, m, "add_event")(E(I, transition_list=[T(I, equation="r", **kw)]))))
        sc.append(("Event(t, rate) solitary", k, lambda m, kw=kw: method(I, m, "add_event")(E(I, T(I, **kw), "r"))))
        sc.append(("add_event(t with rate)", k, lambda m, kw=kw: method(I, m, "add_event")(T(I, equation="r", **kw))))
        sc.append(("event_list setter", k, lambda m, kw=kw: setter(I, m, "event_list")([E(I, rate="r", transition_list=[T(I, **kw)])])))
        sc.append(("event_list setter, bare Transition", k, lambda m, kw=kw: setter(I, m, "event_list")([T(I, equation="r", **kw)])))
        if kw["transition_type"] == "T":
            sc.append(("add_transition", k, lambda m, kw=kw: method(I, m, "add_transition")(T(I, equation="r", **kw))))
            sc.append(("transition_list setter", k, lambda m, kw=kw: setter(I, m, "transition_list")([T(I, equation="r", **kw)])))
        else:
            sc.append(("add_birth_death", k, lambda m, kw=kw: method(I, m, "add_birth_death")(T(I, equation="r", **kw))))
            sc.append(("birth_death_list setter", k, lambda m, kw=kw: setter(I, m, "birth_death_list")([T(I, equation="r", **kw)])))
            sc.append(("birth_death_list setter, solitary", k, lambda m, kw=kw: setter(I, m, "birth_death_list")(T(I, equation="r", **kw))))
    # the transition type in every spelling the constructor documents, and as the enum member
    spell = {"PT": ["t", "T", "between states", "Between States"], "PD": ["d", "D", "death process"], "PBd": ["b", "B", "birth process"]}
    for k, sps in spell.items():
        for sp in sps:
            sc.append(("type spelled '%s'" % sp, k, lambda m, k=k, sp=sp: method(I, m, "add_event")(
                E(I, rate="r", transition_list=[T(I, **dict(KINDS[k], transition_type=sp))]))))
        sc.append(("type given as enum member", k, lambda m, k=k: method(I, m, "add_event")(
            E(I, rate="r", transition_list=[T(I, **dict(KINDS[k], transition_type=I.enum(KINDS[k]["transition_type"])))]))))
    # positional construction in the documented order (origin, equation, transition_type, destination, magnitude)
    sc.append(("positional Transition", "PT", lambda m: method(I, m, "add_event")(I.Tpos("o", "r", "T", "d", "m0"))))
    sc.append(("positional Transition", "PD", lambda m: method(I, m, "add_event")(I.Tpos("o", "r", "D", None, "m0"))))
    sc.append(("positional Transition", "PBd", lambda m: method(I, m, "add_event")(I.Tpos(None, "r", "B", "d", "m0"))))
    # an event of two transitions: rate on the Event, or carried by exactly one member (either position)
    two = lambda e0=None, e1=None: [T(I, origin="o", destination="d", transition_type="T", magnitude="m0", **({"equation": e0} if e0 else {})),
                                    T(I, origin="d", transition_type="D", magnitude="m1", **({"equation": e1} if e1 else {}))]
    sc.append(("Event(rate, [t1, t2])", "PTD", lambda m: method(I, m, "add_event")(E(I, rate="r", transition_list=two()))))
    sc.append(("Event([t1 with rate, t2])", "PTD", lambda m: method(I, m, "add_event")(E(I, transition_list=two(e0="r")))))
    sc.append(("Event([t1, t2 with rate])", "PTD", lambda m: method(I, m, "add_event")(E(I, transition_list=two(e1="r")))))
    return sc


def bad_inputs(I):
    """inputs every route must refuse"""
    sc = []
    sc.append(("T with origin = destination", lambda m: T(I, origin="o", destination="o", transition_type="T")))
    sc.append(("T without destination", lambda m: T(I, origin="o", transition_type="T")))
    sc.append(("T without origin", lambda m: T(I, destination="d", transition_type="T")))
    sc.append(("D with destination", lambda m: T(I, origin="o", destination="d", transition_type="D")))
    sc.append(("D without origin", lambda m: T(I, transition_type="D")))
    sc.append(("B without state", lambda m: T(I, transition_type="B")))
    sc.append(("unknown transition type", lambda m: T(I, origin="o", transition_type="X")))
    sc.append(("Event with rate and member rate", lambda m: E(I, rate="r", transition_list=[T(I, origin="o", destination="d", transition_type="T", equation="r")])))
    sc.append(("Event without any rate", lambda m: E(I, transition_list=[T(I, origin="o", destination="d", transition_type="T")])))
    sc.append(("Event of two without any rate", lambda m: E(I, transition_list=[T(I, origin="o", destination="d", transition_type="T"), T(I, origin="d", transition_type="D")])))
    sc.append(("Event with two member rates", lambda m: E(I, transition_list=[T(I, origin="o", destination="d", transition_type="T", equation="r"), T(I, origin="d", transition_type="D", equation="r")])))
    sc.append(("Event of two with rate and member rate", lambda m: E(I, rate="r", transition_list=[T(I, origin="o", destination="d", transition_type="T", equation="r"), T(I, origin="d", transition_type="D")])))
    sc.append(("ODE inside an Event", lambda m: E(I, rate="r", transition_list=[T(I, origin="o", equation="r", transition_type="ODE")])))
    sc.append(("add_transition of a birth", lambda m: method(I, m, "add_transition")(T(I, destination="d", transition_type="B", equation="r"))))
    sc.append(("add_birth_death of a transition", lambda m: method(I, m, "add_birth_death")(T(I, origin="o", destination="d", transition_type="T", equation="r"))))
    sc.append(("add_ode of a transition", lambda m: method(I, m, "add_ode")(T(I, origin="o", destination="d", transition_type="T", equation="r"))))
    sc.append(("add_event of a string", lambda m: method(I, m, "add_event")("r")))
    return sc


def run_table(B, read, tripped, snapshot, ode_state, errors):
    """every scenario on backend B -> plain Python structure (shared by the translator and by the correspondence check)"""
    rows = []
    for name, kind, thunk in scenarios(B):
        m = B.new_model()
        try:
            thunk(m)
            rows.append((name, kind, ("Stored", read(m), bool(tripped(m)))))
        except errors:
            rows.append((name, kind, ("Raised",)))
    reuse = []
    for kname in ("PT", "PD", "PBd"):       # the caller's objects are not changed by being entered into a model
        t = T(B, equation="r", **KINDS[kname])
        before = snapshot(t)
        method(B, B.new_model(), "add_event")(t)
        reuse.append((kname, snapshot(t) == before))
    m = B.new_model()                       # two processes entered through one list keep their order
    setter(B, m, "event_list")([E(B, rate="r", transition_list=[T(B, **KINDS["PT"])]), E(B, rate="r", transition_list=[T(B, **KINDS["PD"])])])
    order = read(m)
    m = B.new_model()                       # explicit-ODE route: add_ode appends the Transition itself and marks the model
    o = T(B, origin="o", equation="r", transition_type="ODE")
    method(B, m, "add_ode")(o)
    ode_ok = bool(ode_state(m, o) and tripped(m))
    bad = []
    for name, thunk in bad_inputs(B):
        m = B.new_model()
        try:
            thunk(m)
            bad.append((name, False))
        except errors:
            bad.append((name, True))
    return dict(rows=rows, reuse=reuse, order=order, ode_ok=ode_ok, bad=bad)


def sym_table():
    B = SymBackend(mk_interp())
    return run_table(B, read_events, lambda m: m.attrs["_hasNewTransition"].attrs.get("tripped"),
                     lambda t: dict(t.attrs),
                     lambda m, o: (m.attrs["_odeList"] == [o] and m.attrs["_eventList"] == [] and o.attrs.get("_orig_state") == "o"
                                   and o.attrs.get("_equation") == "r"),
                     PyRaise)


def generate():
    try:
        tb = sym_table()
        rows = []
        for name, kind, out in tb["rows"]:
            if out[0] == "Raised":
                rows.append('("%s", %s, Raised)' % (name, kind))
            else:
                rows.append('("%s", %s, Stored [%s] %s)' % (name, kind, coq_events(out[1]), coq_bool(out[2])))
        return ("(* GENERATED from model/transition.py and model/base_ode_model.py by running the current source of the\n"
                "   constructors, add_* methods and list setters on symbolic processes (gen/minipy.py) *)\n"
                "From Coq Require Import List String Bool.\nFrom PV Require Import Assembly Routes.\nImport ListNotations. Open Scope string_scope.\n"
                "Definition translator_ok := true.\n"
                "Definition route_rows : list (string * pkind * outcome) := [\n  %s].\n"
                "Definition reuse_rows : list (pkind * bool) := [%s].\n"
                "Definition order_row : list (bool * list ntrans) := [%s].\n"
                "Definition ode_route_ok := %s.\n"
                "Definition refused_rows : list (string * bool) := [\n  %s].\n"
                % (";\n  ".join(rows), "; ".join("(%s, %s)" % (k, coq_bool(b)) for k, b in tb["reuse"]), coq_events(tb["order"]),
                   coq_bool(tb["ode_ok"]), ";\n  ".join('("%s", %s)' % (n, coq_bool(b)) for n, b in tb["bad"])))
    except (Unsupported, minipy._Return, ValueError, TypeError, IndexError, KeyError, AttributeError, AssertionError, RecursionError) as u:
        return (failed("RoutesGen", str(u)) +
                "From Coq Require Import List String Bool.\nFrom PV Require Import Assembly Routes.\nImport ListNotations.\n"
                "Definition route_rows : list (string * pkind * outcome) := [].\n"
                "Definition reuse_rows : list (pkind * bool) := [].\n"
                "Definition order_row : list (bool * list ntrans) := [].\n"
                "Definition ode_route_ok := false.\nDefinition refused_rows : list (string * bool) := [].\n")


if __name__ == "__main__":
    print(generate())
