"""C16 translator: which random source does every draw site reachable from the serial simulation paths use,
and how is the reported mean of simulate_param / solve_determ computed  ->  coq/Gen/SourcesGen.v

A small abstract interpreter over the Python `ast` of the anchored files.  It starts at
    SimulateOde.solve_stochast / simulate_param / solve_determ     with parallel = False
follows calls that resolve inside the anchored files (bare names, `from x import y` names, self.method through
the class chain SimulateOde -> DeterministicOde -> BaseOdeModel, and the assignment `self.parameters = ...`
into the setter), propagates constants (None / True / False / ints, e.g. the `seed` argument) and prunes `if`
branches whose test is decided by them.  Every call that is (or may be) a random draw is classified
    Global | SeededFrom <arg> | FreshEntropy
and anything that looks like randomness but cannot be classified makes the translator fail closed.
"""
import ast, os, re
from pyast import *

FILES = {
    "simulate": "model/simulate.py",
    "deterministic": "model/deterministic.py",
    "base_ode_model": "model/base_ode_model.py",
    "stochastic_simulation": "model/stochastic_simulation.py",
    "distn": "utilR/distn.py",
}
CLASS_CHAIN = [("simulate", "SimulateOde"), ("deterministic", "DeterministicOde"), ("base_ode_model", "BaseOdeModel")]
# module a name is imported from (as written in the source) -> our file key
IMPORT_MAP = {"pygom.utilR.distn": "distn", "pygom.utilR": "distn", ".stochastic_simulation": "stochastic_simulation",
              "pygom.model.stochastic_simulation": "stochastic_simulation"}

# public sampler methods of numpy's legacy RandomState (module-level np.random.<name> draw from the global one)
NP_SAMPLERS = {
    "beta", "binomial", "bytes", "chisquare", "choice", "dirichlet", "exponential", "f", "gamma", "geometric",
    "gumbel", "hypergeometric", "laplace", "logistic", "lognormal", "logseries", "multinomial",
    "multivariate_normal", "negative_binomial", "noncentral_chisquare", "noncentral_f", "normal", "pareto",
    "permutation", "poisson", "power", "rand", "randint", "randn", "random", "random_integers", "random_sample",
    "ranf", "sample", "rayleigh", "shuffle", "standard_cauchy", "standard_exponential", "standard_gamma",
    "standard_normal", "standard_t", "triangular", "uniform", "vonmises", "wald", "weibull", "zipf",
}
NP_GEN_CTORS = {"RandomState", "default_rng", "Generator", "SeedSequence", "PCG64", "PCG64DXSM", "MT19937", "Philox", "SFC64"}
STDLIB_RANDOM = {"random", "uniform", "randint", "randrange", "choice", "choices", "shuffle", "sample", "gauss",
                 "normalvariate", "expovariate", "gammavariate", "betavariate", "getrandbits", "randbytes",
                 "triangular", "lognormvariate", "vonmisesvariate", "paretovariate", "weibullvariate"}
SUSPICIOUS = re.compile(r"(random|rvs|urandom|default_rng|RandomState|Generator|secrets|uuid|getrandbits|shuffle|"
                        r"SystemRandom|SeedSequence|set_state|token_bytes|(^|[._])rng([._]|$))")

GLOBAL, FRESH = ("Global",), ("FreshEntropy",)


def seeded(a):
    return ("SeededFrom", a)


# ---- abstract values
def const(v): return ("const", v)
UNKNOWN = ("unknown",)


class Ctx:
    def __init__(self):
        self.trees = {}
        self.funcs = {}        # (filekey, name) -> FunctionDef          module level
        self.methods = {}      # (filekey, cls, name) -> FunctionDef     (plain methods), setters under name+'.setter'
        self.imports = {}      # filekey -> {local name: (filekey2, name)}
        self.np_alias = {}     # filekey -> set of names bound to numpy
        self.st_alias = {}     # filekey -> names bound to scipy.stats
        self.stdrandom = {}    # filekey -> names bound to stdlib random module
        self.sites = []        # (label, source)
        self.seen = set()
        self.memo = {}
        self.stack = []
        self.visited_funcs = set()
        for k, rel in FILES.items():
            t = parse(rel)
            self.trees[k] = t
            self.imports[k], self.np_alias[k], self.st_alias[k], self.stdrandom[k] = {}, set(), set(), set()
            for n in t.body:
                if isinstance(n, ast.FunctionDef):
                    self.funcs[(k, n.name)] = n
                elif isinstance(n, ast.ClassDef):
                    for f in n.body:
                        if isinstance(f, ast.FunctionDef):
                            decs = [ast.unparse(d) for d in f.decorator_list]
                            if any(d.endswith(".setter") for d in decs):
                                self.methods[(k, n.name, f.name + ".setter")] = f
                            elif "property" in decs:
                                self.methods[(k, n.name, f.name + ".getter")] = f
                            else:
                                self.methods[(k, n.name, f.name)] = f
                elif isinstance(n, ast.Import):
                    for a in n.names:
                        nm = a.asname or a.name.split(".")[0]
                        if a.name == "numpy": self.np_alias[k].add(nm)
                        if a.name == "scipy.stats" and a.asname: self.st_alias[k].add(nm)
                        if a.name == "random": self.stdrandom[k].add(nm)
                        if a.name in ("secrets", "uuid"): self.stdrandom[k].add(nm)
                elif isinstance(n, ast.ImportFrom):
                    mod = ("." * n.level) + (n.module or "")
                    for a in n.names:
                        nm = a.asname or a.name
                        if mod in IMPORT_MAP:
                            self.imports[k][nm] = (IMPORT_MAP[mod], a.name)
                        elif mod in ("numpy", "numpy.random", "random", "secrets", "os") and \
                                (a.name in NP_SAMPLERS | NP_GEN_CTORS | STDLIB_RANDOM | {"seed", "urandom", "random"}):
                            raise Unsupported("%s: `from %s import %s` (random name imported directly)" % (k, mod, a.name))

    def site(self, label, src):
        key = (label, src)
        if key not in self.seen:
            self.seen.add(key)
            self.sites.append(key)

    def resolve_method(self, name):
        for k, c in CLASS_CHAIN:
            if (k, c, name) in self.methods:
                return k, c, self.methods[(k, c, name)]
        return None


class Frame:
    """abstract interpretation of one function body"""

    def __init__(self, ctx, fkey, qual, fn, env):
        self.ctx, self.fkey, self.qual, self.fn, self.env = ctx, fkey, qual, fn, dict(env)
        self.returns = []

    # -- helpers
    def where(self, node):
        return "%s:%d" % (self.qual, getattr(node, "lineno", 0))

    def chain(self, e):
        try:
            return attr_chain(e)
        except Unsupported:
            return None

    def is_np_random(self, ch):
        if ch is None: return None
        parts = ch.split(".")
        if len(parts) == 3 and parts[0] in self.ctx.np_alias[self.fkey] and parts[1] == "random":
            return parts[2]
        if len(parts) == 4 and parts[0] in self.ctx.np_alias[self.fkey] and parts[1] == "random" and parts[2] == "mtrand":
            return parts[3]
        return None

    # -- expressions
    def ev(self, e):
        """abstract value of an expression; visits every call inside it"""
        if e is None:
            return UNKNOWN
        if isinstance(e, ast.Constant):
            if e.value is None or isinstance(e.value, (bool, int)):
                return const(e.value)
            return UNKNOWN
        if isinstance(e, ast.Name):
            return self.env.get(e.id, UNKNOWN)
        if isinstance(e, ast.Call):
            return self.call(e)
        if isinstance(e, ast.Attribute):
            ch = self.chain(e)
            nr = self.is_np_random(ch)
            if nr is not None:
                if nr in NP_SAMPLERS: return ("sampler", GLOBAL, ch)
                if nr == "_rand": return ("genobj", GLOBAL)
                return ("npfn", nr)
            base = self.ev(e.value)
            if base[0] == "genobj":
                if e.attr in NP_SAMPLERS or e.attr in ("integers", "standard_normal"):
                    return ("sampler", base[1], ast.unparse(e))
                return ("genattr", base[1], e.attr)
            return UNKNOWN
        if isinstance(e, (ast.Lambda,)):
            self.ev(e.body)
            return UNKNOWN
        if isinstance(e, (ast.ListComp, ast.SetComp, ast.GeneratorExp, ast.DictComp)):
            for g in e.generators:
                self.ev(g.iter)
                for c in g.ifs: self.ev(c)
            if isinstance(e, ast.DictComp):
                self.ev(e.key); self.ev(e.value)
            else:
                self.ev(e.elt)
            return UNKNOWN
        if isinstance(e, ast.IfExp):
            t = self.truth(e.test)
            if t is True: return self.ev(e.body)
            if t is False: return self.ev(e.orelse)
            a, b = self.ev(e.body), self.ev(e.orelse)
            return a if a == b else UNKNOWN
        for c in ast.iter_child_nodes(e):
            if isinstance(c, ast.expr):
                self.ev(c)
        return UNKNOWN

    def truth(self, t):
        """True / False / None(unknown) ; evaluates calls inside the test"""
        if isinstance(t, ast.Compare) and len(t.ops) == 1:
            l, r = self.ev(t.left), self.ev(t.comparators[0])
            op = t.ops[0]
            if l[0] == "const" and r[0] == "const":
                if isinstance(op, ast.Is): return l[1] is r[1]
                if isinstance(op, ast.IsNot): return l[1] is not r[1]
                if isinstance(op, ast.Eq): return l[1] == r[1]
                if isinstance(op, ast.NotEq): return l[1] != r[1]
                if isinstance(l[1], int) and isinstance(r[1], int):
                    if isinstance(op, ast.Gt): return l[1] > r[1]
                    if isinstance(op, ast.GtE): return l[1] >= r[1]
                    if isinstance(op, ast.Lt): return l[1] < r[1]
                    if isinstance(op, ast.LtE): return l[1] <= r[1]
            # a generator object / unknown compared with None by identity
            if isinstance(op, (ast.Is, ast.IsNot)) and r == const(None) and l[0] in ("genobj", "sampler"):
                return isinstance(op, ast.IsNot)
            return None
        if isinstance(t, ast.UnaryOp) and isinstance(t.op, ast.Not):
            v = self.truth(t.operand)
            return None if v is None else (not v)
        if isinstance(t, ast.BoolOp):
            vals = [self.truth(v) for v in t.values]
            if isinstance(t.op, ast.And):
                if any(v is False for v in vals): return False
                if all(v is True for v in vals): return True
            else:
                if any(v is True for v in vals): return True
                if all(v is False for v in vals): return False
            return None
        if isinstance(t, ast.Call) and ast.unparse(t.func) == "isinstance" and len(t.args) == 2:
            v = self.ev(t.args[0])
            ty = ast.unparse(t.args[1])
            if v[0] == "const":
                if v[1] is None: return False
                if isinstance(v[1], (bool, int)):
                    if ty in ("int", "Number", "(int, float)"): return True
                    if ty in ("bool",): return isinstance(v[1], bool)
                    if "RandomState" in ty or ty in ("dict", "str", "tuple", "list", "(list, tuple)", "np.ndarray"):
                        return False
            if v[0] == "genobj" and "RandomState" in ty:
                return True
            return None
        v = self.ev(t)
        if v[0] == "const":
            return bool(v[1])
        return None

    def bind_args(self, fn, call, skip_self):
        """abstract environment of the callee"""
        a = fn.args
        names = [x.arg for x in a.args]
        if skip_self:
            names = names[1:]
        env = {}
        defaults = a.defaults
        for nm, d in zip(names[len(names) - len(defaults):], defaults):
            env[nm] = self.ev_default(d)
        for x, d in zip(a.kwonlyargs, a.kw_defaults):
            env[x.arg] = self.ev_default(d) if d is not None else UNKNOWN
        pos = call.args
        if any(isinstance(p, ast.Starred) for p in pos) or any(k.arg is None for k in call.keywords):
            # *args / **kw: every parameter not certainly defaulted becomes unknown
            for nm in names: env[nm] = UNKNOWN
            for p in pos: self.ev(p.value if isinstance(p, ast.Starred) else p)
            for k in call.keywords: self.ev(k.value)
            return env
        for nm, p in zip(names, pos):
            env[nm] = self.ev(p)
        for k in call.keywords:
            env[k.arg] = self.ev(k.value)
        for nm in names:
            env.setdefault(nm, UNKNOWN)
        return env

    @staticmethod
    def ev_default(d):
        if isinstance(d, ast.Constant) and (d.value is None or isinstance(d.value, (bool, int))):
            return const(d.value)
        return UNKNOWN

    def seed_source(self, v, text):
        """source of a generator constructed from / denoted by abstract value v"""
        if v == const(None): return FRESH
        if v[0] == "const": return seeded(text)
        if v[0] == "genobj": return v[1]
        if v[0] == "state": return seeded("copy of the global state")
        return seeded(text)

    def call(self, c):
        ctx = self.ctx
        f = c.func
        ch = self.chain(f)
        text = ast.unparse(f)
        # 1. numpy.random.<x>(...)
        nr = self.is_np_random(ch)
        if nr is not None:
            for a in c.args: self.ev(a)
            for k in c.keywords: self.ev(k.value)
            if nr in NP_SAMPLERS:
                ctx.site("%s %s" % (self.where(c), ch), GLOBAL); return UNKNOWN
            if nr == "seed":
                arg = ast.unparse(c.args[0]) if c.args else "None"
                ctx.site("%s %s(%s) [reseeds the global generator]" % (self.where(c), ch, arg),
                         FRESH if arg == "None" else seeded(arg)); return UNKNOWN
            if nr == "get_state":
                return ("state",)
            if nr == "set_state":
                v = self.ev(c.args[0]) if c.args else UNKNOWN
                ctx.site("%s %s [overwrites the global generator state]" % (self.where(c), ch),
                         seeded(ast.unparse(c.args[0]) if c.args else "?")); return UNKNOWN
            if nr in NP_GEN_CTORS:
                if not c.args and not c.keywords:
                    return ("genobj", FRESH)
                a0 = c.args[0] if c.args else c.keywords[0].value
                return ("genobj", self.seed_source(self.ev(a0), ast.unparse(a0)))
            raise Unsupported("%s: unclassified numpy.random call %s" % (self.where(c), text))
        # stdlib random / secrets / os.urandom: not governed by np.random.seed
        if ch is not None:
            parts = ch.split(".")
            if (len(parts) == 2 and parts[0] in ctx.stdrandom[self.fkey]) or ch in ("os.urandom", "os.getrandom"):
                if parts[-1] == "seed":
                    raise Unsupported("%s: stdlib random.seed" % self.where(c))
                ctx.site("%s %s" % (self.where(c), ch), FRESH); return UNKNOWN
        # 2. callee is an abstract sampler / generator value
        fv = self.ev(f) if not isinstance(f, ast.Name) else self.env.get(f.id, UNKNOWN)
        if fv[0] == "sampler":
            for a in c.args: self.ev(a)
            for k in c.keywords: self.ev(k.value)
            ctx.site("%s %s(...) bound to %s" % (self.where(c), text, fv[2]), fv[1]); return UNKNOWN
        if fv[0] == "genattr":
            # method of a generator object that is not a sampler
            if fv[2] == "set_state":
                v = self.ev(c.args[0]) if c.args else UNKNOWN
                if isinstance(f, ast.Attribute) and isinstance(f.value, ast.Name):
                    self.env[f.value.id] = ("genobj", self.seed_source(v, ast.unparse(c.args[0]) if c.args else "?"))
                return UNKNOWN
            if fv[2] in ("get_state", "seed"):
                if fv[2] == "seed" and isinstance(f, ast.Attribute) and isinstance(f.value, ast.Name):
                    self.env[f.value.id] = ("genobj", seeded(ast.unparse(c.args[0])) if c.args else FRESH)
                return ("state",) if fv[2] == "get_state" else UNKNOWN
            raise Unsupported("%s: unknown generator method %s" % (self.where(c), text))
        # 3. scipy-style  X.rvs(...)
        if isinstance(f, ast.Attribute) and f.attr == "rvs":
            for a in c.args: self.ev(a)
            rs = None
            for k in c.keywords:
                v = self.ev(k.value)
                if k.arg == "random_state": rs = (v, ast.unparse(k.value))
                if k.arg is None:
                    raise Unsupported("%s: %s(**kw) may carry random_state" % (self.where(c), text))
            if rs is None or rs[0] == const(None):
                src = GLOBAL        # scipy check_random_state(None) -> numpy's global RandomState singleton
            elif rs[0][0] == "genobj":
                src = rs[0][1]
            elif rs[0][0] == "const":
                src = seeded(rs[1])
            else:
                raise Unsupported("%s: %s random_state=%s cannot be classified" % (self.where(c), text, rs[1]))
            ctx.site("%s %s(...)" % (self.where(c), text), src); return UNKNOWN
        # 4. functions / methods inside the anchored files
        target = None
        if isinstance(f, ast.Name):
            if (self.fkey, f.id) in ctx.funcs and f.id not in self.env:
                target = (self.fkey, f.id, ctx.funcs[(self.fkey, f.id)], False)
            elif f.id in ctx.imports[self.fkey] and f.id not in self.env:
                k2, n2 = ctx.imports[self.fkey][f.id]
                if (k2, n2) in ctx.funcs:
                    target = (k2, n2, ctx.funcs[(k2, n2)], False)
        elif isinstance(f, ast.Attribute) and isinstance(f.value, ast.Name) and f.value.id == "self":
            r = ctx.resolve_method(f.attr)
            if r is not None:
                target = (r[0], "%s.%s" % (r[1], f.attr), r[2], True)
        if target is not None:
            env = self.bind_args(target[2], c, target[3])
            return analyze(ctx, target[0], target[1], target[2], env)
        # 5. user-supplied sampler taken out of a container:  value[0](1, *value[1])
        if isinstance(f, ast.Subscript):
            for a in c.args: self.ev(a.value if isinstance(a, ast.Starred) else a)
            src = GLOBAL
            for k in c.keywords:
                v = self.ev(k.value)
                if k.arg in ("seed", "random_state"):
                    if v == const(None): src = GLOBAL
                    elif v == const(True): src = FRESH
                    elif v[0] == "const" and v[1] is not False: src = seeded(ast.unparse(k.value))
                    elif v[0] == "genobj": src = v[1]
                    else: raise Unsupported("%s: sampler called with %s=%s" % (self.where(c), k.arg, ast.unparse(k.value)))
            ctx.site("%s %s(...) [user sampler, called without a seed: pygom.utilR r* with seed=None, see below]"
                     % (self.where(c), text), src)
            return UNKNOWN
        # 6. anything else: arguments may still contain calls
        for a in c.args: self.ev(a.value if isinstance(a, ast.Starred) else a)
        for k in c.keywords: self.ev(k.value)
        if not isinstance(f, (ast.Name, ast.Attribute)):
            self.ev(f)
        elif isinstance(f, ast.Attribute):
            self.ev(f.value)
        if SUSPICIOUS.search(text):
            raise Unsupported("%s: call %s looks random but cannot be classified" % (self.where(c), text))
        if isinstance(f, ast.Attribute) and (f.attr in NP_SAMPLERS or f.attr in ("integers", "rvs")) \
                and not (ch or "").startswith(("np.", "numpy.", "sympy.", "scipy.", "math.")):
            # sampler-named method on an object the interpreter knows nothing about (e.g. self._rng.exponential)
            raise Unsupported("%s: %s is a sampler-named method on an unknown object" % (self.where(c), text))
        return UNKNOWN

    # -- statements
    def block(self, body):
        for s in body:
            self.stmt(s)

    def merge(self, envs):
        keys = set().union(*[set(e) for e in envs])
        out = {}
        for k in keys:
            vals = {e.get(k, UNKNOWN) for e in envs}
            out[k] = vals.pop() if len(vals) == 1 else UNKNOWN
        return out

    def stmt(self, s):
        if isinstance(s, ast.Assign):
            v = self.ev(s.value)
            for t in s.targets:
                if isinstance(t, ast.Name):
                    self.env[t.id] = v
                elif isinstance(t, ast.Tuple):
                    for el in t.elts:
                        if isinstance(el, ast.Name): self.env[el.id] = UNKNOWN
                elif isinstance(t, ast.Attribute) and isinstance(t.value, ast.Name) and t.value.id == "self":
                    r = self.ctx.resolve_method(t.attr + ".setter")
                    if r is not None:
                        fn = r[2]
                        pname = fn.args.args[1].arg
                        analyze(self.ctx, r[0], "%s.%s(setter)" % (r[1], t.attr), fn, {pname: v})
                else:
                    self.ev(t)
        elif isinstance(s, (ast.AugAssign, ast.AnnAssign)):
            self.ev(s.value)
            if isinstance(s.target, ast.Name): self.env[s.target.id] = UNKNOWN
        elif isinstance(s, ast.Expr):
            self.ev(s.value)
        elif isinstance(s, ast.Return):
            self.returns.append(self.ev(s.value) if s.value is not None else const(None))
        elif isinstance(s, ast.If):
            t = self.truth(s.test)
            if t is True: self.block(s.body)
            elif t is False: self.block(s.orelse)
            else:
                e0 = dict(self.env)
                self.block(s.body); e1 = self.env
                self.env = dict(e0); self.block(s.orelse); e2 = self.env
                self.env = self.merge([e1, e2])
        elif isinstance(s, (ast.For, ast.While)):
            if isinstance(s, ast.For):
                self.ev(s.iter)
                for n in ast.walk(s.target):
                    if isinstance(n, ast.Name): self.env[n.id] = UNKNOWN
            else:
                self.truth(s.test)
            # names assigned in the loop are unknown at its head (second pass sees the merged state)
            e0 = dict(self.env)
            self.block(s.body)
            self.env = self.merge([e0, self.env])
            self.block(s.body)
            self.env = self.merge([e0, self.env])
            self.block(s.orelse)
        elif isinstance(s, ast.Try):
            e0 = dict(self.env)
            self.block(s.body); envs = [self.env]
            for h in s.handlers:
                self.env = self.merge([e0, envs[0]]); self.block(h.body); envs.append(self.env)
            self.env = self.merge(envs)
            self.block(s.orelse); self.block(s.finalbody)
        elif isinstance(s, ast.With):
            for it in s.items: self.ev(it.context_expr)
            self.block(s.body)
        elif isinstance(s, (ast.FunctionDef,)):
            # nested function in a live branch: its body is reachable
            sub = Frame(self.ctx, self.fkey, self.qual + "." + s.name, s, self.env)
            for a in s.args.args: sub.env[a.arg] = UNKNOWN
            sub.block(s.body)
            self.env[s.name] = UNKNOWN
        elif isinstance(s, (ast.Assert,)):
            self.ev(s.test)
        elif isinstance(s, ast.Raise):
            if s.exc is not None: self.ev(s.exc)
        elif isinstance(s, (ast.Pass, ast.Break, ast.Continue, ast.Import, ast.ImportFrom, ast.Global, ast.Nonlocal, ast.Delete)):
            if isinstance(s, (ast.Import, ast.ImportFrom)):
                for a in s.names:
                    if a.name.split(".")[0] in ("random", "secrets") or a.name in ("urandom",):
                        raise Unsupported("%s: local import of %s" % (self.where(s), a.name))
        else:
            raise Unsupported("%s: statement %s not handled" % (self.where(s), type(s).__name__))


def analyze(ctx, fkey, qual, fn, env):
    key = (fkey, qual, tuple(sorted((k, v) for k, v in env.items() if v != UNKNOWN)))
    if key in ctx.memo:
        return ctx.memo[key]
    if key in ctx.stack:
        return UNKNOWN            # recursion: the sites of the cycle are collected by the outer visit
    ctx.stack.append(key)
    ctx.visited_funcs.add("%s.%s" % (fkey, qual))
    fr = Frame(ctx, fkey, "%s.%s" % (fkey, qual), fn, env)
    fr.block(fn.body)
    ctx.stack.pop()
    rets = set(fr.returns)
    out = rets.pop() if len(rets) == 1 else UNKNOWN
    ctx.memo[key] = out
    return out


# ------------------------------------------------------------------ the mean of simulate_param / solve_determ
MEAN_STACK = ["np.dstack({L}).mean(axis=2)", "np.mean(np.dstack({L}), axis=2)", "np.array({L}).mean(axis=0)",
              "np.mean(np.array({L}), axis=0)", "np.mean({L}, axis=0)", "np.stack({L}).mean(axis=0)",
              "np.stack({L}, axis=0).mean(axis=0)", "np.asarray({L}).mean(axis=0)", "np.dstack({L}).mean(2)",
              "np.dstack({L}).mean(axis=-1)"]


def mean_facts(ctx, name):
    fn = ctx.methods[("simulate", "SimulateOde", name)]
    body = fn.body
    last, prev = body[-1], body[-2]
    if not (isinstance(last, ast.If) and ast.unparse(last.test) == "full_output" and len(last.body) == 1
            and len(last.orelse) == 1 and isinstance(last.body[0], ast.Return) and isinstance(last.orelse[0], ast.Return)):
        raise Unsupported("%s: does not end with `if full_output: return ... else: return ...`" % name)
    full, short = last.body[0].value, last.orelse[0].value
    if not (isinstance(full, ast.Tuple) and len(full.elts) == 2 and all(isinstance(e, ast.Name) for e in full.elts)
            and isinstance(short, ast.Name) and short.id == full.elts[0].id):
        raise Unsupported("%s: returns %s / %s" % (name, ast.unparse(full), ast.unparse(short)))
    Y, L = full.elts[0].id, full.elts[1].id
    if not (isinstance(prev, ast.Assign) and len(prev.targets) == 1 and ast.unparse(prev.targets[0]) == Y):
        raise Unsupported("%s: statement before the return is not the assignment of %s" % (name, Y))
    rhs = ast.unparse(prev.value)
    if rhs in [m.format(L=L) for m in MEAN_STACK]:
        form = "MeanStackRunsAxis"
    elif rhs in ("sum(%s) / len(%s)" % (L, L), "np.sum(%s, axis=0) / len(%s)" % (L, L)):
        form = "SumDivLen"
    elif rhs in ("sum(%s) / iteration" % L, "np.sum(%s, axis=0) / iteration" % L):
        form = "RunningSumDivIter"
    else:
        raise Unsupported("%s: reported mean computed by unrecognised expression %s" % (name, rhs))
    # the serial branch: where is L assigned when parallel is False
    par = [s for s in body if isinstance(s, ast.If) and ast.unparse(s.test) == "parallel"]
    if len(par) != 1:
        raise Unsupported("%s: expected one `if parallel:` statement" % name)
    ser = par[0].orelse
    if not (len(ser) == 1 and isinstance(ser[0], ast.Assign) and ast.unparse(ser[0].targets[0]) == L):
        raise Unsupported("%s: serial branch is not a single assignment of %s" % (name, L))
    r = ast.unparse(ser[0].value)
    if not re.fullmatch(r"\[self\.integrate\(t\) for (\w+) in range\(iteration\)\]", r):
        raise Unsupported("%s: serial branch builds the runs by %s" % (name, r))
    # nothing between `if parallel` and the mean touches L or Y
    i0 = body.index(par[0])
    for s in body[i0 + 1:-2]:
        raise Unsupported("%s: unexpected statement between the runs and the mean: %s" % (name, ast.unparse(s)[:60]))
    return form, "RunsRangeIteration", rhs


# ------------------------------------------------------------------ entry
def coq_source(s):
    if s == GLOBAL: return "Global"
    if s == FRESH: return "FreshEntropy"
    return 'SeededFrom "%s"' % s[1].replace('"', "'")


def coq_str(s):
    return '"%s"' % s.replace('"', "'")


def source_facts(ctx):
    P = lambda n: ("param", n)
    entries = [
        ("solve_stochast", dict(t=P("t"), iteration=P("iteration"), parallel=const(False), exact=P("exact"),
                                full_output=P("full_output"))),
        ("simulate_param", dict(t=P("t"), iteration=P("iteration"), parallel=const(False), full_output=P("full_output"))),
        ("solve_determ", dict(t=P("t"), iteration=P("iteration"), parallel=const(False), full_output=P("full_output"))),
    ]
    for name, env in entries:
        fn = ctx.methods.get(("simulate", "SimulateOde", name))
        if fn is None:
            raise Unsupported("SimulateOde.%s not found" % name)
        analyze(ctx, "simulate", "SimulateOde." + name, fn, env)
    # the parameters setter on its own (first assignment of random parameters by the user)
    r = ctx.resolve_method("parameters.setter")
    if r is None:
        raise Unsupported("parameters setter not found")
    analyze(ctx, r[0], "%s.parameters(setter)" % r[1], r[2], {r[2].args.args[1].arg: P("parameters")})
    serial = list(ctx.sites)
    must = {"simulate.SimulateOde._jump", "stochastic_simulation.firstReaction", "stochastic_simulation.tauLeap",
            "deterministic.DeterministicOde.integrate", "base_ode_model.BaseOdeModel.parameters(setter)"}
    missing = sorted(must - ctx.visited_funcs)
    if missing:
        raise Unsupported("expected functions not reached from the serial entry points: %s" % ", ".join(missing))
    if not serial:
        raise Unsupported("no draw site found on the serial paths")
    # the r* samplers of pygom.utilR as used in (sampler, args) tuples: called as sampler(1, *args), seed left at None
    ctx.sites, ctx.seen = [], set()
    rfun = []
    for (k, nm), fn in sorted(ctx.funcs.items()):
        args = [a.arg for a in fn.args.args]
        if k == "distn" and re.fullmatch(r"r[a-z0-9]+", nm) and args and args[0] == "n":
            env = {a: UNKNOWN for a in args}
            for a, d in zip(args[len(args) - len(fn.args.defaults):], fn.args.defaults):
                env[a] = Frame.ev_default(d)
            env["n"] = const(1)            # the setter calls  sampler(1, *args) / sampler(1, **kwargs)
            if "seed" in env and env["seed"] != const(None):
                raise Unsupported("distn.%s: default seed is not None" % nm)
            n0 = len(ctx.sites)
            analyze(ctx, k, nm, fn, env)
            rfun.append((nm, len(ctx.sites) - n0))
    samplers = list(ctx.sites)
    # Cython kernel called from tauLeap: plain text scan
    pyx = os.path.join(SRC, "model", "_tau_leap.pyx")
    if os.path.exists(pyx):
        txt = open(pyx).read()
        m = re.search(r"(rand|urandom|time\()", txt)
        if m:
            raise Unsupported("_tau_leap.pyx mentions %s" % m.group(1))
    return serial, samplers, rfun, sorted(ctx.visited_funcs)


HEAD = "From Coq Require Import List String Bool.\nFrom PV Require Import Repro.\nImport ListNotations.\nOpen Scope string_scope.\n"


def guarded(f, *a):
    try:
        return f(*a), None
    except (Unsupported, ValueError, TypeError, IndexError, KeyError, AttributeError, AssertionError, RecursionError) as u:   # any surprise in the source = fail closed
        return None, str(u)
    except Exception as e:       # any crash of the interpreter is a translator failure, never a guess
        return None, "internal: %r" % (e,)


def generate():
    lines = ["(* GENERATED from simulate.py, deterministic.py, base_ode_model.py, stochastic_simulation.py, utilR/distn.py *)", HEAD]
    ctx, err0 = guarded(Ctx)
    src, err = guarded(source_facts, ctx) if ctx is not None else (None, err0)
    pairs = lambda l: ";\n".join("  (%s, %s)" % (coq_str(a), coq_source(b)) for a, b in l)
    if src is None:
        lines += ["(* sources: translator failed closed: %s *)" % err.replace("*)", "* )"),
                  "Definition sources_ok := false.",
                  "Definition sources : list (string * source) := [(\"translator failed\", FreshEntropy)].",
                  "Definition sampler_sources : list (string * source) := []."]
    else:
        serial, samplers, rfun, visited = src
        lines += ["Definition sources_ok := true.",
                  "(* draw sites reachable from solve_stochast / simulate_param / solve_determ with parallel=False and from the",
                  "   parameters setter; functions visited: %d *)" % len(visited),
                  "Definition sources : list (string * source) := [", pairs(serial), "].",
                  "(* pygom.utilR r* samplers called as sampler(1, *args) (seed left at its default None): %s *)"
                  % ", ".join("%s:%d" % x for x in rfun),
                  "Definition sampler_sources : list (string * source) := [", pairs(samplers), "]."]
    means, err = guarded(lambda: {n: mean_facts(ctx, n) for n in ("simulate_param", "solve_determ")}) if ctx is not None else (None, err0)
    if means is None:
        lines += ["(* mean: translator failed closed: %s *)" % err.replace("*)", "* )"),
                  "Definition mean_ok := false.",
                  "Definition mean_forms : list (string * mean_form) := [(\"translator failed\", MeanUnknown)].",
                  "Definition runs_forms : list (string * runs_form) := [(\"translator failed\", RunsUnknown)]."]
    else:
        lines += ["Definition mean_ok := true.",
                  "Definition mean_forms : list (string * mean_form) := [%s]." %
                  "; ".join("(%s, %s)" % (coq_str("%s: %s" % (n, m[2])), m[0]) for n, m in sorted(means.items())),
                  "Definition runs_forms : list (string * runs_form) := [%s]." %
                  "; ".join("(%s, %s)" % (coq_str(n), m[1]) for n, m in sorted(means.items()))]
    lines.append("Definition translator_ok := sources_ok && mean_ok.")
    return "\n".join(lines) + "\n"


if __name__ == "__main__":
    print(generate())
