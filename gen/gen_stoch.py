"""C04/C11 translator: stochastic_simulation._checkJump, _updateStateWithJump, _newJumpTimes, firstReaction
-> coq/Gen/StochGen.v (a Gallina function for the per-state limit test + facts), fail-closed."""
import ast
from pyast import *

REL = "model/stochastic_simulation.py"


def tr_test(e, xnew, idx):
    """boolean test over x_min, x_max and x_new[i] -> Coq bool expression over (x_min x_max : option Qc) (v : Qc)"""
    if isinstance(e, ast.BoolOp):
        op = " || " if isinstance(e.op, ast.Or) else " && "
        return "(" + op.join(tr_test(v, xnew, idx) for v in e.values) + ")"
    if isinstance(e, ast.Compare) and len(e.ops) == 1:
        l, r, op = e.left, e.comparators[0], e.ops[0]
        ls, rs = ast.unparse(l), ast.unparse(r)
        if isinstance(op, (ast.Is, ast.IsNot)) and rs == "None" and ls in ("x_min", "x_max"):
            s = "is_none %s" % ls
            return s if isinstance(op, ast.Is) else "negb (%s)" % s
        v = "%s[%s]" % (xnew, idx)
        names = {ast.Gt: "ogt", ast.Lt: "olt", ast.GtE: "oge", ast.LtE: "ole"}
        flip = {ast.Gt: ast.Lt, ast.Lt: ast.Gt, ast.GtE: ast.LtE, ast.LtE: ast.GtE}
        if ls == v and rs in ("x_min", "x_max") and type(op) in names:
            return "%s v %s" % (names[type(op)], rs)
        if rs == v and ls in ("x_min", "x_max") and type(op) in names:
            return "%s v %s" % (names[flip[type(op)]], ls)
    raise Unsupported("test " + ast.unparse(e))


def tr_block(stmts, flag, xnew, idx):
    """a block whose only effect is possibly `flag = True` -> Coq bool (does this block set the flag?)"""
    out = "false"
    parts = []
    for s in stmts:
        if isinstance(s, ast.Assign) and ast.unparse(s.targets[0]) == flag:
            if ast.unparse(s.value) != "True":
                raise Unsupported("flag assigned " + ast.unparse(s.value))
            parts.append("true")
        elif isinstance(s, ast.Assign) and ast.unparse(s.targets[0]) in ("x_min", "x_max"):
            want = {"x_min": "x_lim[0]", "x_max": "x_lim[1]"}[ast.unparse(s.targets[0])]
            if ast.unparse(s.value) != want:
                raise Unsupported("%s bound to %s" % (ast.unparse(s.targets[0]), ast.unparse(s.value)))
        elif isinstance(s, ast.If):
            parts.append("(if %s then %s else %s)" % (tr_test(s.test, xnew, idx), tr_block(s.body, flag, xnew, idx),
                                                       tr_block(s.orelse, flag, xnew, idx)))
        elif isinstance(s, ast.Pass):
            pass
        else:
            raise Unsupported("statement in limit test: " + ast.unparse(s)[:80])
    if not parts:
        return "false"
    return "(" + " || ".join(parts) + ")"


def gen_check_jump():
    f = find_function(REL, "_checkJump")
    args = [a.arg for a in f.args.args]
    if args != ["x", "x_new", "x_lims", "t", "jump_time", "jumps"]:
        raise Unsupported("_checkJump signature %s" % args)
    body = [s for s in f.body if not (isinstance(s, ast.Expr) and isinstance(s.value, ast.Constant))]
    if not (isinstance(body[0], ast.Assign) and ast.unparse(body[0]) == "failed_jump = False"):
        raise Unsupported("flag initialisation")
    loop = body[1]
    if not (isinstance(loop, ast.For) and ast.unparse(loop.iter) == "enumerate(x_lims)" and ast.unparse(loop.target) == "(i, x_lim)"):
        raise Unsupported("limit loop header")
    if len(loop.body) != 1 or not isinstance(loop.body[0], ast.If) or loop.body[0].orelse:
        raise Unsupported("limit loop body")
    guard = ast.unparse(loop.body[0].test)
    if guard not in ("x_lim != (None, None)",):
        raise Unsupported("limit guard " + guard)
    fn = "(if negb (is_none x_min && is_none x_max) then %s else false)" % tr_block(loop.body[0].body, "failed_jump", "x_new", "i")
    fin = body[2]
    if not (isinstance(fin, ast.If) and ast.unparse(fin.test) == "failed_jump" and len(body) == 4 and isinstance(body[3], ast.Return)):
        raise Unsupported("tail of _checkJump")
    if ast.unparse(body[3].value) != "(t_new, jump_time, x_new, jumps, success)":
        raise Unsupported("return " + ast.unparse(body[3].value))
    def assigns(stmts):
        d = {}
        for s in stmts:
            if isinstance(s, ast.Assign):
                d[ast.unparse(s.targets[0])] = ast.unparse(s.value)
            elif isinstance(s, ast.Expr) and isinstance(s.value, ast.Call) and ast.unparse(s.value.func) == "print":
                pass
            else:
                raise Unsupported("statement " + ast.unparse(s)[:60])
        return d
    rej, acc = assigns(fin.body), assigns(fin.orelse)
    if rej.get("success") != "False" or acc.get("success") != "True":
        raise Unsupported("success flags")
    reject_keeps = rej.get("x_new") == "x" and rej.get("t_new") == "t"
    accept_adds = acc.get("t_new") in ("t + jump_time", "jump_time + t") and "x_new" not in acc
    return fn, reject_keeps, accept_adds


def gen_update():
    f = find_function(REL, "_updateStateWithJump")
    rets = [n for n in ast.walk(f) if isinstance(n, ast.Return)]
    if len(rets) != 1:
        raise Unsupported("_updateStateWithJump returns")
    s = ast.unparse(rets[0].value)
    if s in ("x + state_change_mat[:, transition_index] * n", "x + n * state_change_mat[:, transition_index]"):
        return True
    if s in ("x - state_change_mat[:, transition_index] * n",):
        return False
    raise Unsupported("_updateStateWithJump returns " + s)


def gen_jump_times():
    f = find_function(REL, "_newJumpTimes")
    src = [ast.unparse(s) for s in f.body if not (isinstance(s, ast.Expr) and isinstance(s.value, ast.Constant))]
    if src == ["tau = [rexp(1, r, seed=seed) if r > 0 else np.inf for r in rates]", "return np.array(tau)"]:
        return True
    if src == ["tau = [rexp(1, r, seed=seed) if r != 0 else np.inf for r in rates]", "return np.array(tau)"]:
        return False
    raise Unsupported("_newJumpTimes body " + " ; ".join(src))


def gen_first_reaction():
    f = find_function(REL, "firstReaction")
    src = [ast.unparse(s) for s in f.body if not (isinstance(s, ast.Expr) and isinstance(s.value, ast.Constant))]
    want = ["changes = state_change_mat(x, t)", "rates = transition_func(x, t)",
            "if all(rates == 0):\n    return (0, 0, 0, 0, False)",
            "jump_times = _newJumpTimes(rates, seed=seed)",
            "if np.all(jump_times == np.inf):\n    return (x, t, False)",
            "min_index = np.argmin(jump_times)",
            "new_x = _updateStateWithJump(x, min_index, changes)",
            "jumps = [0] * len(rates)", "jumps[min_index] = 1",
            "return _checkJump(x, new_x, x_lims, t, jump_times[min_index], jumps)"]
    if src != want:
        diff = [a for a, b in zip(src, want) if a != b][:1] or src[len(want):][:1] or ["(shorter)"]
        raise Unsupported("firstReaction differs from the modelled form at: " + diff[0][:120])
    return True


def gen_vmat_mat():
    """SimulateOde.__init__ registers vMat as a matrix (not shape-dependent vector)"""
    f = find_method("model/simulate.py", "SimulateOde", "__init__")
    for n in ast.walk(f):
        if isinstance(n, ast.Call) and ast.unparse(n.func) == "self.add_func" and n.args and ast.unparse(n.args[0]) == "'vMat'":
            for k in n.keywords:
                if k.arg == "oT":
                    return ast.unparse(k.value).strip("'\"").lower() == "mat"
            return len(n.args) >= 3 and ast.unparse(n.args[2]).strip("'\"").lower() == "mat"
    raise Unsupported("add_func('vMat', ...) not found")


DEFAULTS = ("Definition gen_failed_one (x_min x_max : option Qc) (v : Qc) : bool := true.\n"
            "Definition reject_keeps := false.\nDefinition accept_adds_dt := false.\nDefinition update_plus := false.\n"
            "Definition clock_guard_positive := false.\nDefinition argmin_first := false.\nDefinition vmat_is_matrix := false.\n")
HEAD = "From Coq Require Import Bool QArith Qcanon.\nFrom PV Require Import Stoch.\n"


def generate():
    try:
        fn, rk, aa = gen_check_jump()
        up = gen_update()
        cg = gen_jump_times()
        fr = gen_first_reaction()
        vm = gen_vmat_mat()
        return (HEAD + "(* GENERATED from stochastic_simulation.py / simulate.py *)\nDefinition translator_ok := true.\n"
                "Definition gen_failed_one (x_min x_max : option Qc) (v : Qc) : bool :=\n  %s.\n" % fn +
                "Definition reject_keeps := %s.\nDefinition accept_adds_dt := %s.\nDefinition update_plus := %s.\n"
                "Definition clock_guard_positive := %s.\nDefinition argmin_first := %s.\nDefinition vmat_is_matrix := %s.\n"
                % tuple(coq_bool(b) for b in (rk, aa, up, cg, fr, vm)))
    except (Unsupported, ValueError, TypeError, IndexError, KeyError, AttributeError, AssertionError, RecursionError) as u:   # any surprise in the source = fail closed
        return HEAD + failed("StochGen", str(u)) + DEFAULTS


if __name__ == "__main__":
    print(generate())
