"""C01/C10/C12 translator: the assembly loops of pygom -> accumulation tables in coq/Gen/AssemblyGen.v.

Loops handled (fail-closed on anything else):
  DeterministicOde.get_ode_eqn, BaseOdeModel.get_StateChangeMatrix, get_EventRateVector, get_pureOdeVector.
Each `acc[row(,col)] op= value` statement inside `for event` / `for transition` / `if transition_type == X`
becomes an entry (type, accumulator id, row selector, column selector, op, value selector).
"""
import ast
from pyast import *

VAL_ATTR = {'event.rate': 'Rate', 'transition._magnitude': 'Mag', 'ode.equation': 'Eqn'}
IDX_ATTR = {'transition.origin': 'Orig', 'transition.destination': 'Dest', 'ode.origin': 'OdeOrig'}
TY_PREFIX = 'transition.transition_type == TransitionType.'


class Extract:
    def __init__(self, fn):
        self.fn = fn
        self.env = {}        # local name -> symbolic meaning
        self.entries = []    # transition-scope entries
        self.ode_entries = []
        self.ev_entries = []
        self.set_entries = []    # transition scope, `M[row, event_index] = 1`
        self.accs = {}       # accumulator expression -> id
        self.alias = {}      # attribute -> expression string
        self.ret = None
        self.post = None

    def acc_id(self, name):
        if name not in self.accs:
            raise Unsupported("write to undeclared accumulator " + name)
        return self.accs[name]

    def val(self, e):
        if isinstance(e, ast.Name):
            if e.id in self.env and self.env[e.id] in ('Rate', 'Mag', 'MagRate', 'Eqn', 'One'):
                return self.env[e.id]
            raise Unsupported("unknown value name " + e.id)
        if isinstance(e, ast.Constant) and e.value == 1:
            return 'One'
        if isinstance(e, ast.Call) and getattr(e.func, 'id', None) == 'checkEquation':
            if len(e.args) != 2 or ast.unparse(e.args[1]) != '*self._getListOfVariablesDict()' or e.keywords:
                raise Unsupported("checkEquation called with unexpected arguments: " + ast.unparse(e))
            a = attr_chain(e.args[0])
            if a in VAL_ATTR:
                return VAL_ATTR[a]
            raise Unsupported("checkEquation of " + a)
        if isinstance(e, ast.BinOp) and isinstance(e.op, ast.Mult):
            l, r = self.val(e.left), self.val(e.right)
            if {l, r} == {'Mag', 'Rate'}:
                return 'MagRate'
            raise Unsupported("product %s*%s" % (l, r))
        raise Unsupported("value " + ast.unparse(e))

    def idx(self, e):
        if isinstance(e, ast.Name) and e.id in self.env and self.env[e.id] in ('Orig', 'Dest', 'EvIdx', 'OdeOrig'):
            return self.env[e.id]
        if isinstance(e, ast.Call) and isinstance(e.func, ast.Attribute) and attr_chain(e.func) == 'self.state_list.index' \
                and len(e.args) == 1 and not e.keywords:
            a = attr_chain(e.args[0])
            if a in IDX_ATTR:
                return IDX_ATTR[a]
        raise Unsupported("index " + ast.unparse(e))

    def stmts(self, body, scope):
        for s in body:
            self.stmt(s, scope)

    def stmt(self, s, scope):
        if isinstance(s, ast.Expr) and isinstance(s.value, ast.Constant):
            return
        if isinstance(s, ast.Assign) and len(s.targets) == 1:
            t = s.targets[0]
            if isinstance(s.value, ast.Call) and isinstance(s.value.func, ast.Attribute) \
                    and attr_chain(s.value.func) in ('sympy.zeros', 'np.zeros'):
                if scope:
                    raise Unsupported("accumulator created inside a loop")
                self.accs[attr_chain(t)] = len(self.accs)
                return
            if isinstance(t, ast.Name):
                try:
                    self.env[t.id] = self.val(s.value)
                except Unsupported:
                    self.env[t.id] = self.idx(s.value)
                return
            if isinstance(t, ast.Subscript):
                self.entry(t, 'Set', s.value, scope)
                return
            if isinstance(t, ast.Attribute):
                self.alias[attr_chain(t)] = s.value
                return
            if isinstance(t, ast.Tuple):
                raise Unsupported("tuple assignment outside the post-processing loop")
        if isinstance(s, ast.AugAssign) and isinstance(s.target, ast.Subscript):
            op = {ast.Add: 'Add', ast.Sub: 'Sub'}.get(type(s.op))
            if op is None:
                raise Unsupported("augmented op")
            self.entry(s.target, op, s.value, scope)
            return
        if isinstance(s, ast.For):
            it = ast.unparse(s.iter)
            tg = ast.unparse(s.target)
            if not scope and it == 'self.event_list' and tg == 'event':
                return self.stmts(s.body, ['event'])
            if not scope and it == 'enumerate(self.event_list)' and isinstance(s.target, ast.Tuple) \
                    and len(s.target.elts) == 2 and ast.unparse(s.target.elts[1]) == 'event':
                self.env[s.target.elts[0].id] = 'EvIdx'
                return self.stmts(s.body, ['event'])
            if scope == ['event'] and it == 'event.transition_list' and tg == 'transition':
                return self.stmts(s.body, ['event', 'transition'])
            if not scope and it == 'self.ode_list' and tg == 'ode':
                return self.stmts(s.body, ['ode'])
            if not scope and it == 'enumerate(self._ode)':
                self.post = s
                return
            raise Unsupported("for over " + it)
        if isinstance(s, ast.If):
            if scope[:2] != ['event', 'transition']:
                raise Unsupported("if outside the transition loop")
            t = ast.unparse(s.test)
            if not t.startswith(TY_PREFIX) or t[len(TY_PREFIX):] not in ('B', 'D', 'T'):
                raise Unsupported("if " + t)
            if any(x.startswith('ty=') for x in scope):
                raise Unsupported("nested type test")
            self.stmts(s.body, scope + ['ty=' + t[len(TY_PREFIX):]])
            if s.orelse:
                self.stmts(s.orelse, scope)
            return
        if isinstance(s, ast.Return):
            self.ret = s.value
            return
        raise Unsupported("statement " + ast.unparse(s)[:100])

    def entry(self, target, op, value, scope):
        acc = self.acc_id(attr_chain(target.value))
        sl = target.slice
        if isinstance(sl, ast.Tuple):
            if len(sl.elts) != 2:
                raise Unsupported("subscript arity")
            row, col = self.idx(sl.elts[0]), self.idx(sl.elts[1])
        else:
            row, col = self.idx(sl), None
        v = self.val(value)
        tys = [x[3:] for x in scope if x.startswith('ty=')]
        if scope[:2] == ['event', 'transition']:
            if not tys:
                raise Unsupported("accumulator update in the transition loop outside a type test")
            if row not in ('Orig', 'Dest') or col not in (None, 'EvIdx') or v == 'Eqn':
                raise Unsupported("transition-scope entry %s/%s/%s/%s" % (row, col, op, v))
            # a birth has no origin, a death no destination: reading it would raise / be None in Python
            if (tys[0] == 'B' and row == 'Orig') or (tys[0] == 'D' and row == 'Dest'):
                raise Unsupported("%s branch reads transition.%s" % (tys[0], row))
            if op == 'Set':
                if v != 'One' or col != 'EvIdx':
                    raise Unsupported("assignment in the transition loop that is not `M[row, event] = 1`")
                self.set_entries.append((tys[0], acc, row))
            else:
                self.entries.append((tys[0], acc, row, col, op, v))
        elif scope == ['ode']:
            if row != 'OdeOrig' or col is not None:
                raise Unsupported("ode-scope entry row/col")
            self.ode_entries.append((acc, op, v))
        elif scope == ['event']:
            if row != 'EvIdx' or col is not None:
                raise Unsupported("event-scope entry row/col")
            self.ev_entries.append((acc, op, v))
        else:
            raise Unsupported("entry in scope %s" % scope)

    def resolve_sum(self, e):
        """expression that is a `+`-sum of accumulators (through self._x aliases / locals) -> list of acc ids"""
        if isinstance(e, ast.BinOp) and isinstance(e.op, ast.Add):
            return self.resolve_sum(e.left) + self.resolve_sum(e.right)
        name = attr_chain(e)
        if name in self.accs:
            return [self.accs[name]]
        if name in self.alias:
            return self.resolve_sum(self.alias[name])
        raise Unsupported("result term " + name)


def coq_entry(e):
    ty, acc, row, col, op, v = e
    return ("{| e_ty := %s; e_acc := %d; e_row := %s; e_col := %s; e_op := %s; e_val := %s |}"
            % (ty, acc, row, 'CNone' if col is None else 'CEv', 'O' + op, 'V' + v))


OPC = {'Add': 0, 'Sub': 1, 'Set': 2}
VALC = {'MagRate': 0, 'Mag': 1, 'Rate': 2, 'One': 3, 'Eqn': 4}


def scope_list(l):
    return "[" + "; ".join("(%d, %d, %d)" % (a, OPC[o], VALC[v]) for a, o, v in l) + "]"


def check_post(ex):
    """the post-processing loop of get_ode_eqn must leave every component unchanged"""
    s = ex.post
    if s is None:
        return True
    body = [b for b in s.body]
    ok_forms = ("self._ode[i], isDifficult = simplifyEquation(eqn)",
                "self._isDifficult = self._isDifficult or isDifficult")
    for b in body:
        u = ast.unparse(b)
        if isinstance(b, ast.If):
            # only raising is allowed inside
            if not all(isinstance(x, ast.Raise) for x in b.body) or b.orelse:
                raise Unsupported("post loop if-body is not a bare raise")
            continue
        if u not in ok_forms:
            raise Unsupported("post loop statement " + u)
    # simplifyEquation must return its argument in every branch
    f = find_function("model/_model_verification.py", "simplifyEquation")
    arg = f.args.args[0].arg
    for n in ast.walk(f):
        if isinstance(n, ast.Return):
            if not (isinstance(n.value, ast.Tuple) and len(n.value.elts) == 2
                    and isinstance(n.value.elts[0], ast.Name) and n.value.elts[0].id == arg):
                raise Unsupported("simplifyEquation returns " + ast.unparse(n.value))
    for n in ast.walk(f):
        if isinstance(n, (ast.Assign, ast.AugAssign)):
            tg = n.targets[0] if isinstance(n, ast.Assign) else n.target
            if isinstance(tg, ast.Name) and tg.id == arg:
                raise Unsupported("simplifyEquation reassigns its argument")
    return True


def extract(rel, cls, name):
    ex = Extract(find_method(rel, cls, name))
    ex.stmts(ex.fn.body, [])
    if ex.ret is None:
        raise Unsupported("%s has no return" % name)
    return ex


def generate():
    try:
        o = extract("model/deterministic.py", "DeterministicOde", "get_ode_eqn")
        ode_res = o.resolve_sum(o.ret)
        check_post(o)
        v = extract("model/base_ode_model.py", "BaseOdeModel", "get_StateChangeMatrix")
        v_res = v.resolve_sum(v.ret)
        r = extract("model/base_ode_model.py", "BaseOdeModel", "get_EventRateVector")
        r_res = r.resolve_sum(r.ret)
        p = extract("model/base_ode_model.py", "BaseOdeModel", "get_pureOdeVector")
        p_res = p.resolve_sum(p.ret)
        rm = extract("model/base_ode_model.py", "BaseOdeModel", "get_ReactantMatrix")
        rm_res = rm.resolve_sum(rm.ret)
        if rm.entries or rm.ode_entries or rm.ev_entries or rm.post is not None or len(rm_res) != 1 \
                or any(a != rm_res[0] for _, a, _ in rm.set_entries) or o.set_entries or v.set_entries:
            raise Unsupported("get_ReactantMatrix is not a pure `M[row, event] = 1` loop into the returned matrix")
        for ex, nm in ((v, 'vmat'), (r, 'rate'), (p, 'pure')):
            if ex.post is not None:
                raise Unsupported(nm + " has a post loop")
        if r.entries or p.entries or v.ode_entries or v.ev_entries or o.ev_entries or r.ode_entries or p.ev_entries:
            raise Unsupported("entries in an unexpected scope")
        nl = lambda xs: "[" + "; ".join(str(x) for x in xs) + "]"
        return "\n".join([
            "(* GENERATED from deterministic.py / base_ode_model.py: assembly loops *)",
            "From Coq Require Import List. Import ListNotations.",
            "From PV Require Import Assembly Reactant.",
            "Definition translator_ok := true.",
            "Definition reactant_tab : list sentry := [" + "; ".join("{| s_ty := %s; s_row := %s |}" % (t, rw) for t, _, rw in rm.set_entries) + "].",
            "Definition ode_tab : list entry := [" + ";\n  ".join(coq_entry(e) for e in o.entries) + "].",
            "Definition ode_res : list nat := %s." % nl(ode_res),
            "Definition ode_scope : list (nat * nat * nat) := %s." % scope_list(o.ode_entries),
            "Definition vmat_tab : list entry := [" + ";\n  ".join(coq_entry(e) for e in v.entries) + "].",
            "Definition vmat_res : list nat := %s." % nl(v_res),
            "Definition rate_scope : list (nat * nat * nat) := %s." % scope_list(r.ev_entries),
            "Definition rate_res : list nat := %s." % nl(r_res),
            "Definition pure_scope : list (nat * nat * nat) := %s." % scope_list(p.ode_entries),
            "Definition pure_res : list nat := %s." % nl(p_res),
            ""])
    except (Unsupported, ValueError, TypeError, IndexError, KeyError, AttributeError, AssertionError, RecursionError) as u:   # any surprise in the source = fail closed
        return (failed("AssemblyGen", str(u)) +
                "From Coq Require Import List. Import ListNotations.\nFrom PV Require Import Assembly Reactant.\n"
                "Definition reactant_tab : list sentry := [].\n"
                "Definition ode_tab : list entry := [].\nDefinition ode_res : list nat := [].\n"
                "Definition ode_scope : list (nat * nat * nat) := [].\nDefinition vmat_tab : list entry := [].\n"
                "Definition vmat_res : list nat := [].\nDefinition rate_scope : list (nat * nat * nat) := [].\n"
                "Definition rate_res : list nat := [].\nDefinition pure_scope : list (nat * nat * nat) := [].\n"
                "Definition pure_res : list nat := [].\n")


if __name__ == "__main__":
    print(generate())
