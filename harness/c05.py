"""C05 — exact stochastic simulation samples the continuous-time Markov chain's law.

Proof part   : coq/Props/C05.v over the clock rule extracted from the current source (gen/gen_clock.py).
Tie (K)      : ONE first-reaction step in lock-step — the real firstReaction (direct calls, and every step of
               solve_stochast(exact=True) on pygom models) against `step gen_cfg` run in Coq over exact dyadic rationals,
               fed with the same standard exponentials (numpy shadow stream).
Search       : (a) the same steps against an independent exact-rational statement of "earliest of e_i/r_i wins";
               (b) statistical tests (labelled as tests, never the proof): first-step joint law, occupancy of independent
               linear progression chains, SIR final size against the law computed inside Coq.
"""
import json, math, os, sys, threading, time
from fractions import Fraction
import numpy as np
import common
sys.path.insert(0, os.path.join(common.VERIF, "gen"))

ALPHA_TOTAL = 1e-8          # total false-alarm probability of all statistical tests of one run of the check
REL_DT = 1e-12              # tolerance on the time increment (pygom: e*(1.0/r), two roundings ~ 2.3e-16)
REL_GAP = 1e-9              # near-tie exclusion


# ====================================================================== numpy shadow stream
def shadow_fact():
    """rexp(1, r) == RandomState(s).standard_exponential() * (1.0/r) bit for bit, one draw per call"""
    from pygom.utilR.distn import rexp
    for s in (0, 1, 12345, 2**31 - 1):
        np.random.seed(s)
        sh = np.random.RandomState(s)
        for r in (0.3, 2.0, 17.5, 1e-3, 123456.7, 1.0, 7.0):
            a = rexp(1, r)
            b = sh.standard_exponential() * (1.0 / r)
            if a != b:
                return False
        if not same_state(np.random.get_state(), sh.get_state()):
            return False
    return True


def same_state(a, b):
    return a[0] == b[0] and a[2] == b[2] and np.array_equal(a[1], b[1]) and a[3:] == b[3:]


# ====================================================================== one step on the real code
def fr_direct(case):
    """call the real stochastic_simulation.firstReaction on synthetic callables; returns observation dict"""
    from pygom.model import stochastic_simulation as ss
    rates = np.array(case["rates"], dtype=float)
    V = np.array(case["V"], dtype=float)
    x = np.array(case["x"], dtype=float)
    lims = [(None, None)] * len(x)
    t = float(case["t"])
    try:
        if case.get("scripted") is not None:
            seq = list(case["scripted"])
            used = [0]

            def stub(n, rate=1.0, seed=None):
                e = seq[used[0]] if used[0] < len(seq) else 1.0
                used[0] += 1
                return e * (1.0 / rate)
            orig = ss.rexp
            ss.rexp = stub
            try:
                out = ss.firstReaction(x, lims, t, lambda x_, t_: V, lambda x_, t_: rates)
            finally:
                ss.rexp = orig
            draws = list(case["scripted"])
            aligned = used[0] == len(seq)
        else:
            s = int(case["seed"])
            np.random.seed(s)
            out = ss.firstReaction(x, lims, t, lambda x_, t_: V, lambda x_, t_: rates)
            sh = np.random.RandomState(s)
            npos = int(np.sum(rates > 0))
            draws = [float(sh.standard_exponential()) for _ in range(npos)]
            aligned = same_state(np.random.get_state(), sh.get_state())
    except Exception as e:      # noqa: B902
        return dict(ok=False, why="firstReaction raised %r" % (e,))
    if len(out) != 5:
        return dict(ok=False, why="firstReaction returned %d values" % len(out))
    t_new, dt, x_new, jumps, success = out
    if not success:
        return dict(ok=False, why="success flag is False")
    jumps = [int(j) for j in jumps]
    if not (math.isfinite(float(t_new)) and math.isfinite(float(dt))):
        return dict(ok=False, why="time step %r / new time %r is not finite" % (float(dt), float(t_new)))
    return dict(ok=bool(success), t_new=float(t_new), dt=float(dt), x_new=[float(v) for v in x_new], jumps=jumps,
                draws=draws, aligned=bool(aligned))


def oracle_step(t, rates, draws):
    """independent statement of the property's construction in exact rationals: clocks e_k / r_i for positive rates
    (k-th draw to the k-th positive rate), the earliest wins.  Returns (index, dt, gap) ; gap = relative distance of
    the runner-up"""
    k = 0
    clocks = []
    for r in rates:
        if r > 0:
            clocks.append(Fraction(draws[k]) / Fraction(r))
            k += 1
        else:
            clocks.append(None)
    fin = [(c, i) for i, c in enumerate(clocks) if c is not None]
    if not fin:
        return None
    best, bi = min(fin)
    others = [c for c, i in fin if i != bi]
    gap = min([abs(c - best) / best for c in others if c != best], default=None)
    winners = [i for c, i in fin if c == best]       # exact ties have probability zero: the law does not say who wins
    return winners, best, gap, Fraction(t) + best


def judge_step(t, rates, obs):
    """None when the observed step is the first reaction of its own draws, else a description"""
    if not obs["ok"]:
        return "firstReaction reported no success although some rate is positive: %s" % obs.get("why", "")
    if not obs["aligned"]:
        return None          # the shadow stream is not the stream the step used: nothing can be said (reported as a broken tie)
    o = oracle_step(t, rates, obs["draws"])
    if o is None:
        return None
    bi, best, gap, tn = o
    if gap is not None and gap < REL_GAP:
        return None                                   # near tie: float and exact ordering may differ
    if sum(obs["jumps"]) != 1 or len(obs["jumps"]) != len(rates):
        return "jumps %s is not a one-hot vector over the events" % obs["jumps"]
    i = obs["jumps"].index(1)
    if rates[i] <= 0:
        return "event %d fired although its rate is %r" % (i, rates[i])
    if i not in bi:
        return ("event %d fired, but the earliest exponential clock e_k/r_k of this step belongs to event %d "
                "(rates %s, standard exponentials %s)" % (i, bi[0], list(rates), obs["draws"]))
    if abs(Fraction(obs["dt"]) - best) > Fraction(REL_DT) * best:
        return ("time step %r is not the smallest clock %r = e/r of the firing event (rates %s)"
                % (obs["dt"], float(best), list(rates)))
    if abs(Fraction(obs["t_new"]) - tn) > Fraction(REL_DT) * (abs(Fraction(t)) + best):
        return "new time %r is not t + dt = %r" % (obs["t_new"], float(tn))
    return None


# ====================================================================== case generators
def gen_direct(rng):
    m = int(rng.integers(1, 7))
    ns = int(rng.integers(1, 5))
    kind = rng.random()
    if kind < 0.12:
        # very slow processes (a fine time unit): rates far below 1e-8 are still positive rates, the event must fire
        rates = [float(np.exp(rng.uniform(np.log(1e-13), np.log(1e-9)))) for _ in range(m)]
    elif kind < 0.7:
        rates = [float(np.exp(rng.uniform(np.log(1e-3), np.log(1e3)))) for _ in range(m)]
    elif kind < 0.85:
        rates = [float(rng.integers(1, 40)) for _ in range(m)]
    else:
        base = float(np.exp(rng.uniform(-2, 2)))
        rates = [base * float(rng.integers(1, 4)) for _ in range(m)]
    for i in range(m):
        if rng.random() < 0.2:
            rates[i] = 0.0
    if not any(r > 0 for r in rates):
        rates[int(rng.integers(0, m))] = float(rng.integers(1, 10))
    V = [[int(v) for v in row] for row in rng.integers(-2, 3, size=(ns, m))]
    x = [int(v) for v in rng.integers(0, 60, size=ns)]
    t = 0.0 if rng.random() < 0.3 else float(rng.uniform(0, 100))
    return dict(kind="direct", rates=rates, V=V, x=x, t=t, seed=int(rng.integers(0, 2**31 - 1)), scripted=None)


def gen_tie(rng):
    """exact ties from powers of two (float arithmetic exact): numpy's argmin must take the first index"""
    m = int(rng.integers(2, 6))
    rates = [float(2.0 ** int(rng.integers(-3, 4))) for _ in range(m)]
    c = float(2.0 ** int(rng.integers(-2, 3)))
    draws = [c * r for r in rates]                       # every clock = c
    for i in range(m):
        if rng.random() < 0.35:
            draws[i] *= 2.0                              # some strictly later clocks
    if rng.random() < 0.3:
        rates[int(rng.integers(0, m))] = 0.0
    if not any(r > 0 for r in rates):
        rates[0] = 1.0
    scripted = [d for d, r in zip(draws, rates) if r > 0]
    ns = 2
    V = [[int(v) for v in row] for row in rng.integers(-2, 3, size=(ns, m))]
    return dict(kind="tie", rates=rates, V=V, x=[5, 7], t=float(rng.integers(0, 8)), seed=None, scripted=scripted)


MODELS = {}


def build_models():
    import pg
    T, TT = pg.Transition, pg.TransitionType
    if MODELS:
        return MODELS
    MODELS["SIR"] = (lambda: pg.model(
        state=["S", "I", "R"], param=["beta", "gamma", "N"],
        transition=[T(origin="S", destination="I", equation="beta*S*I/N", transition_type=TT.T),
                    T(origin="I", destination="R", equation="gamma*I", transition_type=TT.T)]))
    MODELS["SEIR"] = (lambda: pg.model(
        state=["S", "E", "I", "R"], param=["beta", "alpha", "gamma", "N"],
        transition=[T(origin="S", destination="E", equation="beta*S*I/N", transition_type=TT.T),
                    T(origin="E", destination="I", equation="alpha*E", transition_type=TT.T),
                    T(origin="I", destination="R", equation="gamma*I", transition_type=TT.T)]))
    MODELS["BD"] = (lambda: pg.model(
        state=["X", "Y"], param=["b", "d", "c"],
        transition=[T(origin="X", destination="Y", equation="c*X", transition_type=TT.T)],
        birth_death=[T(origin="X", equation="b", transition_type=TT.B),
                     T(origin="X", equation="d*X", transition_type=TT.D),
                     T(origin="Y", equation="d*Y", transition_type=TT.D)]))
    for k in (2, 3, 4, 5):
        MODELS["CHAIN%d" % k] = (lambda k=k: pg.model(
            state=["X%d" % j for j in range(1, k + 1)], param=["r%d" % j for j in range(1, k)],
            transition=[T(origin="X%d" % j, destination="X%d" % (j + 1), equation="r%d*X%d" % (j, j),
                          transition_type=TT.T) for j in range(1, k)]))
    return MODELS


_cache = {}


def get_model(name):
    if name not in _cache:
        _cache[name] = build_models()[name]()
    return _cache[name]


def gen_path(rng):
    r = rng.random()
    q = lambda lo, hi: float(rng.integers(lo, hi)) / 4.0
    if r < 0.35:
        N = int(rng.integers(5, 60)); i0 = int(rng.integers(1, 4))
        return dict(kind="path", model="SIR", params=dict(beta=q(2, 14), gamma=q(1, 8), N=float(N)), x0=[N - i0, i0, 0],
                    T=float(rng.uniform(0.5, 6)), seed=int(rng.integers(0, 2**31 - 1)))
    if r < 0.55:
        N = int(rng.integers(5, 40)); i0 = int(rng.integers(1, 4))
        return dict(kind="path", model="SEIR", params=dict(beta=q(2, 14), alpha=q(1, 8), gamma=q(1, 8), N=float(N)),
                    x0=[N - i0, 0, i0, 0], T=float(rng.uniform(0.5, 6)), seed=int(rng.integers(0, 2**31 - 1)))
    if r < 0.75:
        return dict(kind="path", model="BD", params=dict(b=q(1, 20), d=q(1, 6), c=q(1, 6)),
                    x0=[int(rng.integers(0, 10)), int(rng.integers(0, 5))],
                    T=float(rng.uniform(0.5, 4)), seed=int(rng.integers(0, 2**31 - 1)))
    k = int(rng.integers(2, 6))
    return dict(kind="path", model="CHAIN%d" % k, params={"r%d" % j: q(1, 12) for j in range(1, k)},
                x0=[int(rng.integers(1, 25))] + [0] * (k - 1), T=float(rng.uniform(0.3, 3)),
                seed=int(rng.integers(0, 2**31 - 1)))


def run_path(case, iterations=2):
    """solve_stochast(T, iterations, exact=True) with the global generator seeded; every call of firstReaction is logged.
    returns list of step dicts (t, rates, obs) + list of python-side problems"""
    import pg
    from pygom.model import simulate
    m = get_model(case["model"])
    m.parameters = dict(case["params"])
    m.initial_values = (list(case["x0"]), np.float64(0))
    log, rl = [], []
    orig_fr = simulate.firstReaction
    orig_rate = m.eventRateVector

    def rate_wrap(x, t):
        r = orig_rate(x, t)
        rl.append(np.array(r, dtype=float).ravel().copy())
        return r

    def fr_wrap(x, x_lims, t, vmat, tfunc, seed=None):
        n0 = len(rl)
        out = orig_fr(x, x_lims, t, vmat, tfunc, seed=seed)
        log.append(dict(t=float(t), x=np.array(x, dtype=float).copy(), out=out, rates=rl[n0] if len(rl) > n0 else None,
                        ncalls=len(rl) - n0))
        return out
    s = int(case["seed"])
    np.random.seed(s)
    m.eventRateVector = rate_wrap
    simulate.firstReaction = fr_wrap
    err = None
    TT = []
    try:
        with pg.quiet():
            X, J, TT = m.solve_stochast(float(case["T"]), iterations, exact=True, full_output=True)
    except Exception as e:      # noqa: B902
        err = "solve_stochast(exact=True) raised %r" % (e,)
    finally:
        simulate.firstReaction = orig_fr
        m.eventRateVector = orig_rate
    sh = np.random.RandomState(s)
    steps, problems = [], []
    if err:
        return [], [err], False
    for L in log:
        out = L["out"]
        if L["rates"] is None or L["ncalls"] != 1:
            problems.append("firstReaction evaluated the rate vector %d times in one step" % L["ncalls"])
            continue
        rates = [float(v) for v in L["rates"]]
        if len(out) != 5 or not out[4]:
            if any(r > 0 for r in rates):
                problems.append("step at t=%r with rates %s did not succeed" % (L["t"], rates))
            continue
        npos = sum(1 for r in rates if r > 0)
        draws = [float(sh.standard_exponential()) for _ in range(npos)]
        obs = dict(ok=True, t_new=float(out[0]), dt=float(out[1]), x_new=[float(v) for v in out[2]],
                   jumps=[int(j) for j in out[3]], draws=draws, aligned=True)
        if not (math.isfinite(obs["t_new"]) and math.isfinite(obs["dt"])):
            obs = dict(ok=False, why="time step %r / new time %r is not finite" % (obs["dt"], obs["t_new"]))
        steps.append(dict(t=L["t"], rates=rates, obs=obs))
    misaligned = not same_state(np.random.get_state(), sh.get_state())
    if misaligned:
        for st in steps:
            if st["obs"].get("ok"):
                st["obs"]["aligned"] = False
    # the recorded times are the step results, in order, per iteration
    rec = [float(v) for T_ in TT for v in np.asarray(T_)[1:]]
    if all(st["obs"].get("ok") for st in steps) and rec != [st["obs"]["t_new"] for st in steps]:
        problems.append("times returned by solve_stochast are not the t_new of the successive firstReaction steps")
    return steps, problems, misaligned


# ====================================================================== Coq case files
def dy(x):
    n, d = float(x).as_integer_ratio()
    k = d.bit_length() - 1
    return "(dy (%d) (%d))" % (n, -k)


def coq_case(t, rates, obs):
    idx = obs["jumps"].index(1) if sum(obs["jumps"]) == 1 else 9999
    return ("(Build_kcase %s [%s] [%s] %d%%nat %s %s)"
            % (dy(t), "; ".join(dy(r) for r in rates), "; ".join(dy(e) for e in obs["draws"]), idx,
               dy(obs["dt"]), dy(obs["t_new"])))


COQ_HEAD = """From Coq Require Import List ZArith QArith Qcanon.
From PV Require Import FirstReaction Gen.ClockGen ClockTie.
Import ListNotations. Open Scope Z_scope.
"""


# ====================================================================== exact tails (statistical tests)
def _tail_sum(c, n, p, up):
    """sum of the binomial pmf from c outwards (upwards if up else downwards), c on the far side of the mean so that
    the terms decrease; mpmath, 30 digits, log-gamma for the first term and the exact term ratio afterwards"""
    import mpmath as mp
    mp.mp.dps = 30
    P, Q = mp.mpf(p), 1 - mp.mpf(p)
    term = mp.exp(mp.loggamma(n + 1) - mp.loggamma(c + 1) - mp.loggamma(n - c + 1) + c * mp.log(P) + (n - c) * mp.log(Q))
    first = term
    total = term
    k = c
    while (k < n) if up else (k > 0):
        if up:
            term = term * (n - k) / (k + 1) * P / Q
            k += 1
        else:
            term = term * k / (n - k + 1) * Q / P
            k -= 1
        total += term
        if term < total * mp.mpf(10) ** -35:
            break
    return total, first


def binom_tails(c, n, p):
    """(P(X <= c), P(X >= c)) for X ~ Binomial(n, p), exact: scipy when both are far above any rejection level,
    else direct summation of the far tail in 30-digit arithmetic (no normal approximation anywhere)"""
    from scipy import stats
    if p <= 0.0:
        return (1.0, 1.0 if c == 0 else 0.0)
    if p >= 1.0:
        return (1.0 if c == n else 0.0, 1.0)
    lo = float(stats.binom.cdf(c, n, p))
    hi = float(stats.binom.sf(c - 1, n, p))
    if min(lo, hi) > 1e-5:
        return lo, hi
    if c >= n * p:
        h, f = _tail_sum(c, n, p, True)
        return float(1 - h + f), float(h)
    l, f = _tail_sum(c, n, p, False)
    return float(l), float(1 - l + f)


def log_types(n, k):
    """ln of the number of types C(n+k-1, k-1)"""
    return math.lgamma(n + k) - math.lgamma(k) - math.lgamma(n + 1)


class Stat:
    """collects exact binomial cell tests and G-tests; the Bonferroni split is applied at the end"""

    def __init__(self):
        self.tests = []      # dict(name, kind, p_value, detail, replay)

    def cell(self, name, count, n, p, replay):
        lo, hi = binom_tails(int(count), int(n), float(p))
        self.tests.append(dict(name=name, kind="binomial", pv=2 * min(lo, hi), detail=dict(count=int(count), n=int(n), p=float(p),
                               expected=float(n * p)), replay=replay))

    def gtest(self, name, counts, probs, replay):
        n = int(sum(counts))
        # pool cells with expectation < 5 into one
        big = [(c, p) for c, p in zip(counts, probs) if n * p >= 5]
        small = [(c, p) for c, p in zip(counts, probs) if n * p < 5]
        if small:
            big.append((sum(c for c, _ in small), sum(p for _, p in small)))
        big = [(c, p) for c, p in big if p > 0 or c > 0]
        k = len(big)
        if k < 2:
            return
        G = 0.0
        X2 = 0.0
        for c, p in big:
            if p <= 0:
                G = float("inf"); X2 = float("inf"); break
            if c > 0:
                G += 2.0 * c * math.log(c / (n * p))
            X2 += (c - n * p) ** 2 / (n * p)
        # non-asymptotic bound (method of types): P(G >= g) <= C(n+k-1,k-1) exp(-g/2)
        logp = log_types(n, k) - G / 2.0
        from scipy import stats
        self.tests.append(dict(name=name, kind="G", pv=math.exp(min(0.0, logp)),
                               detail=dict(G=G, pearson_X2=X2, df=k - 1, cells=k, n=n,
                                           nominal_chi2_p=float(stats.chi2.sf(X2, k - 1))), replay=replay))

    def verdicts(self):
        M = max(1, len(self.tests))
        a = ALPHA_TOTAL / M
        return a, [t for t in self.tests if t["pv"] < a]


# ---------------------------------------------------------------------- test 1: first step, joint law
def first_step_sample(cfg):
    from pygom.model import stochastic_simulation as ss
    rates = np.array(cfg["rates"], dtype=float)
    m = len(rates)
    V = np.zeros((1, m))
    x = np.array([1.0])
    lims = [(None, None)]
    vf = lambda x_, t_: V
    rf = lambda x_, t_: rates
    np.random.seed(int(cfg["seed"]))
    t0 = float(cfg["t"])
    n = int(cfg["n"])
    idx = np.empty(n, dtype=int)
    dt = np.empty(n)
    for k in range(n):
        out = ss.firstReaction(x, lims, t0, vf, rf)
        idx[k] = int(np.argmax(out[3]))
        dt[k] = out[0] - t0
    return idx, dt


def first_step_test(st, cfg):
    idx, dt = first_step_sample(cfg)
    rates = np.array(cfg["rates"], dtype=float)
    Rt = float(rates.sum())
    B = int(cfg["bins"])
    # equiprobable bins of Exp(Rt): edges t_b = -ln(1 - b/B)/Rt ; by C05_select each (event i, bin b) has probability
    # (r_i/Rt) * 1/B
    edges = [-math.log(1.0 - b / B) / Rt for b in range(B)] + [math.inf]
    which = np.searchsorted(np.array(edges[1:-1]), dt, side="right")
    n = len(dt)
    counts = np.zeros((len(rates), B), dtype=int)
    for i, b in zip(idx, which):
        counts[i, b] += 1
    for i, r in enumerate(rates):
        for b in range(B):
            st.cell("first-step event %d bin %d" % (i, b), counts[i, b], n, (r / Rt) / B, cfg)
    st.gtest("first-step joint", counts.ravel().tolist(), [(r / Rt) / B for r in rates for _ in range(B)], cfg)
    return dict(mean_dt=float(dt.mean()), expected_mean_dt=1.0 / Rt,
                freq=[float(np.mean(idx == i)) for i in range(len(rates))], expected_freq=[float(r / Rt) for r in rates])


# ---------------------------------------------------------------------- test 2: linear progression chains
def chain_probs(rates, T):
    """occupancy probabilities of one individual started in X1 at time T: first row of expm(Q T) (mpmath, 30 digits)"""
    import mpmath as mp
    mp.mp.dps = 30
    k = len(rates) + 1
    Q = mp.zeros(k, k)
    for j, r in enumerate(rates):
        Q[j, j] = -mp.mpf(r)
        Q[j, j + 1] = mp.mpf(r)
    E = mp.expm(Q * mp.mpf(T))
    return [float(E[0, j]) for j in range(k)]


def occupancy_sample(cfg):
    import pg
    k = len(cfg["rates"]) + 1
    if cfg.get("limits"):
        # every compartment declared on [0, n0]: the declared ceiling is reached exactly when everybody sits in one
        # compartment, and a step that lands ON a limit is a legal step
        T_, TT_ = pg.Transition, pg.TransitionType
        m = pg.model(state=[("X%d" % j, (0, int(cfg["n0"]))) for j in range(1, k + 1)], param=["r%d" % j for j in range(1, k)],
                     transition=[T_(origin="X%d" % j, destination="X%d" % (j + 1), equation="r%d*X%d" % (j, j),
                                    transition_type=TT_.T) for j in range(1, k)])
    else:
        m = get_model("CHAIN%d" % k)
    m.parameters = {"r%d" % (j + 1): float(r) for j, r in enumerate(cfg["rates"])}
    t0 = float(cfg.get("t0", 0.0))
    m.initial_values = ([int(cfg["n0"])] + [0] * (k - 1), np.float64(t0))
    np.random.seed(int(cfg["seed"]))
    with pg.quiet():
        X, J, TT = m.solve_stochast(t0 + float(cfg["T"]), int(cfg["n"]), exact=True, full_output=True)
    occ = np.empty((len(X), k), dtype=int)
    for a, (x, t) in enumerate(zip(X, TT)):
        t = np.asarray(t)
        j = max(0, int(np.searchsorted(t, t0 + float(cfg["T"]), side="right")) - 1)     # last recorded time <= t0 + T
        occ[a] = np.rint(np.asarray(x)[j]).astype(int)
    return occ


def chain_test(st, cfg):
    from scipy import stats
    occ = occupancy_sample(cfg)
    n, k = occ.shape
    n0 = int(cfg["n0"])
    p = chain_probs(cfg["rates"], cfg["T"])
    for j in range(k):
        st.cell("chain pooled X%d" % (j + 1), int(occ[:, j].sum()), n * n0, p[j], cfg)
        pm = [float(stats.binom.pmf(c, n0, p[j])) for c in range(n0 + 1)]
        cnt = np.bincount(occ[:, j], minlength=n0 + 1)[:n0 + 1]
        for c in range(n0 + 1):
            if n * pm[c] >= 1.0 or cnt[c] > 0:
                st.cell("chain X%d = %d" % (j + 1, c), int(cnt[c]), n, pm[c], cfg)
        st.gtest("chain X%d marginal" % (j + 1), cnt.tolist(), pm, cfg)
    return dict(mean_occupancy=[float(v) for v in occ.mean(axis=0)], expected=[n0 * q for q in p])


# ---------------------------------------------------------------------- test 3: SIR final size
def sir_sample(cfg):
    import pg
    m = get_model("SIR")
    m.parameters = dict(beta=float(Fraction(cfg["beta"])), gamma=float(Fraction(cfg["gamma"])), N=float(cfg["N"]))
    m.initial_values = ([int(cfg["s0"]), int(cfg["i0"]), int(cfg["N"]) - int(cfg["s0"]) - int(cfg["i0"])], np.float64(0))
    np.random.seed(int(cfg["seed"]))
    with pg.quiet():
        X, J, TT = m.solve_stochast(1e12, int(cfg["n"]), exact=True, full_output=True)
    fin = np.array([int(round(np.asarray(x)[-1][0])) for x in X])
    still = sum(1 for x in X if np.asarray(x)[-1][1] != 0)
    return fin, still


def sir_law_python(beta, gamma, N, s0, i0):
    """independent exact recursion (visit probabilities of the embedded chain), used to cross-check what is read back
    from Coq"""
    beta, gamma = Fraction(beta), Fraction(gamma)
    visit = {(s0, i0): Fraction(1)}
    out = [Fraction(0)] * (s0 + 1)
    for s in range(s0, -1, -1):
        imax = i0 + (s0 - s)
        for i in range(imax, 0, -1):
            w = visit.get((s, i), Fraction(0))
            if w == 0:
                continue
            a = beta * s * i / N
            b = gamma * i
            pinf = a / (a + b)
            if s > 0:
                visit[(s - 1, i + 1)] = visit.get((s - 1, i + 1), Fraction(0)) + w * pinf
            visit[(s, i - 1)] = visit.get((s, i - 1), Fraction(0)) + w * (1 - pinf)
        out[s] = visit.get((s, 0), Fraction(0))
    return out


def sir_coq_text(cfg):
    b, g = Fraction(cfg["beta"]), Fraction(cfg["gamma"])
    return ("From Coq Require Import List ZArith QArith Qcanon.\nFrom PV Require Import FinalSize.\nImport ListNotations.\n"
            "Eval vm_compute in show (law (final_law (Q2Qc (%d # %d)) (Q2Qc (%d # %d)) %d %d %d) %d).\n"
            % (b.numerator, b.denominator, g.numerator, g.denominator, cfg["N"], cfg["s0"], cfg["i0"], cfg["s0"] + 1))


def parse_law(v):
    import re
    return [Fraction(int(a), int(b)) for a, b in re.findall(r'\(\s*(-?\d+)(?:%Z)?\s*,\s*(\d+)(?:%positive)?\s*\)', v)]


def sir_test(st, cfg, law):
    fin, still = sir_sample(cfg)
    n = len(fin)
    s0 = int(cfg["s0"])
    cnt = np.bincount(fin, minlength=s0 + 1)[:s0 + 1]
    pr = [float(q) for q in law]
    for k in range(s0 + 1):
        if n * pr[k] >= 1.0 or cnt[k] > 0:
            st.cell("SIR final S = %d" % k, int(cnt[k]), n, pr[k], cfg)
    st.gtest("SIR final size", cnt.tolist(), pr, cfg)
    return dict(mean_final_S=float(fin.mean()), expected=float(sum(k * q for k, q in enumerate(pr))), unfinished=int(still))


# ====================================================================== configurations of the statistical tests
def stat_configs(ck, rng):
    n_first = ck.budget(40000, 300000)
    n_chain = ck.budget(2000, 20000)
    n_sir = ck.budget(2000, 20000)
    seed = lambda: int(rng.integers(0, 2**31 - 1))
    first = []
    for _ in range(ck.budget(3, 8)):
        m = int(rng.integers(2, 6))
        sc = float(np.exp(rng.uniform(np.log(1e-2), np.log(1e2))))
        rates = [sc * float(rng.integers(1, 9)) / 2.0 for _ in range(m)]
        if m > 2 and rng.random() < 0.5:
            rates[int(rng.integers(0, m))] = 0.0
        first.append(dict(kind="first", rates=rates, t=float(rng.integers(0, 5)), n=n_first, bins=6, seed=seed()))
    chains = []
    for _ in range(ck.budget(2, 5)):
        k = int(rng.integers(3, 5))
        rates = [float(rng.integers(2, 10)) / 4.0 for _ in range(k - 1)]
        T = float(rng.integers(2, 7)) / 4.0 / (sum(rates) / len(rates))
        # every other chain starts its clock away from zero (the law depends on the elapsed time only)
        chains.append(dict(kind="chain", rates=rates, n0=int(rng.integers(5, 21)), T=T, n=n_chain, seed=seed(),
                           t0=[0.0, 4.0, -2.5, 100.0][len(chains) % 4], limits=bool(len(chains) % 2 == 0)))
    sirs = []
    betas = ["1", "3/2", "2", "5/2", "3"]
    for j in range(ck.budget(2, 5)):
        N = int(rng.integers(8, 17)) if ck.quick or j < 3 else int(rng.integers(17, 23))
        i0 = int(rng.integers(1, 3))
        sirs.append(dict(kind="sir", beta=betas[int(rng.integers(0, len(betas)))], gamma=["1/2", "1"][int(rng.integers(0, 2))],
                         N=N, s0=N - i0, i0=i0, n=n_sir, seed=seed()))
    if not ck.quick:
        sirs.append(dict(kind="sir", beta="2", gamma="1", N=30, s0=29, i0=1, n=n_sir, seed=seed()))
    return first, chains, sirs


def run_stat_config(ck, st, cfg, laws):
    if cfg["kind"] == "first":
        return first_step_test(st, cfg)
    if cfg["kind"] == "chain":
        return chain_test(st, cfg)
    if cfg["kind"] == "sir":
        return sir_test(st, cfg, laws[json.dumps(cfg, sort_keys=True)])
    raise ValueError(cfg["kind"])


def sir_law(ck, cfg, name):
    vals = ck.coq_eval(name, sir_coq_text(cfg), timeout=1200)
    law = parse_law(vals[0])
    if len(law) != cfg["s0"] + 1 or sum(law) != 1:
        raise common.InternalError("final-size law read back from Coq is malformed (%d cells, sum %s)" % (len(law), sum(law)))
    py = sir_law_python(cfg["beta"], cfg["gamma"], cfg["N"], cfg["s0"], cfg["i0"])
    if py != law:
        raise common.InternalError("final-size law from Coq differs from the independent Python recursion")
    return law


# ====================================================================== the check
def run(ck):
    import gen_clock
    import pg  # noqa: F401  (puts pygom on the path)
    ck.rule = ("K: (a) direct calls of the real firstReaction on synthetic models: 1-6 events, rates log-uniform 1e-3..1e3 / "
               "small integers / multiples of a base, 20% zero rates, random t and seed; (b) exact ties built from powers of "
               "two with a scripted sampler; (c) every step of solve_stochast(T, 2, exact=True) on SIR/SEIR/birth-death/chain "
               "models with random parameters. Non-trivial = at least two positive rates (a real competition of clocks); "
               "distinct by canonical JSON hash. Statistical tests: see notes.statistical_tests")
    ok = ck.coq_build("C05", [("ClockGen", gen_clock.generate())],
                      extra=("Util.vo", "FirstReaction.vo", "FinalSize.vo", "ClockTie.vo"))
    common.name_assumptions(ck, "C05")
    rng = np.random.default_rng(ck.seed)

    # thorough tier: the independent checker re-validates the compiled library behind Props/C05.vo (in the background)
    chk_res = {}
    chk_thread = None
    if ok and not ck.quick:
        cmd = "timeout 1200 coqchk -silent -o -R . PV PV.Props.C05"
        ck.checker_cmds.append("cd /verif/coq && " + cmd)

        def chk_worker():
            chk_res["rc"], chk_res["out"] = common.sh(cmd, cwd=common.COQ, timeout=1300)
        chk_thread = threading.Thread(target=chk_worker)
        chk_thread.start()

    if not shadow_fact():
        ck.broken.append(dict(theorem="correspondence rexp(1,r) = standard_exponential * (1.0/r) (numpy shadow stream)",
                              file="utilR/distn.py", error="rexp(1, r) is not bit-for-bit RandomState(s).standard_exponential()*(1.0/r)"))

    # ---- statistical configurations; the SIR laws are computed inside Coq in the background while pygom is driven
    first, chains, sirs = stat_configs(ck, rng)
    laws, law_err = {}, []

    def law_worker(j, cfg):
        try:
            laws[json.dumps(cfg, sort_keys=True)] = sir_law(ck, cfg, "c05_law_%d" % j)
        except Exception as e:          # noqa: B902
            law_err.append(e)
    threads = [threading.Thread(target=law_worker, args=(j, c)) for j, c in enumerate(sirs)]
    for th in threads:
        th.start()

    # ---- K: cases
    nd, nt, npth = ck.budget(2500, 12000), ck.budget(150, 600), ck.budget(50, 400)
    cases = []                      # (t, rates, obs, descriptor)
    dist = dict(direct=0, tie=0, path_steps=0, zero_rate_events=0, events=0)
    search_hits = []
    for _ in range(nd):
        c = gen_direct(rng)
        obs = fr_direct(c)
        cases.append((c["t"], c["rates"], obs, c))
        dist["direct"] += 1
    for _ in range(nt):
        c = gen_tie(rng)
        obs = fr_direct(c)
        cases.append((c["t"], c["rates"], obs, c))
        dist["tie"] += 1
    path_problems = []
    for _ in range(npth):
        c = gen_path(rng)
        steps, problems, mis = run_path(c)
        for p_ in problems:
            path_problems.append((p_, c))
        for k, s in enumerate(steps):
            cases.append((s["t"], s["rates"], s["obs"], dict(c, step=k)))
            dist["path_steps"] += 1
    for t, rates, obs, c in cases:
        dist["events"] += len(rates)
        dist["zero_rate_events"] += sum(1 for r in rates if r <= 0)
        ck.case(dict(t=t, rates=rates, seed=c.get("seed"), step=c.get("step"), scripted=c.get("scripted")),
                nontrivial=sum(1 for r in rates if r > 0) >= 2)
    ck.notes["input_distribution"] = dist

    # ---- K: Coq evaluates the generated rule on the same draws
    good = [(t, r, o, c) for t, r, o, c in cases if o.get("ok")]
    files = []
    shard = 400
    for s in range(0, len(good), shard):
        body = ";\n ".join(coq_case(t, r, o) for t, r, o, _ in good[s:s + shard])
        files.append(("c05_cases_%d" % (s // shard),
                      COQ_HEAD + "Definition cases := [\n " + body + "].\n"
                      "Eval vm_compute in where_code gen_cfg 1 cases 0.\nEval vm_compute in where_code gen_cfg 2 cases 0.\n"))
    t_coq = time.time()
    outs = ck.coq_eval_many(files)
    disagree, near = [], []
    for s in range(0, len(good), shard):
        v = outs["c05_cases_%d" % (s // shard)]
        disagree += [s + i for i in common.parse_int_list(v[0])]
        near += [s + i for i in common.parse_int_list(v[1])]
    ck.notes["coq_case_eval_wall_s"] = round(time.time() - t_coq, 2)
    ck.notes["correspondence_cases"] = len(good)
    ck.notes["correspondence_disagreements"] = len(disagree)
    ck.notes["near_ties_excluded"] = len(near)
    ck.notes["tolerances"] = dict(dt_relative=REL_DT, t_new="1e-12*(|t|+dt)", near_tie_relative_gap=REL_GAP,
                                  why="pygom computes e*(1.0/r) (two roundings, <= 2.3e-16 relative) and t+dt (one rounding); "
                                      "index, one-hot jumps and draw count are compared exactly")
    if disagree:
        t, r, o, c = good[disagree[0]]
        ck.broken.append(dict(theorem="correspondence step gen_cfg vs firstReaction", file="c05_cases",
                              error="the extracted rule run in Coq and the implementation differ on %d steps, first: %s -> observed %s"
                                    % (len(disagree), json.dumps(c), json.dumps(dict(dt=o["dt"], t_new=o["t_new"], jumps=o["jumps"])))))
    mis = [c for _, _, o, c in cases if o.get("ok") and not o.get("aligned")]
    ck.notes["draw_stream_misaligned_steps"] = len(mis)
    if mis:
        ck.broken.append(dict(theorem="correspondence one standard exponential per positive rate per step (numpy shadow stream)",
                              file="stochastic_simulation.py",
                              error="after %d steps numpy's global generator is not where the shadow stream is, first: %s"
                                    % (len(mis), json.dumps(mis[0]))))
    for p_, c in path_problems[:1]:
        ck.broken.append(dict(theorem="correspondence _jump exact branch vs successive first-reaction steps", file="simulate.py",
                              error="%s (%s)" % (p_, json.dumps(c))))

    # ---- search (a): the construction stated directly, exact rationals, no pygom code
    for t, rates, obs, c in cases:
        why = judge_step(t, rates, obs)
        if why:
            ck.violation("step-not-first-reaction", why, dict(c, t_step=t, rates_step=rates) if c["kind"] == "path" else c)
    for p_, c in path_problems:
        ck.violation("path-not-first-reaction-steps", p_, c)

    # ---- search (b): statistical tests
    for th in threads:
        th.join()
    if law_err:
        raise law_err[0]
    st = Stat()
    summ = []
    t_stat = time.time()
    for cfg in first + chains + sirs:
        try:
            summ.append(dict(config={k: v for k, v in cfg.items()}, summary=run_stat_config(ck, st, cfg, laws)))
        except common.InternalError:
            raise
        except Exception as e:      # noqa: B902  exact simulation of an in-domain model must not raise
            ck.violation("exact-simulation-raised", "exact simulation raised %r" % (e,), cfg)
    alpha_each, rejected = st.verdicts()
    ck.notes["statistical_tests"] = dict(
        label="statistical support: a test, not the proof",
        total_false_alarm_probability=ALPHA_TOTAL, tests=len(st.tests), level_per_test=alpha_each,
        method="two-sided exact binomial tail (scipy; direct 30-digit mpmath summation of the tail below 1e-5) per cell; likelihood-ratio "
               "chi-square G with the non-asymptotic bound P(G>=g) <= C(n+k-1,k-1)exp(-g/2); Bonferroni over all tests. "
               "Pearson X2 and its nominal chi-square p-value are reported, not used for the verdict",
        smallest_p_values=sorted(({"name": t["name"], "p": t["pv"], "kind": t["kind"]} for t in st.tests),
                                 key=lambda d: d["p"])[:5],
        g_tests=[dict(name=t["name"], **t["detail"]) for t in st.tests if t["kind"] == "G"][:12],
        configs=summ, wall_s=round(time.time() - t_stat, 2))
    for tt in rejected:
        cfg = tt["replay"]
        cls = {"first": "law-mismatch-first-step", "chain": "law-mismatch-chain-occupancy", "sir": "law-mismatch-sir-final-size"}[cfg["kind"]]
        ck.violation(cls, "%s: %s test rejects at level %.3g (p = %.3g, %s)"
                     % (tt["name"], tt["kind"], alpha_each, tt["pv"], json.dumps(tt["detail"])), cfg)
    par = parallel_check()
    ck.notes["parallel_exact_run"] = {k: v for k, v in par[1].items() if k != "first_waits"}
    ck.case(dict(kind="parallel"), nontrivial=True)
    if par[0]:
        ck.violation(par[0][0], par[0][1], dict(kind="parallel"))
    if chk_thread is not None:
        chk_thread.join()
        ck.notes["coqchk"] = dict(rc=chk_res.get("rc"), tail=(chk_res.get("out") or "")[-700:])
        if chk_res.get("rc") != 0:
            ck.broken.append(dict(theorem="coqchk PV.Props.C05", file="Props/C05.vo", error=(chk_res.get("out") or "")[-1200:]))
    ck.assumptions += [
        "numpy's legacy generator: standard_exponential() = -log(1-U) with U independent uniforms on [0,1) (re-validated at "
        "start: rexp(1,r) == RandomState(s).standard_exponential()*(1.0/r) bit for bit); uniformity of the stream itself is trusted",
        "the probability of a box inside the unit cube under independent uniforms is the product of its sides (definition of "
        "the law; ExpClock.volume)",
        "rates are evaluated once per step at the current state (checked: one eventRateVector call per firstReaction call)",
        "float rounding of e*(1.0/r) and t+dt is not modelled; compared with relative tolerance 1e-12; near ties (<1e-9) excluded",
    ]


def parallel_check():
    """exact simulation through the parallel (dask) branch, in a fresh process: every step fires exactly one event, every
    increment is one column of V, and the first waiting times have the mean of Exp(total rate) (24 paths: the mean of 24 unit
    exponentials is outside [0.22, 2.7] with probability < 1e-9).  -> ((cls, what) | None, raw)"""
    import subprocess
    env = dict(os.environ)
    r = subprocess.run([sys.executable, "-W", "ignore", os.path.join(common.VERIF, "harness", "c05_parallel.py")],
                       capture_output=True, text=True, env=env, timeout=900, cwd=common.VERIF)
    line = [l for l in r.stdout.splitlines() if l.startswith("C05PAR ")]
    if not line:
        raise common.InternalError("parallel probe produced no result: " + (r.stderr or r.stdout)[-300:])
    o = json.loads(line[-1][7:])
    if "error" in o:
        return ("parallel-exact-raises", "solve_stochast(exact=True, parallel=True) on a fresh model raised " + o["error"]), o
    if o["paths"] != o["n"]:
        return ("parallel-exact-path-count", "%d paths returned for %d requested" % (o["paths"], o["n"])), o
    bad = [e for e in o["events_per_step"] if e not in ([1], [])]
    if bad:
        return ("parallel-exact-not-one-event", "exact=True, parallel=True: steps fire %s events (exactly one per step in exact mode); "
                "first waiting times %s" % (bad[0], [round(w, 4) for w in o["first_waits"][:6]])), o
    if o["paths_with_dx_not_V_counts"]:
        return ("parallel-exact-increment", "%d paths have increments that are not the state-change column of the recorded event"
                % o["paths_with_dx_not_V_counts"]), o
    w = [x for x in o["first_waits"] if x is not None]
    mean_scaled = float(np.mean(w)) * o["total_rate"]
    o["first_wait_mean_times_rate"] = mean_scaled
    if len(w) != o["n"] or not (0.22 <= mean_scaled <= 2.7) or len(set(w)) < len(w) // 2:
        return ("parallel-first-wait-law", "first waiting times of %d parallel exact paths: mean x total rate = %.3g, %d distinct values "
                "(Exp(total rate) expected)" % (len(w), mean_scaled, len(set(w)))), o
    return None, o


def replay(ck, data):
    import pg  # noqa: F401
    c = data["input"]
    if c is None:
        return None
    k = c.get("kind")
    if k == "parallel":
        v = parallel_check()[0]
        return v[1] if v else None
    if k in ("direct", "tie"):
        return judge_step(c["t"], c["rates"], fr_direct(c))
    if k == "path":
        steps, problems, mis = run_path(c)
        if problems:
            return problems[0]
        for s in steps:
            why = judge_step(s["t"], s["rates"], s["obs"])
            if why:
                return why
        return None
    st = Stat()
    laws = {}
    if k == "sir":
        laws[json.dumps(c, sort_keys=True)] = sir_law(ck, c, "c05_law_replay")
    run_stat_config(ck, st, c, laws)
    # same per-test level as a full run would use at most: be conservative and use the single-config count
    a, rej = st.verdicts()
    if rej:
        return "%s: %s test rejects (p = %.3g at level %.3g)" % (rej[0]["name"], rej[0]["kind"], rej[0]["pv"], a)
    return None
