"""C11 — declared state limits are never violated in stochastic simulation (shares the C04 machinery)."""
import numpy as np
import c04

TOL = 1e-9

# scenarios outside the definition generator of C04: (name, builder) -> (model, limits, x0, t0, horizon)
def _extended():
    """a state (and an event on it) added to the model after construction: it has no declared limits, so lower limit 0"""
    import pg
    m = pg.model(state=[("A", (0, None)), ("X", (0, 6))], param=["k", "g"],
                 event=[pg.Event(rate="k*A", transition_list=[pg.Transition(origin="A", destination="X", transition_type="T")])])
    m.state_list = ["Z"]
    m.add_event(pg.Event(rate="g", transition_list=[pg.Transition(origin="Z", transition_type="D", magnitude="2")]))
    m.parameters = [("k", 0.05), ("g", 5.0)]
    return m, [(0, None), (0, 6), (0, None)], [20.0, 0.0, 3.0], 0.0, 6.0


def _extended_upper():
    """same, the declared upper limit of a constructor state is what binds"""
    import pg
    m = pg.model(state=[("A", (0, None)), ("X", (0, 6))], param=["k", "g"],
                 event=[pg.Event(rate="k*A", transition_list=[pg.Transition(origin="A", destination="X", transition_type="T")])])
    m.state_list = ["Z"]
    m.add_event(pg.Event(rate="g", transition_list=[pg.Transition(destination="Z", transition_type="B")]))
    m.parameters = [("k", 1.0), ("g", 2.0)]
    return m, [(0, None), (0, 6), (0, None)], [20.0, 0.0, 0.0], 0.0, 6.0


def _all_states_added_later():
    """a model constructed with no states at all; every state comes in through the state_list setter (default limits)"""
    import pg
    m = pg.model(state=[], param=["k", "g"])
    m.state_list = ["A", "Z"]
    m.add_event(pg.Event(rate="k*A", transition_list=[pg.Transition(origin="A", destination="Z", transition_type="T")]))
    m.add_event(pg.Event(rate="g", transition_list=[pg.Transition(origin="A", transition_type="D", magnitude="2")]))
    m.parameters = [("k", 0.05), ("g", 5.0)]
    return m, [(0, None), (0, None)], [7.0, 0.0], 0.0, 6.0


def _odevariable_states():
    """states declared as ODEVariable objects (no limits given: lower limit 0)"""
    import pg
    from pygom.model.base_ode_model import ODEVariable
    m = pg.model(state=[ODEVariable("X", "X"), ODEVariable("Y", "Y")], param=["k", "g"],
                 event=[pg.Event(rate="g", transition_list=[pg.Transition(origin="X", destination="Y", transition_type="T", magnitude="2")])])
    m.parameters = [("k", 0.05), ("g", 5.0)]
    return m, [(0, None), (0, None)], [7.0, 0.0], 0.0, 6.0


def _unlimited_before_limited():
    """a state declared without any limit, (None, None), listed before a state whose declared ceiling binds"""
    import pg
    m = pg.model(state=[("T", (None, None)), ("A", (0, None)), ("X", (0, 6))], param=["k", "g"],
                 event=[pg.Event(rate="k*A", transition_list=[pg.Transition(origin="A", destination="X", transition_type="T")]),
                        pg.Event(rate="g", transition_list=[pg.Transition(origin="T", transition_type="D")])])
    m.parameters = [("k", 1.0), ("g", 2.0)]
    return m, [(None, None), (0, None), (0, 6)], [0.0, 20.0, 0.0], 0.0, 6.0


def _late_start():
    """initial time 2: an output grid that starts before it holds the initial state there"""
    import pg
    m = pg.model(state=[("A", (0, 2000)), ("X", (0, 600))], param=["k", "g"],
                 event=[pg.Event(rate="k*A", transition_list=[pg.Transition(origin="A", destination="X", transition_type="T", magnitude="3")]),
                        pg.Event(rate="g", transition_list=[pg.Transition(destination="A", transition_type="B", magnitude="40")])])
    m.parameters = [("k", 0.4), ("g", 30.0)]
    return m, [(0, 2000), (0, 600)], [1500.0, 100.0], 2.0, 8.0


def _declaration_reused():
    """one declaration list (and parameter list) used for two models: the second model has the declared limits as well"""
    import pg
    decl = [("A", (0, None)), ("X", (0, 6))]
    pars = ["k", "g"]
    mk = lambda: pg.model(state=decl, param=pars,
                          event=[pg.Event(rate="k*A", transition_list=[pg.Transition(origin="A", destination="X", transition_type="T")])])
    mk()
    m = mk()
    m.parameters = [("k", 1.0), ("g", 2.0)]
    return m, [(0, None), (0, 6)], [20.0, 0.0], 0.0, 6.0


def _magnitude_is_a_state():
    """a transition whose size is another state (zero at the start, growing): the limits hold whatever the size has become"""
    import pg
    m = pg.model(state=[("X", (0, None)), ("Y", (0, None))], param=["k", "g"],
                 event=[pg.Event(rate="g", transition_list=[pg.Transition(destination="Y", transition_type="B")]),
                        pg.Event(rate="k", transition_list=[pg.Transition(origin="X", transition_type="D", magnitude="Y")])])
    m.parameters = [("k", 1.0), ("g", 2.0)]
    return m, [(0, None), (0, None)], [6.0, 0.0], 0.0, 6.0


SCENARIOS = {"declaration-list-used-twice": _declaration_reused, "size-of-a-transition-is-a-state": _magnitude_is_a_state, "states-declared-as-ODEVariable": _odevariable_states, "unlimited-state-before-limited": _unlimited_before_limited,
             "all-states-added-after-construction": _all_states_added_later, "state-added-after-construction": _extended, "state-added-after-construction/upper": _extended_upper,
             "grid-before-initial-time": _late_start}


def scenario_check(name, exact, seed):
    """-> None or what fails: every recorded state of raw and gridded paths within the limits"""
    import pg
    m, lims, x0, t0, T = SCENARIOS[name]()
    m.initial_values = (list(x0), np.float64(t0))
    grid = np.linspace(0.0, T, 25)
    out = []
    for gridded in (False, True):
        np.random.seed(seed)
        try:
            with pg.quiet():
                X = m.solve_stochast(grid if gridded else T, 2, exact=exact, full_output=True)[0]
        except BaseException as e:          # noqa: B902
            return "%s, exact=%s, %s: solve_stochast raised %s: %s" % (name, exact, "grid" if gridded else "raw", type(e).__name__, str(e)[:120])
        for r, x in enumerate(X):
            x = np.asarray(x, dtype=float)
            for j, (lo, hi) in enumerate(lims):
                col = x[:, j]
                if (lo is not None and col.min() < lo - TOL) or (hi is not None and col.max() > hi + TOL):
                    return ("%s, exact=%s, %s path %d: state %d ranges over [%g, %g], its limits are (%s, %s) (undeclared = lower limit 0)"
                            % (name, exact, "gridded" if gridded else "raw", r, j, col.min(), col.max(), lo, hi))
    return None


def parallel_check():
    """-> (None | what fails, raw)"""
    import json, os, subprocess, sys
    import common
    r = subprocess.run([sys.executable, "-W", "ignore", os.path.join(common.VERIF, "harness", "c11_parallel.py")],
                       capture_output=True, text=True, env=dict(os.environ), timeout=1200, cwd=common.VERIF)
    line = [l for l in r.stdout.splitlines() if l.startswith("C11PAR ")]
    if not line:
        raise common.InternalError("parallel probe produced no result: " + (r.stderr or r.stdout)[-300:])
    o = json.loads(line[-1][7:])
    if "error" in o:
        return "solve_stochast(parallel=True) on a fresh model with declared limits raised " + o["error"], o
    for mode in ("exact", "tau"):
        for j, (lo, hi) in enumerate(o["limits"]):
            if (lo is not None and o[mode]["min"][j] < lo - TOL) or (hi is not None and o[mode]["max"][j] > hi + TOL):
                return ("parallel=True, %s: state %d ranges over [%g, %g], its declared limits are (%s, %s)"
                        % (mode, j, o[mode]["min"][j], o[mode]["max"][j], lo, hi)), o
    return None, o


def run(ck):
    ck.rule = ("event models with lower / upper / two-sided / absent / default limits per state, x0 inside the limits and "
               "small populations so the boundary is hit; exact, adaptive and fixed tau; magnitudes up to 3; each path "
               "judged directly (every recorded state within limits) and replayed in Coq; non-trivial = at least one "
               "rejected (illegal) step occurred on the path.  Plus fixed scenarios: a state added after construction, "
               "an output grid that starts before the initial time (raw and gridded paths, exact and tau-leap)")
    c04.drive(ck, "C11", limits=True)
    bad, raw = parallel_check()
    ck.notes["parallel_run"] = raw
    ck.case(dict(kind="parallel"), nontrivial=True)
    if bad:
        ck.violation("limit-violated/parallel", bad, dict(kind="parallel"))
    for name in SCENARIOS:
        for exact in (True, False):
            for seed in (1, 2):
                inp = dict(kind="scenario", name=name, exact=exact, seed=seed)
                bad = scenario_check(name, exact, seed)
                ck.case(inp, nontrivial=True)
                if bad:
                    ck.violation("limit-violated/" + name.split("/")[0], bad, inp)


def replay(ck, data):
    inp = data["input"]
    if inp.get("kind") == "parallel":
        return parallel_check()[0]
    if inp.get("kind") == "scenario":
        return scenario_check(inp["name"], inp["exact"], inp["seed"])
    return c04.replay(ck, data)
