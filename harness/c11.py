"""C11 — declared state limits are never violated in stochastic simulation (shares the C04 machinery)."""
import c04


def run(ck):
    ck.rule = ("event models with lower / upper / two-sided / absent / default limits per state, x0 inside the limits and "
               "small populations so the boundary is hit; exact, adaptive and fixed tau; magnitudes up to 3; each path "
               "judged directly (every recorded state within limits) and replayed in Coq; non-trivial = at least one "
               "rejected (illegal) step occurred on the path")
    c04.drive(ck, "C11", limits=True)


replay = c04.replay
