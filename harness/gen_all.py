"""Run every translator once (used by setup.sh so that the full `make` sees all Gen/*.v)."""
import os, sys
sys.path.insert(0, os.path.dirname(os.path.abspath(__file__)))
import common
sys.path.insert(0, os.path.join(common.VERIF, "gen"))
import importlib

GENS = {  # Gen file -> (module, function)
    "ParamsGen": ("gen_params", "generate"),
    "AssemblyGen": ("gen_assembly", "generate"),
    "StochGen": ("gen_stoch", "generate"),
}


def load_gens():
    p = os.path.join(common.VERIF, "harness", "gens.json")
    if os.path.exists(p):
        import json
        for k, v in json.load(open(p)).items():
            GENS[k] = tuple(v)


def main():
    load_gens()
    ck = common.Check("setup", "quick", 0)
    for name, (mod, fn) in GENS.items():
        text = getattr(importlib.import_module(mod), fn)()
        ck.write_gen(name, text)
        print("generated Gen/%s.v" % name)


if __name__ == "__main__":
    main()
