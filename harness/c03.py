"""C03 — Jacobian, gradient and higher derivative functions are the true derivatives."""
import json, time
from fractions import Fraction
import numpy as np
import sympy
import common
import modelgen as mg
import c01

COQ_HEAD = """From Coq Require Import List Arith Bool QArith Qcanon.
From PV Require Import Util Assembly Expr Derivs DerivsQc.
Import ListNotations.
"""


class NoConv(Exception):
    pass


def qlit(fr):
    return "(%d # %d)%%Q" % (fr.numerator, fr.denominator)


def to_coq(e, var):
    """sympy expression (built by the harness from the rate STRING, derived parameters expanded) -> Coq expr text"""
    if e.is_Integer or e.is_Rational:
        return "(Cst %s)" % qlit(Fraction(int(e.p), int(e.q)))
    if e.is_Symbol:
        if str(e) not in var:
            raise NoConv("symbol " + str(e))
        return "(Var %d%%nat)" % var[str(e)]
    if e.is_Add:
        args = [to_coq(a, var) for a in e.args]
        out = args[0]
        for a in args[1:]:
            out = "(Add %s %s)" % (out, a)
        return out
    if e.is_Mul:
        args = [to_coq(a, var) for a in e.args]
        out = args[0]
        for a in args[1:]:
            out = "(Mul %s %s)" % (out, a)
        return out
    if e.is_Pow:
        b, ex = e.args
        if ex.is_Integer:
            n = int(ex)
            base = to_coq(b, var)
            if n == 0:
                return "(Cst (1 # 1)%Q)"
            p = base
            for _ in range(abs(n) - 1):
                p = "(Mul %s %s)" % (p, base)
            return p if n > 0 else "(Div (Cst (1 # 1)%%Q) %s)" % p
        raise NoConv("power " + str(e))
    if isinstance(e, sympy.exp):
        return "(Exp %s)" % to_coq(e.args[0], var)
    if isinstance(e, sympy.cos):
        return "(Cos %s)" % to_coq(e.args[0], var)
    if isinstance(e, sympy.sin):
        return "(Sin %s)" % to_coq(e.args[0], var)
    if isinstance(e, sympy.log):
        return "(Ln %s)" % to_coq(e.args[0], var)
    raise NoConv("node " + str(type(e)))


def parse(s, d):
    loc = mg.symbols_of(d)
    for name, expr in d["derived"]:
        loc[name] = sympy.sympify(expr, locals=dict(loc))
    return sympy.sympify(s, locals=dict(loc))


def oracle_entries(exprs, point):
    """(code, exact argument, 45-digit value) for every transcendental node; cos nodes also need sin and vice versa"""
    sub = {sympy.Symbol(k): sympy.Rational(v.numerator, v.denominator) for k, v in point.items()}
    out = {}
    for e in exprs:
        for cls, codes in ((sympy.exp, [(0, sympy.exp)]), (sympy.cos, [(1, sympy.cos), (2, sympy.sin)]),
                           (sympy.sin, [(1, sympy.cos), (2, sympy.sin)]), (sympy.log, [(3, sympy.log)])):
            for node in e.atoms(cls):
                a = node.args[0].subs(sub)
                if not a.is_Rational:
                    raise NoConv("nested transcendental argument")
                af = Fraction(int(a.p), int(a.q))
                for code, fn in codes:
                    v = sympy.Rational(str(sympy.N(fn(a), 50)))
                    out[(code, af)] = Fraction(int(v.p), int(v.q))
    return [(c, a, v) for (c, a), v in out.items()]


def var_index(d):
    names = list(d["states"]) + ["t"] + list(d["params"])
    return {n: i for i, n in enumerate(names)}


def flat(M, ev):
    vals, exact = [], True
    for i in range(M.rows):
        for j in range(M.cols):
            v, ex = ev(M[i, j]); vals.append(v); exact &= ex
    return vals, exact


def pyg_derivs(m, point, reverse=False):
    def ev(expr):
        sub = {s: sympy.Rational(point[str(s)].numerator, point[str(s)].denominator) for s in expr.free_symbols}
        return mg.to_fraction(expr.subs(sub))
    out, exact = {}, True
    getters = [("J", m.get_jacobian_eqn), ("G", m.get_grad_eqn), ("DJ", m.get_diff_jacobian_eqn),
               ("GJ", m.get_grad_jacobian_eqn), ("F", m.get_TransitionJacobian),
               ("MU", m.get_TransitionMean), ("SG", m.get_TransitionVar)]
    for name, getter in (reversed(getters) if reverse else getters):       # each getter must stand on its own: any order
        M = getter()
        if M.rows == 0 or M.cols == 0:
            out[name] = []
            continue
        out[name], ex = flat(M, ev)
        exact &= ex
    out["exact"] = exact
    return out


def independent(d, order, point):
    """the property stated directly with sympy.diff on an independently assembled right-hand side"""
    dd = c01.reorder(d, order)
    S = [sympy.Symbol(s) for s in d["states"]]
    P = [sympy.Symbol(p) for p in d["params"]]
    rates = [parse(e["rate"], d) for e in dd["events"]]
    nS, nE = len(S), len(rates)
    V = sympy.zeros(nS, nE)
    for j, e in enumerate(dd["events"]):
        for tr in e["trans"]:
            mgn = parse(tr["mag"], d)
            if tr["ty"] in ("B", "T"): V[tr["d"], j] += mgn
            if tr["ty"] in ("D", "T"): V[tr["o"], j] -= mgn
    ode = [sum((V[i, j] * rates[j] for j in range(nE)), sympy.Integer(0)) for i in range(nS)]
    for o in dd["odes"]:
        ode[o["state"]] += parse(o["eqn"], d)
    sub = {sympy.Symbol(k): sympy.Rational(v.numerator, v.denominator) for k, v in point.items()}
    val = lambda e: mg.to_fraction(sympy.sympify(e).subs(sub))[0]
    J = [val(sympy.diff(ode[i], S[j])) for i in range(nS) for j in range(nS)]
    G = [val(sympy.diff(ode[i], P[k])) for i in range(nS) for k in range(len(P))]
    DJ = [val(sympy.diff(ode[i], S[a], S[b])) for i in range(nS) for a in range(nS) for b in range(nS)]
    GJ = [val(sympy.diff(ode[i], P[k], S[j])) for k in range(len(P)) for i in range(nS) for j in range(nS)]
    Fm = [[sum((sympy.diff(rates[i], S[k]) * V[k, j] for k in range(nS)), sympy.Integer(0)) for j in range(nE)] for i in range(nE)]
    F = [val(Fm[i][j]) for i in range(nE) for j in range(nE)]
    MU = [val(sum((Fm[i][j] * rates[j] for j in range(nE)), sympy.Integer(0))) for i in range(nE)]
    SG = [val(sum((Fm[i][j] ** 2 * rates[j] for j in range(nE)), sympy.Integer(0))) for i in range(nE)]
    return dict(J=J, G=G, DJ=DJ, GJ=GJ, F=F, MU=MU, SG=SG)


NAMES = dict(J="jacobian", G="grad", DJ="diff_jacobian", GJ="grad_jacobian", F="transitionJacobian",
             MU="transitionMean", SG="transitionVar")


# documented shapes of the matrix-valued evaluators (nS states, nP parameters, nE events)
SHAPES = dict(J=lambda nS, nP, nE: (nS, nS), G=lambda nS, nP, nE: (nS, nP), DJ=lambda nS, nP, nE: (nS * nS, nS),
              GJ=lambda nS, nP, nE: (nS * nP, nS), F=lambda nS, nP, nE: (nE, nE), MU=lambda nS, nP, nE: None, SG=lambda nS, nP, nE: None)


def compare(d, order, pv, point, m, numeric=True):
    ind = independent(d, order, point)
    exact = pv["exact"]
    for k in ("J", "G", "DJ", "GJ", "F", "MU", "SG"):
        if len(pv[k]) != len(ind[k]):
            return (NAMES[k] + "-shape", "%s has %d entries, expected %d" % (NAMES[k], len(pv[k]), len(ind[k])))
        for idx, (a, b) in enumerate(zip(pv[k], ind[k])):
            if not c01.close(a, b, exact):
                return (NAMES[k], "%s flat entry %d: reported %s, true derivative %s" % (NAMES[k], idx, a, b))
    if numeric:
        x = np.array([float(point[s]) for s in d["states"]]); t = float(point["t"])
        m.parameters = {p: float(point[p]) for p in d["params"]}
        for k, f in (("J", m.jacobian), ("G", m.grad), ("DJ", m.diff_jacobian), ("GJ", m.grad_jacobian),
                     ("F", m.transitionJacobian), ("MU", m.transitionMean), ("SG", m.transitionVar)):
            if not ind[k]:
                continue
            r1 = f(x, t)
            want_shape = SHAPES[k](len(d["states"]), len(d["params"]), len(d["events"]))
            if want_shape is not None and tuple(np.shape(r1)) != want_shape:
                return ("numeric-" + NAMES[k] + "-shape", "%s(x,t) has shape %s, documented shape %s (%d states, %d parameters, %d events)"
                        % (NAMES[k], tuple(np.shape(r1)), want_shape, len(d["states"]), len(d["params"]), len(d["events"])))
            got = np.array(np.asarray(r1, float).ravel())
            want = np.array([float(v) for v in ind[k]])
            if got.shape != want.shape or not np.all(np.abs(got - want) <= 1e-8 * (1 + np.abs(want))):
                return ("numeric-" + NAMES[k], "%s(x,t) = %s but the true values are %s" % (NAMES[k], got.tolist()[:6], want.tolist()[:6]))
            # a value handed out stays what it was: evaluating at another point must not change it (tabulating Jacobians,
            # differences J(x+h) - J(x))
            f(x * 1.25 + 0.5, t + 0.75)
            again = np.asarray(r1, float).ravel()
            if again.shape != got.shape or not np.array_equal(again, got):
                return ("numeric-" + NAMES[k] + "-overwritten", "the array returned by %s(x,t) changed from %s to %s when %s was "
                        "evaluated at another point" % (NAMES[k], got.tolist()[:6], again.tolist()[:6], NAMES[k]))
        # other parameter values, then the point each evaluator was last asked at: the derivatives at THOSE parameter values
        from fractions import Fraction
        p2 = dict(point)
        for s_ in d["states"]:
            p2[s_] = point[s_] * Fraction(5, 4) + Fraction(1, 2)
        p2["t"] = point["t"] + Fraction(3, 4)
        for q_ in d["params"]:
            p2[q_] = point[q_] * Fraction(3, 2) + Fraction(1, 7)
        try:
            ind2 = independent(d, order, p2)
        except Exception:       # noqa: BLE001  (a singular point of a saturating rate)
            ind2 = None
        if ind2 is not None:
            x2 = np.array([float(p2[s_]) for s_ in d["states"]]); t2 = float(p2["t"])
            m.parameters = {q_: float(p2[q_]) for q_ in d["params"]}
            for k, f in (("J", m.jacobian), ("G", m.grad), ("DJ", m.diff_jacobian), ("GJ", m.grad_jacobian),
                         ("F", m.transitionJacobian), ("MU", m.transitionMean), ("SG", m.transitionVar)):
                if not ind2[k]:
                    continue
                got = np.array(np.asarray(f(x2, t2), float).ravel())
                want = np.array([float(v) for v in ind2[k]])
                if got.shape != want.shape or not np.all(np.abs(got - want) <= 1e-8 * (1 + np.abs(want))):
                    return ("numeric-" + NAMES[k] + "-after-parameter-change", "%s evaluated at (x', t'), the parameter values changed, evaluated at (x', t') "
                            "again = %s but the true values at the new parameter values are %s" % (NAMES[k], got.tolist()[:6], want.tolist()[:6]))
            m.parameters = {q_: float(point[q_]) for q_ in d["params"]}
    return None


def ql(xs):
    return "[" + "; ".join(qlit(x) for x in xs) + "]"


def coq_case(d, order, pv, point):
    dd = c01.reorder(d, order)
    var = var_index(d)
    exprs = []
    evs = []
    for e in dd["events"]:
        r = parse(e["rate"], d); exprs.append(r)
        trs = []
        for tr in e["trans"]:
            mgn = parse(tr["mag"], d); exprs.append(mgn)
            trs.append("(%d%%nat, %d%%nat, %d%%nat, %s)" % ("BDT".index(tr["ty"]), tr["o"] or 0, tr["d"] or 0, to_coq(mgn, var)))
        evs.append("(%s, [%s])" % (to_coq(r, var), "; ".join(trs)))
    odes = []
    for o in dd["odes"]:
        q = parse(o["eqn"], d); exprs.append(q)
        odes.append("(%d%%nat, %s)" % (o["state"], to_coq(q, var)))
    orc = oracle_entries(exprs, point)
    vals = [point[s] for s in d["states"]] + [point["t"]] + [point[p] for p in d["params"]]
    eps = "(0 # 1)%Q" if (pv["exact"] and not orc) else "(1 # 10000000000000000000000)%Q"
    lit = "(%d%%nat, [%s], [%s])" % (len(d["states"]), "; ".join(evs), "; ".join(odes))
    o_s = "[" + "; ".join("(%d%%nat, %s, %s)" % (c, qlit(a), qlit(v)) for c, a, v in orc) + "]"
    return "(%s, %d%%nat, %s, %s, %s, %s, %s, %s, %s, %s, %s, %s)" % (
        lit, len(d["params"]), ql(vals), o_s, eps, ql(pv["J"]), ql(pv["G"]), ql(pv["DJ"]), ql(pv["GJ"]),
        ql(pv["F"]), ql(pv["MU"]), ql(pv["SG"]))


def nontrivial(d):
    return len(d["states"]) != len(d["params"]) and len(d["events"]) >= 2


def gen(rng):
    # asymmetric models (nS != nP where possible) so that transpositions show; smaller than C01's to keep
    # second derivatives cheap
    return mg.gen_definition(rng, max_states=4, max_events=4, max_trans=2, min_events=1)


def grown(d, rng_seed):
    """the definition with one more process (a saturating death on state 0 at a rate using the first parameter)"""
    d2 = json.loads(json.dumps(d))
    p = d["params"][rng_seed % len(d["params"])]
    s0 = d["states"][0]
    d2["events"].append(dict(rate="%s*%s*%s/(1+%s)" % (p, s0, s0, s0), kind="saturating", trans=[dict(ty="D", o=0, d=None, mag="2")]))
    return d2


def after_growth(d, route, seed, pt):
    """the derivative functions are those of the model AS IT NOW IS: evaluate them, add a process to the live model, evaluate
    them again -> (cls, what) or None"""
    import pg
    m, order = mg.build(d, route=route, rng=np.random.default_rng(seed))
    pyg_derivs(m, pt)                               # builds (and lets pygom keep) every symbolic derivative object
    compare(d, order, pyg_derivs(m, pt), pt, m)     # ... and compiles the numeric evaluators
    d2 = grown(d, seed)
    e = d2["events"][-1]
    m.add_event(pg.Event(rate=e["rate"], transition_list=[pg.Transition(origin=d["states"][0], transition_type="D", magnitude="2")]))
    if seed % 16 == 0:
        # the plain right-hand side is looked at first (its recompile flag is cleared), the derivative getters afterwards
        m.parameters = {p: float(pt[p]) for p in d["params"]}
        m.ode(np.array([float(pt[s]) for s in d["states"]]), float(pt["t"]))
    f = compare(d2, list(order) + [len(d["events"])], pyg_derivs(m, pt, reverse=bool(seed % 8 == 0)), pt, m)
    return ("after-add_event/" + f[0], "after a process was added to the live model: " + f[1]) if f else None


def run(ck):
    ck.rule = ("random model definitions as in C01 (1-4 states, 1-5 parameters, 1-4 events, all rate kinds incl. exponential and "
               "time-periodic, optional ODE terms) at exact rational points away from singularities; non-trivial = nS != nP and "
               ">= 2 events; distinct by JSON hash")
    import gen_derivs
    ck.coq_build("C03", [("DerivsGen", gen_derivs.generate())], extra=("Util.vo", "DerivsQc.vo"))
    common.name_assumptions(ck, "C03")
    rng = np.random.default_rng(ck.seed)
    N = ck.budget(45, 500)
    cases, dist = [], {}
    t_end = time.time() + ck.budget(100, 650)
    skipped = 0
    for k in range(N):
        if time.time() > t_end:
            break
        d = gen(rng)
        if d["decl"] == "range" and k % 2 == 0 and len(d["states"]) >= 2:      # (a one-element range cannot be indexed: TypeError, observed)
            d["index_style"] = True          # equations address the states of 'y1:n' as y[0], y[1], ...
            d = mg.shift_range(d, [1, 8, 1, 9][(k // 2) % 4])     # ... or of 'y8:12': the k-th declared component all the same
        route = c01.ROUTES[int(rng.integers(0, len(c01.ROUTES)))]
        inp = dict(definition=d, route=route, seed=k)
        try:
            if len(d["params"]) >= 2 and k % 3 == 0:
                # a model with the same equations and the parameters declared in the opposite order is built and evaluated first
                tw, _ = mg.build(dict(d, params=list(reversed(d["params"]))), route=route, rng=np.random.default_rng(k))
                ptw = mg.random_point(np.random.default_rng(k + 7), d)
                tw.parameters = {p_: float(ptw[p_]) for p_ in d["params"]}
                xtw = np.array([float(ptw[s_]) for s_ in d["states"]])
                for f_ in (tw.jacobian, tw.grad, tw.diff_jacobian, tw.grad_jacobian):
                    f_(xtw, float(ptw["t"]))
            m, order = mg.build(d, route=route, rng=np.random.default_rng(k))
            pt = mg.random_point(rng, d)
            pv = pyg_derivs(m, pt)
            f = compare(d, order, pv, pt, m)
        except Exception as e:
            f = ("error", "%s: %s" % (type(e).__name__, str(e)[:200])); pv = None
        ck.case(inp, nontrivial=nontrivial(d))
        for e in d["events"]:
            dist["rate:" + e["kind"]] = dist.get("rate:" + e["kind"], 0) + 1
        dist["nS=%d,nP=%d" % (len(d["states"]), len(d["params"]))] = dist.get("nS=%d,nP=%d" % (len(d["states"]), len(d["params"])), 0) + 1
        if f:
            ck.violation(f[0], f[1], dict(inp, point={k2: str(v) for k2, v in pt.items()} if pv else None))
        elif pv is not None and k % 4 == 0:
            try:
                g = after_growth(d, route, k, pt)
            except Exception as e:
                g = ("after-add_event/error", "%s: %s" % (type(e).__name__, str(e)[:200]))
            dist["sequence:after-add_event"] = dist.get("sequence:after-add_event", 0) + 1
            if g:
                ck.violation(g[0], g[1], dict(inp, grown=True, point={k2: str(v) for k2, v in pt.items()}))
        if pv is not None:
            try:
                cases.append((coq_case(d, order, pv, pt), inp))
            except NoConv:
                skipped += 1
    ck.notes["input_distribution"] = dist
    ck.notes["not_convertible_to_the_expression_grammar"] = skipped
    files = []
    shard = 6
    for s in range(0, len(cases), shard):
        files.append(("c03_cases_%d" % (s // shard), COQ_HEAD + "Definition cases : list dcase := [\n " +
                      ";\n ".join(c for c, _ in cases[s:s + shard]) + "].\nEval vm_compute in failing chk cases.\n"))
    outs = ck.coq_eval_many(files, timeout=900) if files else {}
    bad = []
    for s in range(0, len(cases), shard):
        bad += [s + i for i in common.parse_int_list(outs["c03_cases_%d" % (s // shard)][0])]
    ck.notes["correspondence_cases"] = len(cases)
    ck.notes["correspondence_disagreements"] = len(bad)
    if bad:
        ck.broken.append(dict(theorem="correspondence: Coq differentiator D in pygom's layouts (exact) vs pygom's symbolic derivative objects",
                              file="c03_cases", error=json.dumps(cases[bad[0]][1])[:1500]))
    ck.assumptions += ["sympy parsing of rate strings into the expression grammar is trusted for building the Coq literal (validated per "
                       "case: a parse difference shows as a disagreement)",
                       "transcendental leaves are evaluated by sympy.N at 50 digits and entered as an oracle table (tolerance 1e-22 relative)"]


def replay(ck, data):
    inp = data["input"]
    d = inp["definition"]
    m, order = mg.build(d, route=inp.get("route", "event"), rng=np.random.default_rng(inp.get("seed", 0)))
    if inp.get("point"):
        pt = {k: Fraction(v) for k, v in inp["point"].items()}
    else:
        pt = mg.random_point(np.random.default_rng(0), d)
    if inp.get("grown"):
        g = after_growth(d, inp.get("route", "event"), inp.get("seed", 0), pt)
        return g[1] if g else None
    f = compare(d, order, pyg_derivs(m, pt), pt, m)
    return f[1] if f else None
