"""Hygiene gate run by setup.sh: nothing in the Coq development may declare an axiom — no Axiom / Parameter / Conjecture /
Admitted / admit / Admit Obligations, no Variable / Hypothesis / Context outside a Section, no kernel-check switches."""
import glob, os, re, sys
V = os.path.join(os.path.dirname(os.path.dirname(os.path.abspath(__file__))), "coq")


def strip_comments(t):
    out, depth, i = [], 0, 0
    while i < len(t):
        if t.startswith("(*", i): depth += 1; i += 2; continue
        if t.startswith("*)", i) and depth: depth -= 1; i += 2; continue
        if not depth or t[i] == "\n": out.append(t[i])
        i += 1
    return "".join(out)


bad = []
for f in sorted(glob.glob(V + "/*.v") + glob.glob(V + "/Props/*.v") + glob.glob(V + "/Gen/*.v")):
    depth = 0
    for n, l in enumerate(strip_comments(open(f).read()).split("\n"), 1):
        if re.match(r"\s*Section\s+\w+", l): depth += 1
        elif re.match(r"\s*End\s+\w+\s*\.", l) and depth: depth -= 1
        if re.search(r"\b(Axiom|Axioms|Parameter|Parameters|Conjecture|Admitted|admit|Admit\s+Obligations)\b", l):
            bad.append((f, n, l.strip()))
        if re.search(r"Unset\s+(Guard Checking|Positivity Checking|Universe Checking)|bypass_check|type-in-type|impredicative-set", l):
            bad.append((f, n, l.strip()))
        if depth == 0 and re.match(r"\s*(Variable|Variables|Hypothesis|Hypotheses|Context)\b", l):
            bad.append((f, n, "outside a Section: " + l.strip()))
for b in bad:
    print("HYGIENE: %s:%d: %s" % b)
sys.exit(1 if bad else 0)
