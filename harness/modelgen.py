"""Random model definitions (DESIGN.md 2.3) produced simultaneously as
  (a) a JSON-able definition, (b) pygom constructor arguments for a chosen API route,
  (c) an independent exact evaluation (plain sympy on the rate STRINGS, no pygom) used for the Coq literal.
"""
from fractions import Fraction
import numpy as np
import sympy

STATE_POOLS = [["S", "I", "R", "E", "W"], ["X", "Y", "Z", "U", "V"], ["A", "B", "C", "D", "F"],
               ["y1", "y2", "y3", "y4", "y5"]]
PARAMS = ["beta", "gamma", "mu", "kappa", "nu"]


def gen_rate(rng, states, params, kinds, derived_ok=True):
    """returns (rate string, kind, needs_derived or None)"""
    k = kinds[int(rng.integers(0, len(kinds)))]
    p = params[int(rng.integers(0, len(params)))]
    q = params[int(rng.integers(0, len(params)))]
    X = states[int(rng.integers(0, len(states)))]
    Y = states[int(rng.integers(0, len(states)))]
    if k == "const":
        return p, k, None
    if k == "linear":
        return "%s*%s" % (p, X), k, None
    if k == "massaction":
        return "%s*%s*%s/(%s)" % (p, X, Y, "+".join(states)), k, None
    if k == "massaction1":      # never singular on the non-negative orthant
        return "%s*%s*%s/(1+%s)" % (p, X, Y, "+".join(states)), k, None
    if k == "massaction2":
        return "%s*%s*%s" % (p, X, Y), k, None
    if k == "saturating":
        return "%s*%s/(%s+%s)" % (p, X, q, X), k, None
    if k == "exponential":
        return "%s*%s*exp(-%s*%s/7)" % (p, X, q, Y), k, None
    if k == "freqdep":
        # a derived parameter that is a function of the STATES (total population): d/dx goes through it by the chain rule
        return "%s*%s*%s/Ntot" % (p, X, Y), k, ("Ntot", "+".join(states))
    if k == "periodic":
        # time may only enter through a derived parameter
        name = "f%s" % p
        # the same derived-parameter NAME gets different definitions in different models of one run
        # (a parse cache keyed on names only would hand one model another model's forcing)
        forms = ["%s*(1+cos(t)/3)", "%s*(1+sin(t)/3)", "%s*(1+cos(t)/2)", "%s*(2+sin(t))/3", "%s*(3+cos(2*t))/4"]
        return "%s*%s" % (name, X), k, (name, forms[int(rng.integers(0, len(forms)))] % p)
    raise ValueError(k)


ALL_KINDS = ["linear", "linear", "massaction", "massaction2", "saturating", "exponential", "periodic", "const", "freqdep"]
BOUNDED_KINDS = ["linear", "linear", "massaction", "saturating", "const"]
JUMP_KINDS = ["linear", "linear", "massaction1", "saturating", "const"]


def gen_definition(rng, kinds=ALL_KINDS, max_states=5, max_events=5, max_trans=3, types="TBD",
                   sym_mag=True, odes=True, min_events=0, min_states=1):
    nS = int(rng.integers(min_states, max_states + 1))
    pool = int(rng.integers(0, 4))
    states = STATE_POOLS[pool][:nS]
    nP = int(rng.integers(1, 6))
    params = PARAMS[:nP]
    nE = int(rng.integers(min_events, max_events + 1))
    derived = {}
    events = []
    for _ in range(nE):
        rate, kind, der = gen_rate(rng, states, params, kinds)
        if der:
            derived[der[0]] = der[1]
        nT = int(rng.integers(1, max_trans + 1))
        trs = []
        for _ in range(nT):
            ty = types[int(rng.integers(0, len(types)))]
            if ty == "T" and nS < 2:
                ty = "BD"[int(rng.integers(0, 2))] if ("B" in types or "D" in types) else None
                if ty is None:
                    continue
            o = int(rng.integers(0, nS))
            d = int(rng.integers(0, nS))
            if ty == "T":
                while d == o:
                    d = int(rng.integers(0, nS))
            r = rng.random()
            if sym_mag and r < 0.2:
                mag = params[int(rng.integers(0, nP))]
            elif sym_mag and r < 0.3:       # a magnitude that is itself a sum / product (operator precedence in composed strings)
                p1, p2 = params[int(rng.integers(0, nP))], params[int(rng.integers(0, nP))]
                mag = ["%s + 1" % p1, "%s + %s" % (p1, p2), "2*%s" % p1, "1 + %s/2" % p1][int(rng.integers(0, 4))]
            else:
                mag = str(int(rng.integers(1, 4)))
            trs.append(dict(ty=ty, o=o if ty != "B" else None, d=d if ty != "D" else None, mag=mag))
        if trs:
            events.append(dict(rate=rate, kind=kind, trans=trs))
    ode_terms = []
    if odes and rng.random() < 0.35:
        for _ in range(int(rng.integers(1, 3))):
            rate, kind, der = gen_rate(rng, states, params, [k for k in kinds if k != "periodic"])
            if der:
                derived[der[0]] = der[1]
            sign = "-" if rng.random() < 0.5 else ""
            ode_terms.append(dict(state=int(rng.integers(0, nS)), eqn=sign + rate))
    decl = ["list", "comma", "space", "range"][int(rng.integers(0, 4))]
    if decl == "range" and pool != 3:
        decl = "list"            # the range form 'y1:n' (states y1 .. y(n-1)) needs the numbered pool
    return dict(states=states, params=params, derived=[[k, v] for k, v in derived.items()],
                events=events, odes=ode_terms, decl=decl)


# ------------------------------------------------------------------ independent exact evaluation
def symbols_of(d):
    names = list(d["states"]) + list(d["params"]) + ["t"]
    return {n: sympy.Symbol(n) for n in names}


def eval_string(s, d, point):
    """evaluate a rate/magnitude/equation string at an exact point {name: Fraction}, derived parameters expanded;
    returns Fraction (exact when rational, else a 40-digit rational approximation) and an exactness flag"""
    loc = symbols_of(d)
    for name, expr in d["derived"]:
        loc[name] = sympy.sympify(expr, locals=dict(loc))
    e = sympy.sympify(s, locals=dict(loc))
    sub = {sympy.Symbol(k): sympy.Rational(v.numerator, v.denominator) for k, v in point.items()}
    v = e.subs(sub)
    return to_fraction(v)


def to_fraction(v):
    v = sympy.nsimplify(v) if isinstance(v, (int,)) else v
    if getattr(v, "is_Rational", False):
        return Fraction(int(v.p), int(v.q)), True
    f = sympy.N(v, 45)
    if not f.is_real:
        raise ValueError("non-real value %s" % v)
    r = sympy.Rational(str(f))
    return Fraction(int(r.p), int(r.q)), False


def random_point(rng, d, positive=True):
    pt = {}
    for n in list(d["states"]) + list(d["params"]) + ["t"]:
        num = int(rng.integers(1, 40))
        den = int(rng.integers(1, 9))
        pt[n] = Fraction(num, den)
    return pt


def structure(d, point):
    """(events [(rate value, [(tycode, o, d, mag value)])], odes [(state, value)]), exactness flag"""
    exact = True
    evs = []
    for e in d["events"]:
        r, ex = eval_string(e["rate"], d, point)
        exact &= ex
        trs = []
        for tr in e["trans"]:
            m, ex = eval_string(tr["mag"], d, point)
            exact &= ex
            trs.append(("BDT".index(tr["ty"]), tr["o"] if tr["o"] is not None else 0,
                        tr["d"] if tr["d"] is not None else 0, m))
        evs.append((r, trs))
    odes = []
    for o in d["odes"]:
        v, ex = eval_string(o["eqn"], d, point)
        exact &= ex
        odes.append((o["state"], v))
    return evs, odes, exact


def spec_values(d, point):
    """the property's right-hand side computed directly (independent oracle, exact Fractions)"""
    evs, odes, exact = structure(d, point)
    nS, nE = len(d["states"]), len(evs)
    V = [[Fraction(0)] * nE for _ in range(nS)]
    for j, (r, trs) in enumerate(evs):
        for ty, o, dd, m in trs:
            if ty == 0: V[dd][j] += m
            elif ty == 1: V[o][j] -= m
            else:
                V[o][j] -= m; V[dd][j] += m
    rates = [r for r, _ in evs]
    pure = [Fraction(0)] * nS
    for s, v in odes:
        pure[s] += v
    ode = [sum(V[i][j] * rates[j] for j in range(nE)) + pure[i] for i in range(nS)]
    return dict(V=V, rates=rates, pure=pure, ode=ode, exact=exact)


def shift_range(d, start):
    """the numbered states y1..yn of a definition renamed y<start>..y<start+n-1>: a range such as 'y8:12' whose indices
    do not all have the same number of digits (names change everywhere at once; the definition stays the same model)"""
    import re, json as _json
    if start == 1 or not all(re.fullmatch(r"y\d+", n) for n in d["states"]):
        return d
    ren = lambda txt: re.sub(r"\by(\d+)\b", lambda mo: "y%d" % (int(mo.group(1)) - 1 + start), txt)
    d = _json.loads(_json.dumps(d))
    d["states"] = [ren(n) for n in d["states"]]
    for e in d["events"]:
        e["rate"] = ren(e["rate"])
        for tr in e["trans"]:
            tr["mag"] = ren(tr["mag"])
    for o in d["odes"]:
        o["eqn"] = ren(o["eqn"])
    for key in ("derived", "_twin_first"):
        if d.get(key):
            d[key] = [[k, ren(v)] for k, v in d[key]]
    d["range_from"] = start
    return d


# ------------------------------------------------------------------ pygom construction
def decl_states(d):
    s = d["states"]
    if d["decl"] == "range" and not any(l is not None for l in (d.get("lims") or [])):
        a = int(d.get("range_from", 1))
        return ["y%d:%d" % (a, a + len(s))]
    if d.get("lims"):
        # mixed declaration: plain names get the default (0, None); tuples carry explicit limits
        return [n if l is None else (n, tuple(l)) for n, l in zip(s, d["lims"])]
    if d["decl"] == "mixed":
        # a list that mixes plain names and (name, (lower, upper)) entries carrying the default limits: the order is the list's
        return [n if i % 2 == 0 else (n, (0, None)) for i, n in enumerate(s)]
    if d["decl"] == "comma": return ", ".join(s)
    if d["decl"] == "space": return " ".join(s)
    return list(s)


def build(d, route="event", rng=None, lambda_backend=True, order=None, reuse=False):
    """routes: event (Event objects), legacy (transition=/birth_death= lists where possible, else events),
       incremental (add_* calls), mixed (random per process)"""
    import pg
    if d.get("index_style") and d["decl"] == "range" and not any(l is not None for l in (d.get("lims") or [])):
        # a range-style declaration 'y1:n' may be addressed by position in every equation string: y[0] is y1, y[1] is y2, ...
        import re, json as _json
        a = int(d.get("range_from", 1))
        ix = lambda txt: re.sub(r"\by(\d+)\b", lambda mo: "y[%d]" % (int(mo.group(1)) - a), txt)
        d = _json.loads(_json.dumps(d))
        for e in d["events"]:
            e["rate"] = ix(e["rate"])
            for tr in e["trans"]:
                tr["mag"] = ix(tr["mag"])
        for o in d["odes"]:
            o["eqn"] = ix(o["eqn"])
        d["derived"] = [[k, ix(v)] for k, v in d["derived"]]
    S = d["states"]
    kw = dict(state=decl_states(d), param=list(d["params"]) if route != "legacy" or True else None)
    if d["derived"]:
        kw["derived_param"] = [(k, v) for k, v in d["derived"]]
    procs = []
    for k, e in enumerate(d["events"]):
        procs.append(("event", dict(e, _idx=k)))
    for o in d["odes"]:
        procs.append(("ode", o))
    if order is not None:
        procs = [procs[i] for i in order]

    LONG = {"T": "between states", "B": "birth process", "D": "death process"}

    def mk_tr(tr, eqn=None, birth_by_origin=None):
        a = dict(transition_type=tr["ty"], magnitude=tr["mag"])
        if birth_by_origin is None:
            # a birth may name its state as origin (the older spelling) on every route, Event members included
            birth_by_origin = bool(tr["ty"] == "B" and rng is not None and rng.random() < 0.3)
        if rng is not None and rng.random() < 0.12:
            a["transition_type"] = LONG[tr["ty"]]          # the documented long spelling of the type
        if tr["ty"] == "B":
            a["origin" if birth_by_origin else "destination"] = S[tr["d"]]
        elif tr["ty"] == "D":
            a["origin"] = S[tr["o"]]
        else:
            a["origin"] = S[tr["o"]]; a["destination"] = S[tr["d"]]
        if eqn is not None:
            a["equation"] = eqn
        return pg.Transition(**a)

    ev_objs, tr_objs, bd_objs, ode_objs, incr = [], [], [], [], []
    for kind, p in procs:
        if kind == "ode":
            obj = pg.Transition(origin=S[p["state"]], equation=p["eqn"], transition_type="ODE")
            (incr if route == "incremental" else ode_objs).append(("ode", obj))
            continue
        single = len(p["trans"]) == 1
        r = route
        if route == "mixed":
            r = ["event", "legacy", "incremental", "event_tr", "event_tr", "incr_legacy", "incr_tr", "event_solo"][int(rng.integers(0, 8))]
        if r == "split" and not single:
            # an Event of k transitions entered as k single-transition Events with the same rate (theorem C12_split_event)
            for t in p["trans"]:
                ev_objs.append((p["_idx"], pg.Event(rate=p["rate"], transition_list=[mk_tr(t)])))
            continue
        if r == "legacy" and single:
            tr = p["trans"][0]
            if tr["ty"] == "T":
                tr_objs.append((p["_idx"], mk_tr(tr, p["rate"])))
            else:
                bd_objs.append((p["_idx"], mk_tr(tr, p["rate"], birth_by_origin=bool(rng is not None and rng.random() < 0.5))))
        elif r == "event_tr" and single:
            # a Transition carrying its own rate wrapped in an Event without rate
            ev_objs.append((p["_idx"], pg.Event(transition_list=[mk_tr(p["trans"][0], p["rate"])])))
        elif r == "event_tr":
            # several transitions, exactly one of which carries the rate; the Event is given none
            j = int(rng.integers(0, len(p["trans"])))
            ev_objs.append((p["_idx"], pg.Event(transition_list=[mk_tr(t, p["rate"] if i == j else None)
                                                                 for i, t in enumerate(p["trans"])])))
        elif r == "event_solo" and single:
            # a solitary Transition handed to Event without a list around it
            ev_objs.append((p["_idx"], pg.Event(transition_list=mk_tr(p["trans"][0]), rate=p["rate"])))
        elif r == "incr_legacy" and single:
            # add_transition / add_birth_death after construction
            tr = p["trans"][0]
            incr.append((p["_idx"], ("T" if tr["ty"] == "T" else "BD",
                                     mk_tr(tr, p["rate"], birth_by_origin=bool(tr["ty"] == "B" and rng.random() < 0.5)))))
        elif r == "incr_tr" and single:
            # add_event given a Transition that carries its own rate
            incr.append((p["_idx"], mk_tr(p["trans"][0], p["rate"])))
        elif r in ("incremental", "incr_legacy", "incr_tr"):
            incr.append((p["_idx"], pg.Event(rate=p["rate"], transition_list=[mk_tr(t) for t in p["trans"]])))
        else:
            ev_objs.append((p["_idx"], pg.Event(rate=p["rate"], transition_list=[mk_tr(t) for t in p["trans"]])))
    if ev_objs: kw["event"] = [o for _, o in ev_objs]
    if tr_objs: kw["transition"] = [o for _, o in tr_objs]
    if bd_objs: kw["birth_death"] = [o for _, o in bd_objs]
    if ode_objs: kw["ode"] = [o for _, o in ode_objs]
    # a single birth/death process or ODE term may be handed over as the Transition itself (documented by the list setters)
    for key in ("birth_death", "ode"):
        if len(kw.get(key, ())) == 1 and (d.get("_bare") or (rng is not None and rng.random() < 0.35)):
            kw[key] = kw[key][0]
    # reuse: the same definition objects (Transition / Event instances) are used for a first model that is thrown away;
    # entering a definition into a model must not change the definition
    for _ in range(2 if reuse else 1):
        m = pg.model(lambda_backend=lambda_backend, **kw)
        for kind, o in incr:
            if kind == "ode": m.add_ode(o)
            elif isinstance(o, tuple) and o[0] == "T": m.add_transition(o[1])
            elif isinstance(o, tuple): m.add_birth_death(o[1])
            else: m.add_event(o)
    order_out = [k for k, _ in ev_objs] + [k for k, _ in tr_objs] + [k for k, _ in bd_objs] + \
                [k for k, _ in incr if k != "ode"]
    return m, order_out


def event_order(m, d):
    """pygom's event list order may differ from the definition's (routes are appended in constructor order);
    returns for each pygom event the (rate string, transitions) as pygom holds them"""
    out = []
    for e in m.event_list:
        out.append((str(e.rate), [(t.transition_type.name, t.origin, t.destination, str(t._magnitude)) for t in e.transition_list]))
    return out


# ------------------------------------------------------------------ Coq literals
def q(fr):
    return "(%d # %d)" % (fr.numerator, fr.denominator)


def coq_model(nS, evs, odes):
    es = "; ".join("(%s, [%s])" % (q(r), "; ".join("(%d%%nat, %d%%nat, %d%%nat, %s)" % (ty, o, dd, q(m)) for ty, o, dd, m in trs))
                   for r, trs in evs)
    os_ = "; ".join("(%d%%nat, %s)" % (s, q(v)) for s, v in odes)
    return "(%d%%nat, [%s], [%s])" % (nS, es, os_)
