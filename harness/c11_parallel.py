"""C11, parallel=True: declared limits hold on paths computed through the dask branch of solve_stochast (fresh process)."""
import json
import numpy as np


def main():
    from pygom import Transition, Event, SimulateOde
    m = SimulateOde(state=[("A", (0, None)), ("X", (0, 6)), ("D", (-3, None))], param=["k", "g"],
                    event=[Event(rate="k*A", transition_list=[Transition(origin="A", destination="X", transition_type="T")]),
                           Event(rate="g", transition_list=[Transition(origin="D", transition_type="D")])])
    m.parameters = {"k": 1.0, "g": 0.5}
    m.initial_values = ([20.0, 0.0, 0.0], np.float64(0))
    out = dict(limits=[[0, None], [0, 6], [-3, None]])
    try:
        for exact in (True, False):
            np.random.seed(3)
            X = m.solve_stochast(np.linspace(0.0, 8.0, 9), 6, exact=exact, parallel=True, full_output=True)[0]
            lo = np.min([np.asarray(x, dtype=float).min(axis=0) for x in X], axis=0)
            hi = np.max([np.asarray(x, dtype=float).max(axis=0) for x in X], axis=0)
            out["exact" if exact else "tau"] = dict(min=lo.tolist(), max=hi.tolist(), paths=len(X))
    except BaseException as e:       # noqa: B902
        out["error"] = "%s: %s" % (type(e).__name__, str(e)[:200])
    print("C11PAR " + json.dumps(out))


if __name__ == "__main__":
    main()
