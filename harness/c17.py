"""C17 — ABC keeps only particles inside the prior support and under the tolerance."""
import json, logging, math, os, sys
import numpy as np
import common
sys.path.insert(0, os.path.join(common.VERIF, "gen"))

REL_RECOMPUTE = 1e-6     # stored distance vs cost recomputed through the public API.  Same integrator: observed 0 when the
                         # back-transformed parameters are bit-identical, but 5.3e-9 when 10**x differs by ONE ulp (LSODA's
                         # step control amplifies it), hence not 1e-9; a wrong transform/order changes the cost by O(1)
REL_INDEP = 2e-3         # stored distance vs an independent solve_ivp (integrator error; observed < 2e-5)
REL_PRIOR = 1e-9         # logged w1 vs mpmath prior product (observed < 1e-14)
NEAR_TIE = 1e-9          # |cost - tol| <= NEAR_TIE*|tol| for a float-rounded quantile tolerance: case not sent to Coq
MAX_TRIALS = 6000        # per call; a run that needs more is abandoned (not a violation)


class Budget(Exception):
    pass


# ------------------------------------------------------------------ models (definition + independent right-hand side)
MODELS = {
    "SIR": dict(states=["S", "I", "R"], params=["beta", "gamma"],
                trans=[("S", "I", "beta*S*I"), ("I", "R", "gamma*I")],
                true=dict(beta=0.5, gamma=1.0 / 3.0), x0=[0.99, 0.01, 0.0]),
    "SEIR": dict(states=["S", "E", "I", "R"], params=["beta", "alpha", "gamma"],
                 trans=[("S", "E", "beta*S*I"), ("E", "I", "alpha*E"), ("I", "R", "gamma*I")],
                 true=dict(beta=0.9, alpha=0.5, gamma=0.25), x0=[0.98, 0.01, 0.01, 0.0]),
}


def rhs(model, p):
    if model == "SIR":
        return lambda t, x: [-p["beta"] * x[0] * x[1], p["beta"] * x[0] * x[1] - p["gamma"] * x[1], p["gamma"] * x[1]]
    return lambda t, x: [-p["beta"] * x[0] * x[2], p["beta"] * x[0] * x[2] - p["alpha"] * x[1],
                         p["alpha"] * x[1] - p["gamma"] * x[2], p["gamma"] * x[2]]


_ODE_CACHE = {}


def cached_ode(sc):
    """one model object per model family for the recomputations (never the one the ABC run uses); parameters are
    reset to the reference values on every use"""
    if sc["model"] not in _ODE_CACHE:
        _ODE_CACHE[sc["model"]] = build_ode(sc)
    m = _ODE_CACHE[sc["model"]]
    m.parameters = dict(MODELS[sc["model"]]["true"])
    return m


def build_ode(sc):
    import pg
    M = MODELS[sc["model"]]
    m = pg.model(state=M["states"], param=M["params"],
                 transition=[pg.Transition(origin=o, destination=d, equation=e, transition_type=pg.TransitionType.T)
                             for o, d, e in M["trans"]])
    m.parameters = dict(M["true"])
    return m


def obs_times(sc):
    return np.linspace(0.0, sc["tmax"], sc["nobs"] + 1)


def make_data(sc):
    """synthetic observations from an independent integrator (so that data do not depend on pygom)"""
    from scipy.integrate import solve_ivp
    M = MODELS[sc["model"]]
    t = obs_times(sc)
    sol = solve_ivp(rhs(sc["model"], M["true"]), (t[0], t[-1]), M["x0"], t_eval=t[1:], rtol=1e-10, atol=1e-12, method="DOP853")
    idx = [M["states"].index(s) for s in sc["obs"]]
    y = sol.y[idx, :].T
    return y if len(idx) > 1 else y[:, 0]


# ------------------------------------------------------------------ independent oracles
def prior_density(par, x):
    """mpmath evaluation of the prior density (R parametrisation: unif(min,max), gamma(shape,rate), norm(mean,sd))"""
    import mpmath as mp
    x = mp.mpf(float(x))
    a = [mp.mpf(float(v)) for v in par["args"]]
    if par["dist"] == "unif":
        return (1 / (a[1] - a[0])) if a[0] <= x <= a[1] else mp.mpf(0)
    if par["dist"] == "gamma":
        if x < 0:
            return mp.mpf(0)
        if x == 0:
            return mp.mpf(0) if a[0] > 1 else (a[1] if a[0] == 1 else mp.inf)
        return mp.exp(a[0] * mp.log(a[1]) + (a[0] - 1) * mp.log(x) - a[1] * x - mp.loggamma(a[0]))
    if par["dist"] == "norm":
        return mp.exp(-((x - a[0]) / a[1]) ** 2 / 2) / (a[1] * mp.sqrt(2 * mp.pi))
    raise ValueError(par["dist"])


def exact_quantile(xs, q):
    """numpy's default (linear) quantile in exact rational arithmetic"""
    from fractions import Fraction as F
    s = sorted(F(float(x)) for x in xs)
    n = len(s)
    h = (n - 1) * F(float(q))
    j = h.numerator // h.denominator
    f = h - j
    a, b = s[min(j, n - 1)], s[min(j + 1, n - 1)]
    return a + f * (b - a)


def natural_values(sc, row):
    """particle row -> {name: value on the natural scale}; own reading of the log-scale flag (10**x)"""
    arr = np.array([float(v) for v in row], dtype=float)
    mask = np.array([bool(p["log"]) for p in sc["pars"]])
    arr[mask] = 10 ** arr[mask]          # numpy's pow: Python's 10.0**x differs from it by 1 ulp on ~5% of inputs
    return {p["name"]: float(v) for p, v in zip(sc["pars"], arr)}


def independent_cost(sc, y, row):
    """cost at a particle with scipy's solve_ivp and hand-written equations (shares no code with pygom)"""
    from scipy.integrate import solve_ivp
    M = MODELS[sc["model"]]
    vals = natural_values(sc, row)
    p = dict(M["true"])
    x0 = list(M["x0"])
    for k, v in vals.items():
        if k in p:
            p[k] = v
        else:
            x0[M["states"].index(k)] = v
    if sc.get("constraint"):
        tot, st = sc["constraint"]
        j = M["states"].index(st)
        x0[j] = tot - sum(x0[i] for i in range(len(x0)) if i != j)
    t = obs_times(sc)
    sol = solve_ivp(rhs(sc["model"], p), (t[0], t[-1]), x0, t_eval=t[1:], rtol=1e-10, atol=1e-12, method="LSODA")
    if not sol.success or sol.y.shape[1] != len(t) - 1:
        return None
    idx = [M["states"].index(s) for s in sc["obs"]]
    yhat = sol.y[idx, :].T
    yy = np.asarray(y).reshape(yhat.shape)
    if sc["loss"] == "SquareLoss":
        w = np.ones_like(yy) if not sc.get("weights") else np.ones_like(yy) * np.array(sc["weights"], dtype=float)
        return float((((yy - yhat) * w) ** 2).sum())
    sig = float(sc.get("sigma", 1.0))
    return float((0.5 * math.log(2 * math.pi * sig ** 2) + (yy - yhat) ** 2 / (2 * sig ** 2)).sum())


def api_cost(sc, y, row):
    """cost recomputed through pygom's public loss API on a FRESH model/loss object; the mapping particle column ->
    parameter is done here by name (independent of ABC.par_order / _log_parameters)"""
    from pygom import SquareLoss, NormalLoss
    M = MODELS[sc["model"]]
    ode = cached_ode(sc)
    vals = natural_values(sc, row)
    tp = [p["name"] for p in sc["pars"] if p["name"] in M["params"]]          # particle order, not ode order
    ts = [p["name"] for p in sc["pars"] if p["name"] in M["states"]]
    x0 = list(M["x0"])
    for s in ts:
        x0[M["states"].index(s)] = vals[s]
    if sc.get("constraint"):
        tot, st = sc["constraint"]
        j = M["states"].index(st)
        x0[j] = tot - sum(x0[i] for i in range(len(x0)) if i != j)
    t = obs_times(sc)
    theta = [vals[n] for n in tp]
    kw = dict(theta=theta, ode=ode, x0=x0, t0=np.float64(t[0]), t=t[1:], y=y, state_name=list(sc["obs"]),
              target_param=tp or None)
    if sc["loss"] == "SquareLoss" and sc.get("weights"):
        kw["state_weight"] = list(sc["weights"])
    obj = SquareLoss(**kw) if sc["loss"] == "SquareLoss" else NormalLoss(sigma=float(sc.get("sigma", 1.0)), **kw)
    return float(obj.cost())


# ------------------------------------------------------------------ driving the real ABC with observation wrappers
class NpProxy(object):
    """stands in for the module global `np` of approximate_bayesian_computation: logs prod / dot, delegates the rest"""

    def __init__(self, log):
        self._log = log

    def __getattr__(self, name):
        return getattr(np, name)

    def prod(self, a, *k, **kw):
        r = np.prod(a, *k, **kw)
        self._log.on_prod(r)
        return r

    def dot(self, a, b, *k, **kw):
        r = np.dot(a, b, *k, **kw)
        self._log.on_dot(r)
        return r


class Log(object):
    def __init__(self):
        self.calls = []
        self.pending = []
        self.ntrials = 0

    def new_call(self):
        self.calls.append([])
        self.ntrials = 0

    def on_tol(self, g, tol):
        self.calls[-1].append(dict(arg=int(g), tol=float(tol), particles=[], cur=[]))

    def on_density(self, idx, x, val):
        self.pending.append((idx, float(x), float(val)))

    def on_prod(self, r):
        g = self.calls[-1][-1]
        self.ntrials += 1
        if self.ntrials > MAX_TRIALS:
            raise Budget()
        g["cur"].append(dict(idx=[p[0] for p in self.pending], x=[p[1] for p in self.pending],
                             dens=[p[2] for p in self.pending], w1=float(r), cost=None, w2=None))
        self.pending = []

    def on_cost(self, c):
        self.calls[-1][-1]["cur"][-1]["cost"] = float(c)

    def on_dot(self, r):
        self.calls[-1][-1]["cur"][-1]["w2"] = float(r)

    def on_return(self, ret):
        g = self.calls[-1][-1]
        w, rej, params, cost = ret
        g["particles"].append(dict(trials=g["cur"], w=float(w), rej=int(rej), params=[float(v) for v in np.atleast_1d(params)],
                                   cost=float(cost)))
        g["cur"] = []


def tolval(v, abc):
    if v == "inf":
        return np.inf
    if v == "next":
        return abc.next_tol
    if isinstance(v, list):
        return [tolval(x, abc) for x in v]
    return float(v)


def run_scenario(sc):
    """runs the calls of a scenario on the real pygom; returns (per-call records, y)"""
    import pg
    from pygom import approximate_bayesian_computation as pgabc
    from pygom.approximate_bayesian_computation import approximate_bayesian_computation as abcmod
    logging.disable(logging.CRITICAL)
    M = MODELS[sc["model"]]
    y = make_data(sc)
    ode = build_ode(sc)
    t = obs_times(sc)
    pars = [pgabc.Parameter(p["name"], p["dist"], *p["args"], logscale=bool(p["log"])) for p in sc["pars"]]
    np.random.seed(sc["seed"])
    kw = dict(sigma=float(sc.get("sigma", 1.0))) if sc["loss"] == "NormalLoss" else {}
    if sc["loss"] == "SquareLoss" and sc.get("weights"):
        kw["state_weight"] = list(sc["weights"])          # one weight per observed state
    # the initial state as the caller's own float array (kept, and compared after the run: inferring an initial condition tries
    # other values but must not write them into the caller's data)
    x0_buf = np.array(M["x0"], dtype=float)
    obj = pgabc.create_loss(sc["loss"], pars, ode, x0_buf, np.float64(t[0]), t[1:], y, list(sc["obs"]), **kw)
    abc = pgabc.ABC(obj, pars, constraint=tuple(sc["constraint"]) if sc.get("constraint") else None)
    log = Log()
    # --- wrappers (instance attributes and one module global; nothing in the repository is touched)
    for i, p in enumerate(pars):
        def dens(x, _p=p, _i=i, _orig=p.density):
            v = _orig(x)
            log.on_density(_i, x, v)
            return v
        p.density = dens
    orig_cost = obj.cost

    def cost(*a, **k):
        c = orig_cost(*a, **k)
        log.on_cost(c)
        return c
    obj.cost = cost
    orig_tol = abc.get_tolerance

    def get_tolerance(g):
        v = orig_tol(g)
        log.on_tol(g, v)
        return v
    abc.get_tolerance = get_tolerance
    orig_pg = abc._perform_generation

    def perform(**k):
        r = orig_pg(**k)
        log.on_return(r)
        return r
    abc._perform_generation = perform
    out = []
    saved_np = abcmod.np
    abcmod.np = NpProxy(log)
    try:
        for c in sc["calls"]:
            log.new_call()
            rec = dict(done=False, err=None)
            try:
                tol = tolval(c["tol"], abc)
                rec["tol_given"] = tol
                fn = abc.get_posterior_sample if c["kind"] == "get" else abc.continue_posterior_sample
                with pg.quiet():
                    fn(N=c["N"], tol=tol, G=c["G"], q=c.get("q"), M=c.get("M"))
                rec.update(done=True, res=abc.res.copy(), dist=abc.dist.copy(), w=abc.w.copy(),
                           tolerances=abc.tolerances.copy(), final_tol=float(abc.final_tol),
                           acc=abc.acceptance_rate.copy(), gens=log.calls[-1])
            except AssertionError as e:
                rec["err"] = "assert"
            except Budget:
                rec["err"] = "budget"
                out.append(rec)
                break
            except Exception as e:          # LinAlgError / ValueError from the kernels on degenerate populations
                rec["err"] = "crash:%s" % type(e).__name__
                out.append(rec)
                break
            out.append(rec)
    finally:
        abcmod.np = saved_np
        logging.disable(logging.NOTSET)
    if out and not np.array_equal(x0_buf, np.array(M["x0"], dtype=float)):
        out[0]["x0_modified"] = x0_buf.tolist()
    return out, y


# ------------------------------------------------------------------ the property, stated directly on the implementation
def judge(sc, recs, y, deep=True):
    if recs and recs[0].get("x0_modified") is not None:
        return [("caller-x0-modified", "the x0 array handed to create_loss reads %s after the ABC run (it was %s)"
                 % (recs[0]["x0_modified"], MODELS[sc["model"]]["x0"]))]
    return _judge(sc, recs, y, deep)


def _judge(sc, recs, y, deep=True):
    """returns a list of (cls, what); deep=False skips the (slower) independent integrations"""
    bad = []
    prev_final = None
    for ci, (c, r) in enumerate(zip(sc["calls"], recs)):
        if not r["done"]:
            continue
        tag = "call %d (%s N=%d G=%d q=%s M=%s)" % (ci, c["kind"], c["N"], c["G"], c.get("q"), c.get("M"))
        res, dist, w, tols = r["res"], r["dist"], r["w"], r["tolerances"]
        N = c["N"]
        if res.shape != (N, len(sc["pars"])) or dist.shape != (N,) or w.shape != (N,) or len(tols) != c["G"]:
            bad.append(("shape", "%s: res/dist/w/tolerances have shapes %s %s %s %s" % (tag, res.shape, dist.shape, w.shape, tols.shape)))
            continue
        if r["final_tol"] != tols[-1] and not (math.isinf(r["final_tol"]) and math.isinf(tols[-1])):
            bad.append(("final-tol", "%s: final_tol %r is not the last tolerance %r" % (tag, r["final_tol"], tols[-1])))
        gen_tol = tols[-1]
        for i in range(N):
            row = res[i]
            dens = [prior_density(p, v) for p, v in zip(sc["pars"], row)]
            if not all(d > 0 for d in dens):
                bad.append(("prior-support", "%s: particle %d = %s has prior density %s" % (tag, i, row.tolist(), [float(d) for d in dens])))
            if not (math.isfinite(w[i]) and w[i] > 0):
                bad.append(("weight", "%s: particle %d has weight %r" % (tag, i, float(w[i]))))
            if not (dist[i] < gen_tol):
                bad.append(("not-below-tolerance", "%s: particle %d has distance %r, tolerance of its generation %r" % (tag, i, float(dist[i]), float(gen_tol))))
            if deep and all(d > 0 for d in dens):
                c1 = api_cost(sc, y, row)
                if not abs(c1 - dist[i]) <= REL_RECOMPUTE * max(abs(c1), 1e-300):
                    bad.append(("dist-not-cost", "%s: particle %d stored distance %r but the cost recomputed at it is %r" % (tag, i, float(dist[i]), c1)))
                c2 = independent_cost(sc, y, row)
                if c2 is not None and not abs(c2 - dist[i]) <= REL_INDEP * max(abs(c2), 1e-6):
                    bad.append(("dist-not-cost", "%s: particle %d stored distance %r but an independent integration gives %r" % (tag, i, float(dist[i]), c2)))
        # tolerance schedule
        if not isinstance(r["tol_given"], list) and float(tols[0]) != float(r["tol_given"]):
            bad.append(("tolerance-first", "%s: first tolerance used %r, tolerance given %r" % (tag, float(tols[0]), float(r["tol_given"]))))
        if c.get("q") is not None:
            for gi in range(1, len(r["gens"])):
                prev = [p["cost"] for p in r["gens"][gi - 1]["particles"]]
                if prev and all(math.isfinite(v) for v in prev):
                    want = exact_quantile(prev, c["q"])
                    if not abs(float(tols[gi]) - float(want)) <= 1e-11 * max(abs(v) for v in prev):
                        bad.append(("tolerance-quantile", "%s: tolerance of generation %d is %r, the %r-quantile of the previous distances is %r"
                                    % (tag, gi, float(tols[gi]), c["q"], float(want))))
        if c.get("q") is not None:
            seq = ([prev_final] if (c["kind"] == "continue" and prev_final is not None) else []) + [float(v) for v in tols]
            if any(b > a for a, b in zip(seq, seq[1:])):
                bad.append(("tolerance-increase", "%s: tolerances under quantile scheduling %s" % (tag, seq)))
        elif isinstance(r["tol_given"], list):
            if [float(v) for v in tols] != [float(v) for v in r["tol_given"]]:
                bad.append(("tolerance-list", "%s: tolerances %s differ from the list given %s" % (tag, tols.tolist(), r["tol_given"])))
        prev_final = r["final_tol"]
        # what the wrappers saw, generation by generation (intermediate generations are not observable afterwards)
        for gi, g in enumerate(r["gens"]):
            first = (c["kind"] == "get" and gi == 0)
            for pi, p in enumerate(g["particles"]):
                for ti, t in enumerate(p["trials"]):
                    last = ti == len(p["trials"]) - 1
                    passes = (t["w1"] != 0 and not math.isnan(t["w1"])) and t["cost"] is not None and t["cost"] < g["tol"]
                    if t["idx"] != list(range(len(sc["pars"]))):
                        bad.append(("prior-index", "%s gen %d: prior densities evaluated for indices %s" % (tag, gi, t["idx"])))
                    ind = 1.0
                    for pr, x in zip(sc["pars"], t["x"]):
                        ind *= float(prior_density(pr, x))
                    if not abs(ind - t["w1"]) <= REL_PRIOR * max(ind, 1e-300):
                        bad.append(("prior-value", "%s gen %d: w1=%r but the prior product at %s is %r" % (tag, gi, t["w1"], t["x"], ind)))
                    if last and not passes:
                        bad.append(("accepted-bad-trial", "%s gen %d: accepted trial has w1=%r cost=%r tolerance=%r" % (tag, gi, t["w1"], t["cost"], g["tol"])))
                    if not last and passes:
                        bad.append(("skipped-good-trial", "%s gen %d: trial with w1=%r cost=%r < tolerance %r was not kept" % (tag, gi, t["w1"], t["cost"], g["tol"])))
                    if last:
                        if p["params"] != t["x"]:
                            bad.append(("particle-not-trial", "%s gen %d: returned particle %s, prior evaluated at %s" % (tag, gi, p["params"], t["x"])))
                        if t["cost"] is not None and p["cost"] != t["cost"]:
                            bad.append(("dist-not-cost", "%s gen %d: returned distance %r, cost of that trial %r" % (tag, gi, p["cost"], t["cost"])))
                        w2 = 1.0 if first else t["w2"]
                        if w2 is not None and w2 != 0 and not abs(p["w"] - t["w1"] / w2) <= 1e-12 * abs(p["w"]):
                            bad.append(("weight-value", "%s gen %d: returned weight %r, w1/w2 = %r" % (tag, gi, p["w"], t["w1"] / w2)))
                if p["rej"] != len(p["trials"]) - 1:
                    bad.append(("rejections", "%s gen %d: %d rejections reported, %d trials rejected" % (tag, gi, p["rej"], len(p["trials"]) - 1)))
            ntr = sum(len(p["trials"]) for p in g["particles"])
            if ntr and not abs(r["acc"][gi] - 100.0 * N / ntr) <= 1e-9 * r["acc"][gi]:
                bad.append(("acceptance-rate", "%s gen %d: acceptance rate %r, %d trials for %d particles" % (tag, gi, float(r["acc"][gi]), ntr, N)))
        # the final arrays are the last generation's returned tuples
        lastg = r["gens"][-1]["particles"]
        for i in range(min(N, len(lastg))):
            if res[i].tolist() != lastg[i]["params"] or float(dist[i]) != lastg[i]["cost"] or float(w[i]) != lastg[i]["w"]:
                bad.append(("store", "%s: row %d holds (%s, %r, %r), _perform_generation returned (%s, %r, %r)" % (
                    tag, i, res[i].tolist(), float(dist[i]), float(w[i]), lastg[i]["params"], lastg[i]["cost"], lastg[i]["w"])))
                break
    return bad


# ------------------------------------------------------------------ scenario generator
def gen_prior(rng, name, true, thorough):
    """prior around the true value; returns the JSON description"""
    kinds = ["unif", "unif", "gamma", "norm"] if thorough else ["unif", "unif", "unif", "gamma", "norm"]
    k = kinds[int(rng.integers(0, len(kinds)))]
    log = bool(rng.random() < (0.35 if thorough else 0.25))
    centre = math.log10(true) if log else true
    if k == "unif":
        if log:
            lo, hi = centre - float(rng.uniform(0.3, 1.0)), centre + float(rng.uniform(0.3, 1.0))
        else:
            lo, hi = float(rng.choice([0.0, round(true * 0.2, 3)])), round(true * float(rng.uniform(2.0, 5.0)), 3)
        return dict(name=name, dist="unif", args=[round(lo, 4), round(hi, 4)], log=log)
    if k == "gamma" and not log:
        shape = float(rng.choice([2.0, 3.0, 5.0]))
        return dict(name=name, dist="gamma", args=[shape, round(shape / (true * float(rng.uniform(0.8, 1.6))), 4)], log=False)
    sd = float(rng.uniform(0.2, 0.5)) * (1.0 if log else true)
    return dict(name=name, dist="norm", args=[round(centre * float(rng.uniform(0.8, 1.2)), 4), round(sd, 4)], log=log)


def sample_prior(rng, p):
    a = p["args"]
    if p["dist"] == "unif": return float(rng.uniform(a[0], a[1]))
    if p["dist"] == "gamma": return float(rng.gamma(a[0], 1.0 / a[1]))
    return float(rng.normal(a[0], a[1]))


def gen_scenario(rng, thorough, kind=None):
    model = "SIR" if rng.random() < (0.6 if thorough else 0.75) else "SEIR"
    M = MODELS[model]
    names = list(M["params"])
    # which quantities are inferred, and in which order they are given to ABC (par_order is then not the identity)
    k = int(rng.integers(2 if model == "SIR" else 2, len(names) + 1))
    chosen = [names[i] for i in rng.permutation(len(names))[:k]]
    constraint = None
    if rng.random() < (0.3 if thorough else 0.2):
        st = "I"
        chosen.insert(int(rng.integers(0, len(chosen) + 1)), st)
        if rng.random() < 0.5:
            constraint = [1.0, "S"]
    pars = []
    for n in chosen:
        true = M["true"][n] if n in M["true"] else M["x0"][M["states"].index(n)]
        pars.append(gen_prior(rng, n, true, thorough))
    r_obs = rng.random()
    obs = ["I", "R"] if r_obs < 0.45 else (["R", "I"] if r_obs < 0.7 else ["R"])      # (also named out of model order)
    sc = dict(model=model, tmax=float(rng.choice([30.0, 40.0, 60.0])), nobs=int(rng.integers(6, 13)), obs=obs,
              loss="SquareLoss" if (not thorough or rng.random() < 0.7) else "NormalLoss",
              pars=pars, constraint=constraint, seed=int(rng.integers(1, 2 ** 31 - 1)), calls=[])
    if sc["loss"] == "SquareLoss" and len(obs) == 2 and rng.random() < 0.35:
        sc["weights"] = [float(rng.choice([0.5, 2.0, 3.0])), float(rng.choice([0.25, 1.5, 2.0]))]
    if sc["loss"] == "NormalLoss":
        sc["sigma"] = float(rng.choice([0.05, 0.1, 0.2]))       # the data are proportions: a standard deviation of their order
    # pilot: prior-predictive costs -> feasible tolerances
    y = make_data(sc)
    costs = []
    for _ in range(40):
        row = [sample_prior(rng, p) for p in pars]
        try:
            costs.append(api_cost(sc, y, row))
        except Exception:
            pass
    costs = sorted(c for c in costs if math.isfinite(c))
    if len(costs) < 10:
        return None
    T0 = float(costs[int(len(costs) * float(rng.uniform(0.35, 0.7)))])
    if sc["loss"] == "NormalLoss":
        lst = lambda G: [round(T0 - 0.15 * abs(T0 - costs[0]) * j, 6) for j in range(G)]
    else:
        lst = lambda G: [float("%.6g" % (T0 * (0.7 ** j))) for j in range(G)]
    N = int(rng.integers(10, 41))
    Gmax = 4 if thorough else 3
    kind = kind or ["rejection", "list", "quantile", "quantile", "mnn", "mnn", "continued", "continued", "mixed", "mixed"][int(rng.integers(0, 10))]
    q = float(rng.choice([0.25, 0.3, 0.5, 0.5, 0.6, 0.75, 0.9]))
    Mnn = int(rng.choice([N - 1, int(rng.integers(3, max(4, N - 1)))]))
    first_tol = "inf" if rng.random() < 0.5 else float("%.6g" % T0)
    G = int(rng.integers(2, Gmax + 1))
    if kind == "rejection":
        calls = [dict(kind="get", N=N, tol=float("%.6g" % T0), G=1)]
    elif kind == "list":
        calls = [dict(kind="get", N=N, tol=lst(G), G=G)]
    elif kind == "quantile":
        calls = [dict(kind="get", N=N, tol=first_tol, G=G, q=q)]
    elif kind == "mnn":
        calls = [dict(kind="get", N=N, tol=first_tol, G=G, q=q, M=Mnn)]
        if rng.random() < 0.5:
            calls.append(dict(kind="continue", N=N, tol="next", G=int(rng.integers(1, 3)), q=q, M=Mnn))
    elif kind == "continued":
        calls = [dict(kind="get", N=N, tol=first_tol, G=G, q=q),
                 dict(kind="continue", N=N, tol="next", G=int(rng.integers(1, Gmax + 1)), q=q)]
        if rng.random() < 0.4:      # a continue that must be refused (tolerance above the previous final one)
            calls.insert(1, dict(kind="continue", N=N, tol=1e12, G=1, q=q))
        if rng.random() < 0.4:
            calls.append(dict(kind="continue", N=N, tol="next", G=1, q=float(rng.choice([0.4, 0.8]))))
    else:
        G2 = int(rng.integers(2, Gmax + 1))
        l2 = lst(G + G2)
        calls = [dict(kind="get", N=N, tol=l2[:G], G=G),
                 dict(kind="continue", N=N, tol=l2[G:], G=G2),
                 dict(kind="get", N=max(10, N // 2), tol=first_tol, G=2, q=q)]
        if rng.random() < 0.5:
            calls.append(dict(kind="continue", N=max(10, N // 2), tol="next", G=1))
    sc["calls"] = calls
    sc["kind"] = kind
    return sc


def boundary_scenario(rng, thorough):
    """rejection ABC whose tolerance is EXACTLY the cost of one of its own trials (generation 0 proposals do not
    depend on earlier accept decisions, so the same seed reproduces the stream): that trial must be rejected"""
    for _ in range(5):
        sc = gen_scenario(rng, thorough, kind="rejection")
        if sc is None:
            continue
        pil = json.loads(json.dumps(sc))
        pil["calls"] = [dict(kind="get", N=sc["calls"][0]["N"], tol="inf", G=1)]
        recs, _y = run_scenario(pil)
        if not recs or not recs[0]["done"]:
            continue
        costs = [p["trials"][-1]["cost"] for p in recs[0]["gens"][0]["particles"]]
        finite = sorted(c for c in costs if math.isfinite(c))
        if len(finite) < 4:
            continue
        sc["calls"] = [dict(kind="get", N=max(3, len(finite) // 3), tol=finite[len(finite) // 2], G=1)]
        sc["kind"] = "boundary"
        return sc
    return None


# ------------------------------------------------------------------ Coq case emission
def dy(x):
    """float -> '(m, e)' with x = m * 2^e exactly"""
    x = float(x)
    n, d = x.as_integer_ratio()
    if d == 1:
        e = 0
        while n and n % 2 == 0:
            n //= 2
            e += 1
        return "(%d, %d)" % (n, e)
    return "(%d, %d)" % (n, -(d.bit_length() - 1))


def ext(x):
    return "None" if math.isinf(x) and x > 0 else "(Some %s)" % dy(x)


def coq_call(c, tol_given):
    if isinstance(tol_given, list):
        ts = "(TList [%s])" % "; ".join("X %s" % ext(v) for v in tol_given)
    else:
        ts = "(TScalar (X %s))" % ext(tol_given)
    q = "None" if c.get("q") is None else "(Some (d %s))" % dy(c["q"])
    return "mkC %s %d%%nat %s %d%%nat %s" % ("true" if c["kind"] == "continue" else "false", c["N"], ts, c["G"], q)


def coq_case(sc, recs):
    """returns (text, ok) ; ok False when the case cannot be replayed exactly (non-finite numbers, near ties)"""
    calls, exps, stream, hist = [], [], [], []
    for c, r in zip(sc["calls"], recs):
        if r["err"] not in (None, "assert"):
            return None, "aborted:" + r["err"]
        if r["err"] == "assert":
            tg = r.get("tol_given")
            calls.append(coq_call(c, tg))
            exps.append("mkE false [] [] None [] []")
            continue
        calls.append(coq_call(c, r["tol_given"]))
        if c["kind"] == "get":
            hist = []
        counts = []
        for gi, g in enumerate(r["gens"]):
            inexact = c.get("q") is not None and g["arg"] > 0
            for p in g["particles"]:
                for ti, t in enumerate(p["trials"]):
                    last = ti == len(p["trials"]) - 1
                    vals = [t["w1"]] + ([t["cost"]] if t["cost"] is not None else []) + ([t["w2"]] if t["w2"] is not None else [])
                    if not all(math.isfinite(v) for v in vals + t["x"]):
                        return None, "non-finite"
                    if inexact and t["cost"] is not None and abs(t["cost"] - g["tol"]) <= NEAR_TIE * abs(g["tol"]):
                        return None, "near-tie"
                    cst = dy(t["cost"]) if t["cost"] is not None else "(0, 0)"
                    if last:
                        stream.append("T [%s] %s %s %s" % ("; ".join(dy(v) for v in t["x"]), dy(t["w1"]), cst,
                                                           dy(t["w2"]) if t["w2"] is not None else "(0, 0)"))
                    else:
                        stream.append("T [] %s %s (0, 0)" % (dy(t["w1"]), cst))
            counts.append(sum(len(p["trials"]) for p in g["particles"]))
        hist += [float(v) for v in r["tolerances"]]
        lastg = r["gens"][-1]["particles"]
        parts = "; ".join("([%s], %s, %s, %d%%nat)" % ("; ".join(dy(v) for v in r["res"][i]), dy(r["dist"][i]), dy(r["w"][i]),
                                                        lastg[i]["rej"]) for i in range(c["N"]))
        if not all(math.isfinite(v) for v in list(r["w"]) + list(r["dist"])):
            return None, "non-finite"
        exps.append("mkE true [%s] [%s] %s [%s]%%nat [%s]" % (parts, "; ".join(ext(v) for v in r["tolerances"]), ext(r["final_tol"]),
                                                             "; ".join("%d" % k for k in counts), "; ".join(ext(v) for v in hist)))
    return "([%s],\n  [%s],\n  [%s])" % (";\n   ".join(calls), ";\n   ".join(exps), ";\n   ".join(stream)), None


COQ_HEAD = """From Coq Require Import List ZArith QArith Qcanon Bool Arith.
From PV Require Import Util ABC Gen.ABCGen.
Import ListNotations. Open Scope Z_scope.
Definition d (p : Z * Z) : Qc := dy (fst p) (snd p).
Definition T (ps : list (Z * Z)) (w1 c w2 : Z * Z) : trial := mkT (map d ps) (d w1) (d c) (d w2).
Definition X (t : option (Z * Z)) : ext := match t with Some p => Fin (d p) | None => PInf end.
Definition pexp := (list (Z * Z) * (Z * Z) * (Z * Z) * nat)%type.
Record expd := mkE { e_done : bool; e_parts : list pexp; e_tols : list (option (Z * Z)); e_final : option (Z * Z);
                     e_counts : list nat; e_hist : list (option (Z * Z)) }.
Definition part_ok (p : part) (e : pexp) : bool :=
  let '(ps, di, w, rj) := e in
  plist_eqb (p_par p) (map d ps) && Qc_eqb (p_dist p) (d di) && close (p_w p) (d w) && Nat.eqb (p_rej p) rj.
Definition state_code (st : state) (e : expd) : nat :=
  if negb (all2 part_ok (s_parts st) (e_parts e)) then 1%nat else
  if negb (all2 ext_close (s_tols st) (map X (e_tols e))) then 2%nat else
  if negb (ext_close (s_final st) (X (e_final e))) then 3%nat else
  if negb (natlist_eqb (s_counts st) (e_counts e)) then 4%nat else
  if negb (all2 ext_close (s_hist st) (map X (e_hist e))) then 5%nat else 0%nat.
(* 0 = the model selects the same particles / rejections / tolerances / counters as pygom on this trial log;
   10*(call index+1)+k = first difference: k=1 particles, 2 tolerances, 3 final_tol, 4 trial counts, 5 history,
   6 model accepts a call pygom refused, 7 model refuses a call pygom ran, 8 log exhausted; 9 = unused trials left *)
Fixpoint trace (st : state) (cs : list call) (es : list expd) (s : list trial) (i : nat) : nat :=
  match cs, es with
  | [], [] => match s with [] => 0%nat | _ => 9%nat end
  | c :: cr, e :: er =>
    match do_call gen_code st c s with
    | Done st' s' => if e_done e then (match state_code st' e with O => trace st' cr er s' (S i) | k => (10 * S i + k)%nat end)
                     else (10 * S i + 6)%nat
    | Refused => if e_done e then (10 * S i + 7)%nat else trace st cr er s (S i)
    | Starved => (10 * S i + 8)%nat
    end
  | _, _ => 99%nat
  end.
Definition chk (c : list call * list expd * list trial) : nat := let '(cs, es, s) := c in trace init_state cs es s 0.
"""

CORPUS = [
    # get + refused continue + continue, log-scale + permuted parameter order, uniform priors
    dict(model="SIR", tmax=40.0, nobs=8, obs=["I", "R"], loss="SquareLoss", constraint=None, seed=12345, kind="corpus",
         pars=[dict(name="gamma", dist="unif", args=[0.0, 1.5], log=False), dict(name="beta", dist="unif", args=[-1.0, 0.5], log=True)],
         calls=[dict(kind="get", N=12, tol="inf", G=2, q=0.5), dict(kind="continue", N=12, tol=1e12, G=1, q=0.5),
                dict(kind="continue", N=12, tol="next", G=2, q=0.5)]),
    # tolerance list then continued list, inferred initial state with the population constraint
    dict(model="SIR", tmax=30.0, nobs=6, obs=["R"], loss="SquareLoss", constraint=[1.0, "S"], seed=777, kind="corpus",
         pars=[dict(name="I", dist="unif", args=[0.0, 0.05], log=False), dict(name="gamma", dist="gamma", args=[3.0, 9.0], log=False),
               dict(name="beta", dist="norm", args=[0.5, 0.2], log=False)],
         calls=[dict(kind="get", N=10, tol=[0.5, 0.35], G=2), dict(kind="continue", N=10, tol=[0.3, 0.26], G=2),
                dict(kind="continue", N=10, tol=0.25, G=1)]),
    # an inferred initial state listed before the rates (par_order is not the identity) with mixed log10 flags: the
    # back-transform must hit the entries the flags were given for
    dict(model="SIR", tmax=40.0, nobs=8, obs=["I", "R"], loss="SquareLoss", constraint=None, seed=2718, kind="corpus",
         pars=[dict(name="I", dist="unif", args=[0.0, 0.05], log=False), dict(name="beta", dist="unif", args=[-0.6, 0.1], log=True),
               dict(name="gamma", dist="unif", args=[0.1, 0.6], log=False)],
         calls=[dict(kind="get", N=12, tol="inf", G=1)]),
    dict(model="SIR", tmax=40.0, nobs=8, obs=["I", "R"], loss="SquareLoss", constraint=[1.0, "S"], seed=31415, kind="corpus",
         pars=[dict(name="gamma", dist="unif", args=[-1.0, -0.2], log=True), dict(name="I", dist="unif", args=[0.0, 0.05], log=False),
               dict(name="beta", dist="unif", args=[0.2, 1.2], log=False)],
         calls=[dict(kind="get", N=12, tol="inf", G=2, q=0.5)]),
    # per-state weights on the squared residuals
    dict(model="SIR", tmax=40.0, nobs=8, obs=["I", "R"], loss="SquareLoss", weights=[0.5, 2.0], constraint=None, seed=577, kind="corpus",
         pars=[dict(name="beta", dist="unif", args=[0.3, 0.8], log=False), dict(name="gamma", dist="unif", args=[0.2, 0.5], log=False)],
         calls=[dict(kind="get", N=12, tol="inf", G=2, q=0.5)]),
    # observed states named out of model order (data column j belongs to the j-th NAMED state), with per-state weights
    dict(model="SIR", tmax=40.0, nobs=8, obs=["R", "I"], loss="SquareLoss", weights=[0.5, 2.0], constraint=None, seed=9001, kind="corpus",
         pars=[dict(name="beta", dist="unif", args=[0.3, 0.8], log=False), dict(name="gamma", dist="unif", args=[0.2, 0.5], log=False)],
         calls=[dict(kind="get", N=12, tol="inf", G=2, q=0.5)]),
    # a normal likelihood whose standard deviation is not 1 (variance and standard deviation differ)
    dict(model="SIR", tmax=40.0, nobs=8, obs=["I", "R"], loss="NormalLoss", sigma=0.1, constraint=None, seed=1618, kind="corpus",
         pars=[dict(name="beta", dist="unif", args=[0.3, 0.8], log=False), dict(name="gamma", dist="unif", args=[0.2, 0.5], log=False)],
         calls=[dict(kind="get", N=12, tol="inf", G=2, q=0.5)]),
    # a prior that reaches the region where the trajectory overflows and the cost is NaN: such trials must be rejected
    dict(model="SIR", tmax=40.0, nobs=8, obs=["I", "R"], loss="SquareLoss", constraint=None, seed=4242, kind="corpus",
         pars=[dict(name="beta", dist="unif", args=[0.2, 0.8], log=False), dict(name="gamma", dist="norm", args=[0.3, 5.0], log=False)],
         calls=[dict(kind="get", N=14, tol=1e5, G=1)]),
]


def nontrivial(recs):
    gens = sum(len(r["gens"]) for r in recs if r["done"])
    rejected = sum(len(p["trials"]) - 1 for r in recs if r["done"] for g in r["gens"] for p in g["particles"])
    return gens >= 2 and rejected >= 1


def strip(sc):
    return {k: v for k, v in sc.items()}


def run(ck):
    import gen_abc
    thorough = not ck.quick
    ck.rule = ("ABC runs on SIR/SEIR models (2-4 inferred quantities given in random order, unif/gamma/norm priors, log10 flags, "
               "optional inferred initial state with population constraint), N in [10,40], schedules: rejection, tolerance "
               "list, quantile, MNN (M=N-1 and M<N-1), get/continue sequences incl. refused continues and fresh re-runs, "
               "boundary runs with tol == an observed cost; non-trivial = >= 2 generations and >= 1 rejected trial; distinct "
               "by scenario hash")
    ok = ck.coq_build("C17", [("ABCGen", gen_abc.generate())], extra=("Util.vo", "ABC.vo", "ABCProofs.vo"))
    common.name_assumptions(ck, "C17")
    chk_future = None
    if ok and thorough:          # independent re-check of the compiled proofs, in parallel with the pygom runs
        from concurrent.futures import ThreadPoolExecutor
        cmd = "timeout 900 coqchk -silent -o -R . PV PV.Props.C17"
        ck.checker_cmds.append("cd /verif/coq && " + cmd)
        chk_future = ThreadPoolExecutor(max_workers=1).submit(common.sh, cmd, 1000, common.COQ)
    rng = np.random.default_rng(ck.seed)
    import time
    t_start = time.time()
    n_sc = ck.budget(20, 240)
    scs = [json.loads(json.dumps(s)) for s in CORPUS]
    tries = 0
    while len(scs) < n_sc + len(CORPUS) and tries < 4 * n_sc:
        tries += 1
        s = boundary_scenario(rng, thorough) if tries % 7 == 3 else gen_scenario(rng, thorough)
        if s is not None:
            scs.append(s)
    dist, cases, skipped = {}, [], {}
    t_gen = time.time() - t_start
    t_run = t_judge = 0.0
    for sc in scs:
        t0 = time.time()
        recs, y = run_scenario(sc)
        t_run += time.time() - t0
        done = [r for r in recs if r["done"]]
        kind = sc.get("kind", "?")
        dist[kind] = dist.get(kind, 0) + 1
        for r in recs:
            key = "call:" + ("done" if r["done"] else r["err"])
            dist[key] = dist.get(key, 0) + 1
        for p in sc["pars"]:
            key = "prior:%s%s" % (p["dist"], ":log" if p["log"] else "")
            dist[key] = dist.get(key, 0) + 1
        ck.case(strip(sc), nontrivial=nontrivial(recs))
        t0 = time.time()
        bad = judge(sc, recs, y, deep=True)
        t_judge += time.time() - t0
        for cls, what in bad:
            ck.violation(cls, what, strip(sc))
        if done:
            text, why = coq_case(sc, recs)
            if text is None:
                skipped[why] = skipped.get(why, 0) + 1
            else:
                cases.append((sc, text))
    ck.notes["input_distribution"] = dist
    ck.notes["scenarios"] = len(scs)
    ck.notes["correspondence_skipped"] = skipped
    ck.notes["tolerances"] = dict(recompute_rel=REL_RECOMPUTE, independent_integrator_rel=REL_INDEP, prior_rel=REL_PRIOR,
                                  coq_weight_and_quantile_rel="weights: |a-b| <= 2^-40 |b| (one float division); tolerances: |a-b| <= 2^-40 (|b|+1) (numpy lerp rounding vs exact Qc, absolute floor against cancellation)",
                                  near_tie_rel=NEAR_TIE)
    # ---- K: the Coq model with the extracted code replays every trial log
    files = []
    per = 2 if ck.quick else 4
    for s in range(0, len(cases), per):
        body = ";\n ".join(t for _, t in cases[s:s + per])
        files.append(("c17_cases_%d" % (s // per), COQ_HEAD + "Definition cases := [\n " + body + "].\nEval vm_compute in map chk cases.\n"))
    disagree = []
    t0 = time.time()
    if files:
        outs = ck.coq_eval_many(files, timeout=900)
        for s in range(0, len(cases), per):
            codes = common.parse_int_list(outs["c17_cases_%d" % (s // per)][0])
            for j, code in enumerate(codes):
                if code != 0:
                    disagree.append((s + j, code))
    ck.notes["wall_breakdown_s"] = dict(generate=round(t_gen, 1), pygom_runs=round(t_run, 1), search=round(t_judge, 1),
                                        coq_replay=round(time.time() - t0, 1))
    ck.notes["correspondence_cases"] = len(cases)
    ck.notes["correspondence_trials"] = sum(t.count("T [") for _, t in cases)
    ck.notes["correspondence_disagreements"] = len(disagree)
    if disagree:
        i, code = disagree[0]
        ck.broken.append(dict(theorem="correspondence ABC.run (extracted code) vs pygom ABC on the logged trial stream",
                              file="c17_cases", error="code %d on scenario %s" % (code, json.dumps(cases[i][0]))))
    if chk_future is not None:
        rc, out = chk_future.result()
        ck.notes["coqchk"] = " ".join(out.split())[-300:]
        if rc != 0:
            ck.broken.append(dict(theorem="coqchk PV.Props.C17", file="Props/C17.vo", error=out[-800:]))
    ck.assumptions += [
        "external engines are the trial stream: prior sampling, rmvnorm/dmvnorm kernels (incl. MNN covariances), Parameter.density values, obj.cost values are logged by wrappers and are inputs of the model",
        "prior densities are >= 0 and the kernel sum w2 is > 0 and finite (checked at run time on every particle: weights finite and positive)",
        "floats enter Coq as exact dyadic rationals; w1/w2 and numpy's interpolated quantile are compared at relative 2^-40 because pygom rounds them",
        "tolerance may be +inf (ext type); NaN costs / non-finite numbers are outside the model (such logs are not replayed; counted)",
    ]


def replay(ck, data):
    sc = data.get("input")
    if not sc:                      # a broken obligation without a failing input: re-check the obligations
        import gen_abc
        ok = ck.coq_build("C17", [("ABCGen", gen_abc.generate())], extra=("Util.vo", "ABC.vo", "ABCProofs.vo"))
        return None if ok else "obligation still fails: %s" % ", ".join(str(b.get("theorem")) for b in ck.broken)
    recs, y = run_scenario(sc)
    bad = judge(sc, recs, y, deep=True)
    want = data.get("cls")
    for cls, what in bad:
        if want is None or cls == want:
            return what
    return bad[0][1] if bad else None
