"""C06 — cost is the stated loss of the model trajectory against the data.

K      : (a) BaseOdeModel.get_state_index on random name lists (orders, repeats, unknown names);
         (b) BaseLoss._setWeight_or_spread called directly on integer arrays of every shape class (scalar, (1,), (p,), (1,p),
             (p,1), (n,), (n,1), (n,p) and malformed ones), outcome = array (shape + entries) or error class;
         (c) whole loss objects on a probe model whose integrator is replaced by an INTEGER-valued stub solution
             H(parameters seen by the evaluators, x0, t0, t, state): constructor outcome, the weights / spread the loss object
             ends up with, and a sequence of cost / residual / costIV calls (theta with and without target_param,
             theta_and_x0 with and without target_state, wrong lengths, integer and float x0).
         The Coq model (LossAlign.v at Z, instantiated with the facts and decision trees the translator read from the
         source) computes the same; exact comparison.
search : real models (catalogue + random bounded-rate models, lambda back-end), all five loss classes, shuffled observed
         states, single observed state, target_param / target_state subsets, weights and spreads of every accepted form;
         cost / residual / costIV against kernel(reference trajectory): reference = scipy solve_ivp DOP853 rtol 1e-12 on a
         right-hand side lambdified here from the rate strings, kernels = plain squares or mpmath log-densities.
"""
import contextlib, json, os, sys, time, warnings
import numpy as np
import common
sys.path.insert(0, os.path.join(common.VERIF, "gen"))

UNKNOWN = 99                 # a name that is not declared
PBASE = 1000                 # packing base of the probe model's right-hand side
REL_TOL = 1e-6               # |cost - oracle| <= REL_TOL*|oracle| + ABS_TOL*scale   (DESIGN.md C06)
ABS_TOL = 1e-9


# ====================================================================== K: probe model + integer stub solution
_PROBES = {}


def probe_model(nS, nP):
    """nS states, nP parameters; d x_k/dt packs the parameters j = k (mod nS) in base PBASE, so that one evaluation
    of the model's own right-hand side tells which value every parameter is bound to"""
    import pg
    key = (nS, nP)
    if key not in _PROBES:
        st = ["x%d" % i for i in range(nS)]
        pa = ["p%d" % j for j in range(nP)]
        odes = []
        for k in range(nS):
            terms = ["%d*p%d" % (PBASE ** (j // nS), j) for j in range(nP) if j % nS == k]
            odes.append(pg.Transition(origin=st[k], equation=" + ".join(terms) if terms else "0*" + st[k],
                                      transition_type=pg.TransitionType.ODE))
        _PROBES[key] = pg.model(state=st, param=pa, ode=odes)
    return _PROBES[key]


def decode_params(func, x0, t0, nS, nP):
    """twice the parameter values the evaluators see (half units), read through ode_T"""
    v = np.asarray(func(float(t0), np.asarray(x0, dtype=float)), dtype=float).ravel()
    out = [0] * nP
    for k in range(nS):
        h = v[k] * 2.0
        if h != np.rint(h):
            raise common.InternalError("probe right-hand side is not a half-integer: %r" % v[k])
        h = int(np.rint(h))
        e = 0
        for j in range(k, nP, nS):
            out[j] = (h // (PBASE ** e)) % PBASE
            e += 1
    return out


def H(pvh, x0h, t0, t, k):
    """the stub solution; must be the same function as LossAlignCases.zsol (all arguments integers)"""
    return (3 * t * t + 11 * t0 + 7 * (k + 1) + (k + 1) * t
            + sum((j + 2) * (k + 3) * v for j, v in enumerate(pvh))
            + sum((l + 5) * (k + 1) * v for l, v in enumerate(x0h)))


def as_int(v):
    f = float(v)
    if f != np.rint(f) or abs(f) > 2 ** 52:
        raise ValueError("non-integer %r" % v)
    return int(np.rint(f))


@contextlib.contextmanager
def stub_integrator(nS, nP, log):
    from pygom.model import ode_utils

    def stub(func, jac, x0, t0, t, args=(), includeOrigin=False, full_output=False, method=None, nsteps=10000):
        pvh = decode_params(func, x0, t0, nS, nP)
        x0h = [as_int(2 * float(v)) for v in np.asarray(x0).ravel()]
        tl = [t] if np.isscalar(t) else list(t)
        rows = [[float(v) for v in np.asarray(x0, dtype=float).ravel()]] if includeOrigin else []
        for ti in tl:
            rows.append([float(H(pvh, x0h, as_int(t0), as_int(ti), k)) for k in range(nS)])
        log.append(dict(pvh=pvh, x0h=x0h, n=len(tl), origin=bool(includeOrigin)))
        sol = np.array(rows)
        return (sol, dict()) if full_output else sol

    old = ode_utils.integrateFuncJac
    ode_utils.integrateFuncJac = stub
    try:
        yield
    finally:
        ode_utils.integrateFuncJac = old


def sname(i):
    return "x%d" % i if i != UNKNOWN else "zz"


def pname(i):
    return "p%d" % i if i != UNKNOWN else "qq"


# ---------------------------------------------------------------------- (a) get_state_index
def gen_index_case(rng):
    nS = int(rng.integers(1, 7))
    L = int(rng.integers(1, 6))
    names = [int(rng.integers(0, nS)) for _ in range(L)]
    r = rng.random()
    if r < 0.35:
        names = [int(v) for v in rng.permutation(nS)[:max(1, min(L, nS))]]
    if r > 0.85:
        names[int(rng.integers(0, len(names)))] = UNKNOWN
    form = ["list", "tuple", "symbol", "single"][int(rng.integers(0, 4))]
    if form in ("single", "symbol"):
        names = names[:1]
    return dict(nS=nS, names=names, form=form)


def run_index_case(c):
    import sympy
    m = probe_model(c["nS"], 1)
    nm = [sname(i) for i in c["names"]]
    arg = {"list": nm, "tuple": tuple(nm), "symbol": sympy.Symbol(nm[0]), "single": nm[0]}[c["form"]]
    try:
        out = m.get_state_index(arg)
        return dict(ok=True, idx=[int(v) for v in (out if isinstance(out, list) else [out])])
    except BaseException as e:      # noqa: B902
        return dict(ok=False, idx=[], err=type(e).__name__)


def coq_index_case(c, o):
    return "(%d%%nat, %s, %s, %s)" % (c["nS"], common.nat_list(c["names"]), common.coq_bool(o["ok"])
                                      if hasattr(common, "coq_bool") else ("true" if o["ok"] else "false"),
                                      common.nat_list(o["idx"]))


# ---------------------------------------------------------------------- (b) _setWeight_or_spread
def gen_shape(rng, n, p, legit_only=False):
    """an input shape for weights / spread; returns (kind, shape) with shape == () meaning a Python scalar"""
    kinds = ["pyscalar", "one", "one_one", "per_state", "per_state_row", "per_obs"]
    if p == 1:
        kinds += ["per_obs_col"]
    if not legit_only:
        kinds += ["per_state_col", "bad_vec", "bad_2d", "bad_rows", "bad_cols", "zero_d"]
    k = kinds[int(rng.integers(0, len(kinds)))]
    if k == "pyscalar": return k, None
    if k == "zero_d": return k, ()
    if k == "one": return k, (1,)
    if k == "one_one": return k, (1, 1)
    if k == "per_state": return k, (p,)
    if k == "per_state_row": return k, (1, p)
    if k == "per_state_col": return k, (p, 1)
    if k == "per_obs": return k, ((n,) if p == 1 and rng.random() < 0.5 else (n, p))
    if k == "per_obs_col": return k, (n, 1)
    if k == "bad_vec": return k, (int(rng.integers(2, 8)),)
    if k == "bad_2d": return k, (int(rng.integers(1, 6)), int(rng.integers(1, 6)))
    if k == "bad_rows": return k, (n + int(rng.integers(1, 3)), p)
    return k, (n, p + int(rng.integers(1, 3)))


def gen_array(rng, shape, lo=1, hi=6):
    if shape is None:
        return int(rng.integers(lo, hi))
    return rng.integers(lo, hi, size=shape)


def to_arg(x, as_list):
    if isinstance(x, int):
        return x
    return x.tolist() if (as_list and x.ndim >= 1) else x.astype(float)


def shape_data(x):
    """(shape list, flat data) as numpy sees the argument after check_array_type"""
    if isinstance(x, int):
        return [1], [x]
    return list(x.shape), [as_int(v) for v in x.ravel()]


def gen_bcast_case(rng):
    n = int(rng.integers(1, 6))
    p = int(rng.integers(1, 5))
    if rng.random() < 0.25:
        n = p
    kind, shape = gen_shape(rng, n, p)
    x = gen_array(rng, shape, 1, 50)
    return dict(n=n, p=p, kind=kind, x=x, as_list=bool(rng.random() < 0.3), is_weights=bool(rng.random() < 0.5))


_BL = {}


def bare_loss():
    """an object with BaseLoss's methods but none of its state (the method under test uses only its arguments)"""
    from pygom.loss.base_loss import BaseLoss
    if "o" not in _BL:
        _BL["o"] = BaseLoss.__new__(BaseLoss)
    return _BL["o"]


def err_code(e):
    s = str(e)
    if isinstance(e, AssertionError): return 1
    if isinstance(e, ValueError) and "broadcast" in s: return 2
    if isinstance(e, (TypeError, ValueError)) and ("unsized" in s or "unpack" in s): return 3
    if isinstance(e, ValueError) and "reshape" in s: return 5
    return 9


def run_bcast_case(c):
    try:
        out = bare_loss()._setWeight_or_spread(c["n"], c["p"], to_arg(c["x"], c["as_list"]), c["is_weights"])
        return dict(code=0, shape=list(out.shape), data=[as_int(v) for v in np.asarray(out).ravel()])
    except BaseException as e:      # noqa: B902
        return dict(code=err_code(e), shape=[], data=[], err="%s: %s" % (type(e).__name__, e))


def coq_bcast_case(c, o):
    shp, data = shape_data(c["x"])
    return "BC %d %d %s %s %d %s %s" % (c["n"], c["p"], common.nat_list(shp), common.z_list(data), o["code"],
                                       common.nat_list(o["shape"]), common.z_list(o["data"]))


# ---------------------------------------------------------------------- (c) whole loss objects
def half(rng, lo, hi, frac):
    """a value k/2; returns (python float, half units int)"""
    h = 2 * int(rng.integers(lo, hi))
    if rng.random() < frac:
        h += 1
    return h / 2.0, h


def gen_theta_iv(rng, c, wrong):
    """theta_and_x0 of an accepted length for the configuration (or a wrong one)"""
    nS, nP = c["nS"], c["nP"]
    tp, ts = c["tp"], c["ts"]
    ltp = len(tp) if tp is not None else nP
    lts = len(ts) if ts is not None else nS
    lens = []
    if tp is None and ts is None: lens = [nS + nP]
    elif tp is None: lens = [lts, nP + lts]
    elif ts is None: lens = [nS + len(tp), nS + nP]
    else: lens = [len(tp) + len(ts)]
    L = lens[int(rng.integers(0, len(lens)))]
    if wrong:
        L = int(rng.choice([v for v in range(0, nS + nP + 3) if v not in lens]))
    return L


def gen_loss_case(rng):
    nS = int(rng.integers(1, 5))
    nP = int(rng.integers(1, 5))
    p = int(rng.integers(1, nS + 1)) if rng.random() < 0.8 else int(rng.integers(1, 4))
    n = int(rng.integers(2, 6))
    r = rng.random()
    if r < 0.15: n = p
    if r > 0.96: n = 1
    # observed states, in any order, repeats allowed now and then
    if rng.random() < 0.8 and p <= nS:
        names = [int(v) for v in rng.permutation(nS)[:p]]
    else:
        names = [int(rng.integers(0, nS)) for _ in range(p)]
    bad = rng.random()
    if bad < 0.04: names[int(rng.integers(0, p))] = UNKNOWN
    elif bad < 0.08: names = names + [0]                      # len(state_name) != p
    names_none = bool(p == nS and rng.random() < 0.1 and bad >= 0.08)
    if names_none:
        names = list(range(nS))
    # targets
    tp = None
    if rng.random() < 0.55:
        k = int(rng.integers(1, nP + 1))
        tp = [int(v) for v in rng.permutation(nP)[:k]]
        q = rng.random()
        if q < 0.05: tp[int(rng.integers(0, k))] = UNKNOWN
        elif q < 0.10 and k >= 2: tp[0] = tp[1]
    ts = None
    if rng.random() < 0.5:
        k = int(rng.integers(1, nS + 1))
        ts = [int(v) for v in rng.permutation(nS)[:k]]
        q = rng.random()
        if q < 0.04: ts[int(rng.integers(0, k))] = UNKNOWN
        elif q < 0.08 and k >= 2: ts[0] = ts[1]
    t0 = int(rng.integers(-2, 3))
    tobs = sorted(int(v) for v in rng.choice(np.arange(t0 + 1, t0 + 13), size=n, replace=False))
    if rng.random() < 0.04:
        tobs = tobs + [tobs[-1] + 1]                            # len(t) != n
    # observations: integers, generic
    yflat = p == 1 and rng.random() < 0.6
    y = rng.integers(-40, 400, size=(n,) if yflat else (n, p))
    wk, wshape = gen_shape(rng, n, p, legit_only=rng.random() < 0.7)
    w = gen_array(rng, wshape, 1, 6)
    cls = "Normal" if rng.random() < 0.4 else "Square"
    sk, sshape, s = None, None, None
    if cls == "Normal":
        sk, sshape = gen_shape(rng, n, p, legit_only=rng.random() < 0.7)
        s = gen_array(rng, sshape, 2, 7)
    pv0 = [half(rng, 1, 60, 0.3) for _ in range(nP)]
    ltheta = len(tp) if tp is not None else nP
    if rng.random() < 0.06:
        ltheta = int(rng.choice([v for v in range(0, nP + 2) if v != ltheta]))
    theta = [half(rng, 1, 60, 0.3) for _ in range(ltheta)]
    x0 = [half(rng, 0, 20, 0.0) for _ in range(nS)]
    c = dict(nS=nS, nP=nP, n=n, p=p, names=names, names_none=names_none, tp=tp, ts=ts, t0=t0, tobs=tobs,
             y=y, w=w, wkind=wk, w_as_list=bool(rng.random() < 0.3), cls=cls, s=s, skind=sk,
             pv0=pv0, theta=theta, x0=x0, x0int=bool(rng.random() < 0.5), ops=[])
    for _ in range(int(rng.integers(1, 5))):
        kind = int(rng.choice([0, 1, 2, 2])) if cls == "Square" else int(rng.choice([1, 2]))
        given = bool(rng.random() < 0.75)
        th, isint = [], False
        if given and kind < 2:
            L = len(tp) if tp is not None else nP
            if rng.random() < 0.1:
                L = int(rng.choice([v for v in range(0, nP + 2) if v != L]))
            th = [half(rng, 1, 60, 0.3) for _ in range(L)]
        elif given:
            L = gen_theta_iv(rng, c, wrong=rng.random() < 0.12)
            frac = 0.0 if rng.random() < 0.3 else 0.5
            th = [half(rng, 1, 30, frac) for _ in range(L)]
            isint = bool(all(h % 2 == 0 for _, h in th) and rng.random() < 0.5)
        c["ops"].append(dict(kind=kind, given=given, theta=th, isint=isint))
    return c


def py_theta(th, isint=False):
    if isint:
        return [int(v) for v, _ in th]
    return np.array([v for v, _ in th], dtype=float)


def run_loss_case(c):
    from pygom import SquareLoss, NormalLoss
    nS, nP = c["nS"], c["nP"]
    m = probe_model(nS, nP)
    m.parameters = np.array([v for v, _ in c["pv0"]], dtype=float)
    log = []
    out = dict(built=False, ew=[], es=[], outs=[], log=log)
    x0 = [int(v) for v, _ in c["x0"]] if c["x0int"] else [float(v) for v, _ in c["x0"]]
    kw = dict(theta=py_theta(c["theta"]), ode=m, x0=x0, t0=c["t0"], t=np.array(c["tobs"], dtype=float),
              y=c["y"].astype(float),
              state_name=None if c["names_none"] else ([sname(i) for i in c["names"]] if len(c["names"]) != 1 or c["p"] != 1
                                                       else sname(c["names"][0])),
              state_weight=to_arg(c["w"], c["w_as_list"]),
              target_param=None if c["tp"] is None else [pname(i) for i in c["tp"]],
              target_state=None if c["ts"] is None else [sname(i) for i in c["ts"]])
    with stub_integrator(nS, nP, log), warnings.catch_warnings():
        warnings.simplefilter("ignore")
        try:
            if c["cls"] == "Normal":
                L = NormalLoss(sigma=to_arg(c["s"], False), **kw)
            else:
                L = SquareLoss(**kw)
        except BaseException as e:      # noqa: B902
            out["err"] = "%s: %s" % (type(e).__name__, e)
            return out
        out["built"] = True
        out["ew"] = [as_int(v) for v in np.asarray(L._lossObj._w).ravel()]
        out["es"] = [as_int(v) for v in np.asarray(L._lossObj._sigma).ravel()] if c["cls"] == "Normal" else [1] * len(out["ew"])
        for o in c["ops"]:
            th = py_theta(o["theta"], o["isint"]) if o["given"] else None
            try:
                if o["kind"] == 0:
                    v = L.cost(th)
                    out["outs"].append([0, [as_int(v)]])
                elif o["kind"] == 1:
                    v = np.asarray(L.residual(th), dtype=float).ravel()
                    if v.size and np.all(np.abs(v) > 1e300):        # residual() swallows every exception into +-max float
                        out["outs"].append([2, []])
                        break
                    out["outs"].append([1, [as_int(x) for x in v]])
                else:
                    v = L.costIV(th)
                    if c["cls"] == "Normal":
                        out["outs"].append([3, []])            # not an integer: only success is compared
                    else:
                        out["outs"].append([0, [as_int(v)]])
            except BaseException as e:      # noqa: B902
                out["outs"].append([2, []])
                out["op_err"] = "%s: %s" % (type(e).__name__, e)
                break
    return out


def opt_list(v, f):
    return "None" if v is None else "(Some %s)" % f(v)


def coq_loss_case(c, o):
    yshp, yd = shape_data(c["y"])
    wshp, wd = shape_data(c["w"])
    if c["s"] is None:
        sshp, sd = [1], [1]
    else:
        sshp, sd = shape_data(c["s"])
    h = lambda l: common.z_list([v for _, v in l])
    ops = "[" + "; ".join("(%d%%nat, %s, %s, %s)" % (op["kind"], cb(op["given"]), h(op["theta"]), cb(op["isint"]))
                          for op in c["ops"]) + "]"
    outs = "[" + "; ".join("(%d%%nat, %s)" % (k, common.z_list(v if v is not None else [])) for k, v in o["outs"]) + "]"
    es = o["es"] if o["es"] is not None else None
    return ("LC %d %d %s %s %s %s %s %s %s %s %s %s %s %s %s %s %s %s %s %s %s %s"
            % (c["nS"], c["nP"], common.nat_list(c["names"]), opt_list(c["tp"], common.nat_list),
               opt_list(c["ts"], common.nat_list), common.z_lit(c["t0"]), common.z_list(c["tobs"]),
               common.nat_list(yshp), common.z_list(yd), common.nat_list(wshp), common.z_list(wd),
               common.nat_list(sshp), common.z_list(sd), h(c["pv0"]), h(c["theta"]), h(c["x0"]), cb(c["x0int"]), ops,
               cb(o["built"]), common.z_list(o["ew"]), common.z_list(es if es is not None else []), outs))


def cb(b):
    return "true" if b else "false"


COQ_HEAD = """From Coq Require Import List ZArith Bool.
From PV Require Import Util Shapes LossAlign LossAlignCases Gen.LossAlignGen.
Import ListNotations. Open Scope Z_scope.
"""


def loss_case_json(c):
    d = dict(c)
    for k in ("y", "w", "s"):
        if isinstance(d[k], np.ndarray):
            d[k] = dict(shape=list(d[k].shape), data=d[k].ravel().tolist())
    return d


def run_K(ck, translator_ok=True):
    rng = np.random.default_rng([ck.seed, 6])
    files = []
    # when the translator failed closed there are no extracted facts: compare the code with the GOOD model instead
    F, WT, IT, RS = (("code_facts", "weight_tree", "iv_tree", "wos_reshapes") if translator_ok
                     else ("good_facts", "good_tree", "good_ivtree", "true"))
    # (a)
    icases = [gen_index_case(rng) for _ in range(ck.budget(200, 1000))]
    iouts = [run_index_case(c) for c in icases]
    for c, o in zip(icases, iouts):
        ck.case(dict(kind="index", **c), nontrivial=o["ok"] and len(c["names"]) >= 2 and c["names"] != sorted(c["names"]))
    body = ";\n ".join("(%d%%nat, %s, %s, %s)" % (c["nS"], common.nat_list(c["names"]), cb(o["ok"]), common.nat_list(o["idx"]))
                       for c, o in zip(icases, iouts))
    files.append(("c06_index", COQ_HEAD + "Definition cases := [\n " + body +
                  "].\nEval vm_compute in failing (chk_index (index_sorted %s)) cases.\n" % F))
    # (b)
    bcases = [gen_bcast_case(rng) for _ in range(ck.budget(800, 4000))]
    bouts = [run_bcast_case(c) for c in bcases]
    dist = {}
    for c, o in zip(bcases, bouts):
        key = "%s:%s" % (c["kind"], "ok" if o["code"] == 0 else "err%d" % o["code"])
        dist[key] = dist.get(key, 0) + 1
        ck.case(dict(kind="bcast", n=c["n"], p=c["p"], x=shape_data(c["x"])), nontrivial=o["code"] == 0 and c["p"] >= 2 and c["n"] >= 2)
    ck.notes["K_broadcast_distribution"] = dist
    unknown_err = [(c, o) for c, o in zip(bcases, bouts) if o["code"] == 9]
    shard = 400
    for s0 in range(0, len(bcases), shard):
        body = ";\n ".join(coq_bcast_case(c, o) for c, o in zip(bcases[s0:s0 + shard], bouts[s0:s0 + shard]))
        files.append(("c06_bcast_%d" % (s0 // shard), COQ_HEAD + "Definition cases := [\n " + body +
                      "].\nEval vm_compute in failing (chk_bcast %s %s) cases.\n" % (RS, WT)))
    # (c)
    lcases = [gen_loss_case(rng) for _ in range(ck.budget(1200, 6000))]
    louts = [run_loss_case(c) for c in lcases]
    ldist = dict(built=0, ctor_raised=0, ops=0, op_raised=0, shuffled=0, target_param=0, target_state=0, iv_fractional_into_int=0)
    for c, o in zip(lcases, louts):
        ldist["built" if o["built"] else "ctor_raised"] += 1
        ldist["ops"] += len(o["outs"])
        ldist["op_raised"] += sum(1 for k, _ in o["outs"] if k == 2)
        shuf = c["names"] != sorted(c["names"])
        ldist["shuffled"] += shuf
        ldist["target_param"] += c["tp"] is not None
        ldist["target_state"] += c["ts"] is not None
        ldist["iv_fractional_into_int"] += bool(c["x0int"] and c["ts"] is not None and any(
            op["kind"] == 2 and op["given"] and any(h % 2 for _, h in op["theta"]) for op in c["ops"]))
        ck.case(dict(kind="loss", **loss_case_json(c)), nontrivial=o["built"] and len(o["outs"]) >= 1 and (shuf or c["tp"] is not None))
    ck.notes["K_loss_distribution"] = ldist
    lshard = max(10, -(-len(lcases) // 16))
    for s0 in range(0, len(lcases), lshard):
        body = ";\n ".join(coq_loss_case(c, o) for c, o in zip(lcases[s0:s0 + lshard], louts[s0:s0 + lshard]))
        files.append(("c06_loss_%d" % (s0 // lshard), COQ_HEAD + "Definition cases : list lcase := [\n " + body +
                      "].\nEval vm_compute in failing_codes (chk_loss %s %s %s %s) cases.\n" % (F, RS, WT, IT)))
    t0 = time.time()
    res = ck.coq_eval_many(files)
    ck.notes["K_coq_wall_s"] = round(time.time() - t0, 1)
    disagree = []
    for i in common.parse_int_list(res["c06_index"][0]):
        disagree.append(("get_state_index", dict(case=icases[i], observed=iouts[i])))
    for s0 in range(0, len(bcases), shard):
        for i in common.parse_int_list(res["c06_bcast_%d" % (s0 // shard)][0]):
            c, o = bcases[s0 + i], bouts[s0 + i]
            disagree.append(("_setWeight_or_spread", dict(n=c["n"], p=c["p"], x=shape_data(c["x"]), observed=o)))
    for c, o in unknown_err:
        disagree.append(("_setWeight_or_spread (unclassified exception)", dict(n=c["n"], p=c["p"], x=shape_data(c["x"]), observed=o)))
    PART = {1: "constructor outcome", 2: "weights held by the loss object", 3: "spread held by the loss object",
            4: "cost/residual/costIV outcomes"}
    for s0 in range(0, len(lcases), lshard):
        for code in common.parse_int_list(res["c06_loss_%d" % (s0 // lshard)][0]):
            i, part = s0 + code // 10, code % 10
            o = dict(louts[i]); o.pop("log", None)
            disagree.append(("BaseLoss (%s)" % PART.get(part, part), dict(case=loss_case_json(lcases[i]), observed=o)))
    ck.notes["correspondence_cases"] = dict(index=len(icases), broadcast=len(bcases), loss=len(lcases))
    ck.notes["correspondence_disagreements"] = len(disagree)
    if disagree:
        what, d = disagree[0]
        kinds = sorted({w for w, _ in disagree})
        ck.broken.append(dict(theorem="correspondence LossAlign model vs %s" % what, file="c06_cases",
                              error="%d disagreement(s) in %s; first: %s" % (len(disagree), kinds, json.dumps(d, default=str)[:1500])))
    return disagree



# ====================================================================== search: real models against an independent oracle
SEARCH_CATALOGUE = ["SIR", "SEIR", "SIS", "SIR_Birth_Death", "SEIR_Birth_Death", "Lotka_Volterra", "SIR_norm", "FitzHugh",
                    "vanDerPol", "Influenza_SLIARD", "SIS_Periodic"]
LOSSES = ["Square", "Normal", "Gamma", "Poisson", "NegBinom"]
TRAJ_TOL = 3e-6          # C02's contract for the scipy.integrate.ode path: |x - ref| <= TRAJ_TOL*(1 + |ref|)
ZERO_TOL = 1e-10         # square cost on noise-free data at the data-generating parameters <= ZERO_TOL * sum(y^2)


def model_rhs(spec):
    """f(t, x, pvec) lambdified HERE from the rate strings of the spec (never from pygom's equations);
    pvec in the order of spec['porder']"""
    import sympy, c02
    names = list(spec["states"]) + list(spec["porder"])
    loc = {k: sympy.Symbol(k) for k in names}
    loc["t"] = sympy.Symbol("t")
    if spec["kind"] == "catalogue":
        ex = [sympy.sympify(r, locals=loc) for r in c02.CATALOGUE[spec["name"]]["rhs"]]
    else:
        ex = [sympy.Integer(0)] * len(spec["states"])
        idx = {s: i for i, s in enumerate(spec["states"])}
        for e in spec["events"]:
            r = sympy.sympify(e["rate"], locals=loc)
            for ty, o, d in e["trans"]:
                if ty in ("T", "D"):
                    ex[idx[o]] = ex[idx[o]] - r
                if ty in ("T", "B"):
                    ex[idx[d]] = ex[idx[d]] + r
    f = sympy.lambdify([loc["t"], [loc[s] for s in spec["states"]], [loc[k] for k in spec["porder"]]], ex, modules="math")
    return lambda t, x, pv: np.array(f(t, x, pv), dtype=float)


def ref_traj(rhs, pv, x0, t0, grid):
    from scipy.integrate import solve_ivp
    with warnings.catch_warnings():
        warnings.simplefilter("ignore")
        s = solve_ivp(lambda t, x: rhs(t, x, pv), (float(t0), float(grid[-1])), np.array(x0, dtype=float), method="DOP853",
                      t_eval=np.array(grid, dtype=float), rtol=1e-12, atol=1e-12)
    if not s.success or s.y.shape[1] != len(grid):
        raise common.InternalError("reference integrator failed")
    return s.y.T


def mp_kernel(cls, y, yh, s, w):
    """-log density of the loss class (mpmath), per observation; w enters the residual-based losses only"""
    import mpmath as mp
    mp.mp.dps = 30
    y, yh, s, w = mp.mpf(float(y)), mp.mpf(float(yh)), mp.mpf(float(s)), mp.mpf(float(w))
    if cls == "Square":
        return (w * (y - yh)) ** 2
    if cls == "Normal":
        r = w * (y - yh)
        return mp.log(s) + mp.log(2 * mp.pi) / 2 + r * r / (2 * s * s)
    if cls == "Poisson":
        return -(y * mp.log(yh) - yh - mp.loggamma(y + 1))
    if cls == "Gamma":        # mean yh, shape s
        return -((s - 1) * mp.log(y) - s * y / yh + s * mp.log(s / yh) - mp.loggamma(s))
    if cls == "NegBinom":     # mean yh, size s
        return -(mp.loggamma(y + s) - mp.loggamma(s) - mp.loggamma(y + 1) + s * mp.log(s / (s + yh)) + y * mp.log(yh / (s + yh)))
    raise ValueError(cls)


def mp_dkernel(cls, y, yh, s, w):
    """|d kernel / d yhat| (float), used to turn the trajectory tolerance into a cost tolerance"""
    if cls == "Square": return abs(2 * w * w * (y - yh))
    if cls == "Normal": return abs(w * w * (y - yh) / (s * s))
    if cls == "Poisson": return abs(1 - y / yh)
    if cls == "Gamma": return abs(s * (yh - y) / (yh * yh))
    return abs(s * (yh - y) / (yh * (s + yh)))


def expand(x, n, p, flat_ok=True):
    """the property's reading of a weight / spread input: scalar, one per state, or one per observation -> (n, p)"""
    if x is None:
        return np.ones((n, p))
    a = np.asarray(x, dtype=float)
    if a.size == 1:
        return np.full((n, p), float(a.ravel()[0]))
    if a.shape in ((n, p),) or (p == 1 and a.shape in ((n,), (n, 1))):
        return a.reshape(n, p)
    if a.size == p and a.shape in ((p,), (1, p), (p, 1)):
        return np.tile(a.reshape(1, p), (n, 1))
    raise ValueError("not a stated form")


def oracle_cost(cls, y2, yh2, s2, w2):
    import mpmath as mp
    tot, sens = mp.mpf(0), 0.0
    for i in range(y2.shape[0]):
        for j in range(y2.shape[1]):
            tot += mp_kernel(cls, y2[i, j], yh2[i, j], s2[i, j], w2[i, j])
            sens += mp_dkernel(cls, y2[i, j], yh2[i, j], s2[i, j], w2[i, j]) * TRAJ_TOL * (1 + abs(yh2[i, j]))
    return float(tot), sens


def gen_search_spec(rng, k):
    import c02
    if k % 2 == 0:
        name = SEARCH_CATALOGUE[(k // 2) % len(SEARCH_CATALOGUE)]
        spec = c02.spec_catalogue(name, rng)
        if (k // 2) % 4 == 3 or k == 2:
            # a calendar clock (day numbers): the catalogue models are autonomous, only the time axis is shifted
            spec = dict(spec, t0=738000.0)
    else:
        spec = c02.gen_valid_model(rng, nstate=int(rng.integers(1, 5)))
    return spec


def build_search_model(spec):
    import c02
    m = c02.build(spec)
    spec = dict(spec)
    spec["porder"] = [str(q) for q in m.param_list]
    if [str(s) for s in m.state_list] != list(spec["states"]) or set(spec["porder"]) != set(spec["params"]):
        raise common.InternalError("model declaration differs from the generator's: %s" % spec.get("name"))
    return m, spec


def gen_config(rng, spec, k, allow_single=True):
    """one loss configuration on a model; everything needed to rebuild it is in the returned dict (JSON-able)"""
    nS, pn = len(spec["states"]), list(spec["porder"])
    nP = len(pn)
    n = int(rng.integers(2, 8))
    p = 1 if rng.random() < 0.35 else int(rng.integers(1, nS + 1))
    if rng.random() < 0.2 and p >= 2:
        n = p
    if p == 1 and rng.random() < 0.15 and allow_single:
        n = 1                 # a single observation of a single state
    cols = [int(v) for v in rng.permutation(nS)[:p]]
    names_none = bool(p == nS and rng.random() < 0.12)
    if names_none:
        cols = list(range(nS))
    t0 = float(spec["t0"])
    grid = sorted(float(v) for v in t0 + spec["T"] * rng.uniform(0.08, 1.0, size=n))
    for i in range(1, n):
        if grid[i] - grid[i - 1] < 1e-3 * spec["T"]:
            grid[i] = grid[i - 1] + 1e-3 * spec["T"]
    grid_int = False
    if rng.random() < 0.3 and np.floor(t0 + spec["T"]) - np.floor(t0) >= 3:
        # integer-typed observation times (the initial time stays whatever it is, possibly fractional)
        ints = np.unique(np.rint(np.linspace(np.floor(t0) + 1, np.floor(t0 + spec["T"]), n)).astype(int))
        if len(ints) == n:
            grid, grid_int = [float(v) for v in ints], True
    cls = LOSSES[k % 5]
    theta_true = [float(spec["params"][q]) for q in pn]
    tp = None
    if nP >= 1 and rng.random() < 0.5:
        tp = [int(v) for v in rng.permutation(nP)[:int(rng.integers(1, nP + 1))]]
    ts = None
    if rng.random() < 0.5:
        ts = [int(v) for v in rng.permutation(nS)[:int(rng.integers(1, nS + 1))]]
    if tp is not None and ts is None and len(tp) + nS == nP:
        # _setParamStateInput refuses theta_and_x0 whose length equals num_param when only target_param is given (an explicit
        # InputError, recorded in reports/C06.md as an observation); keep the search inside what the method accepts
        ts = [int(v) for v in rng.permutation(nS)[:int(rng.integers(1, nS + 1))]]
    pert = lambda v: float(v) * float(1 + rng.uniform(-0.15, 0.15))
    tsel = tp if tp is not None else list(range(nP))
    ssel = ts if ts is not None else list(range(nS))
    x0 = [float(v) for v in spec["x0"]]
    x0_int = bool(all(v == int(v) for v in x0) and rng.random() < 0.6)
    wform = ["none", "scalar", "per_state", "per_obs", "per_state_row", "per_obs_col"][int(rng.integers(0, 6))]
    sform = ["scalar", "per_obs", "per_state", "scalar_int"][int(rng.integers(0, 4))]
    c = dict(spec=spec, n=n, p=p, cols=cols, names_none=names_none, grid=grid, grid_int=grid_int, cls=cls, tp=tp, ts=ts,
             theta0=[pert(theta_true[i]) for i in tsel], theta1=[pert(theta_true[i]) for i in tsel],
             theta_iv=[pert(theta_true[i]) for i in tsel] + [round(pert(x0[i]) + 0.5, 3) for i in ssel],
             x0=x0, x0_int=x0_int, noise=rng.uniform(-0.3, 0.3, size=(n, p)).tolist(),
             wform=wform, w=rng.uniform(0.5, 2.5, size=(n, p)).round(3).tolist(),
             sform=sform, s=rng.uniform(1.5, 4.0, size=(n, p)).round(3).tolist(), apply_weighting=bool(rng.random() < 0.85))
    return c


def shaped(form, a, n, p):
    """the weight / spread argument in the chosen accepted form, built from the (n, p) table a"""
    a = np.asarray(a, dtype=float)
    if form == "none": return None
    if form == "scalar": return float(a[0, 0])
    if form == "scalar_int": return int(round(a[0, 0])) + 1
    if form == "per_state": return a[0, :].tolist() if p > 1 else [float(a[0, 0])]
    if form == "per_state_row": return a[:1, :].copy()
    if form == "per_obs": return a[:, 0].copy() if p == 1 else a.copy()
    if form == "per_obs_col": return a[:, :1].copy() if p == 1 else a.copy()
    if form == "per_state_col": return a[0, :].reshape(p, 1).copy()
    raise ValueError(form)


def run_config(c, m=None):
    """evaluate the configuration on pygom and on the oracle; returns list of (cls, what) violations and a stats dict"""
    from pygom import SquareLoss, NormalLoss, GammaLoss, PoissonLoss, NegBinomLoss
    spec = c["spec"]
    if m is None:
        m, spec2 = build_search_model(spec)
        if spec2["porder"] != spec["porder"]:
            raise common.InternalError("parameter order changed")
    rhs = model_rhs(spec)
    pn, nS = spec["porder"], len(spec["states"])
    n, p, cols, grid, cls = c["n"], c["p"], c["cols"], c["grid"], c["cls"]
    theta_true = [float(spec["params"][q]) for q in pn]
    t0 = float(spec["t0"])
    x0 = list(c["x0"])
    ref_true = ref_traj(rhs, theta_true, x0, t0, grid)[:, cols]
    if cls in ("Gamma", "Poisson", "NegBinom") and (ref_true.min() < 1e-3 or (cls != "Gamma" and ref_true.max() < 3)):
        cls = "Normal"                        # count / positive losses need positive, not-tiny means
    y = ref_true * (1 + np.array(c["noise"]))
    if cls in ("Poisson", "NegBinom"):
        y = np.rint(np.abs(y))
    if cls == "Gamma":
        y = np.abs(y) + 1e-3
    wform = c["wform"] if (c["wform"] not in ("per_obs_col",) or p == 1) else "per_obs"
    warg = shaped(wform, c["w"], n, p)
    sarg = shaped(c["sform"], c["s"], n, p)
    w2 = expand(warg, n, p)
    s2 = expand(sarg, n, p) if cls in ("Normal", "Gamma", "NegBinom") else np.ones((n, p))
    aw = c["apply_weighting"]
    w_eff = w2 if aw else np.ones((n, p))
    tsel = c["tp"] if c["tp"] is not None else list(range(len(pn)))
    ssel = c["ts"] if c["ts"] is not None else list(range(nS))
    m.parameters = dict(zip(pn, theta_true))
    # half of the float configurations hand x0 over as a float ndarray that the caller keeps (and shares with a second loss object)
    x0_buf = np.array(x0, dtype=float) if (not c["x0_int"] and n % 2 == 0) else None
    kw = dict(theta=np.array(c["theta0"]), ode=m,
              x0=x0_buf if x0_buf is not None else ([int(v) for v in x0] if c["x0_int"] else list(x0)), t0=t0,
              t=(np.array([int(v) for v in grid], dtype=int) if c.get("grid_int") else np.array(grid)),
              y=(y[:, 0].copy() if p == 1 else y.copy()),
              state_name=None if c["names_none"] else ([spec["states"][j] for j in cols] if p > 1 else spec["states"][cols[0]]),
              state_weight=warg, target_param=None if c["tp"] is None else [pn[i] for i in c["tp"]],
              target_state=None if c["ts"] is None else [spec["states"][i] for i in c["ts"]])
    ctor = dict(Square=SquareLoss, Normal=NormalLoss, Gamma=GammaLoss, Poisson=PoissonLoss, NegBinom=NegBinomLoss)[cls]
    if cls == "Normal": kw["sigma"] = sarg
    if cls == "Gamma": kw["shape"] = sarg
    if cls == "NegBinom": kw["k"] = sarg
    viol, stats = [], dict(cls=cls, maxrel=0.0, calls=0)
    with warnings.catch_warnings():
        warnings.simplefilter("ignore")
        try:
            L = ctor(**kw)
        except BaseException as e:          # noqa: B902
            return [("constructor", "%sLoss refused a configuration inside the property's domain: %s: %s"
                     % (cls, type(e).__name__, e))], stats

        def full_theta(part):
            th = list(theta_true)
            for i, v in zip(tsel, part):
                th[i] = float(v)
            return th

        def judge(tag, call, theta_full, x0_eff, kind):
            try:
                got = call()
            except BaseException as e:          # noqa: B902
                viol.append(("raised", "%s of %sLoss raised on a configuration inside the property's domain: %s: %s"
                             % (tag, cls, type(e).__name__, e)))
                return
            yh = ref_traj(rhs, theta_full, x0_eff, t0, grid)[:, cols]
            if cls in ("Gamma", "Poisson", "NegBinom") and yh.min() < 1e-6:
                stats["skipped_nonpositive_mean"] = stats.get("skipped_nonpositive_mean", 0) + 1
                return                          # outside the domain of the density
            stats["calls"] += 1
            if kind == "cost":
                want, sens = oracle_cost(cls, y, yh, s2, w_eff)
                tol = max(REL_TOL * abs(want), 2 * sens) + ABS_TOL * (1 + abs(want))
                err = abs(float(got) - want)
                stats["maxrel"] = max(stats["maxrel"], err / (abs(want) + 1e-300))
                stats.setdefault("max_err_over_tol", 0.0)
                stats["max_err_over_tol"] = max(stats["max_err_over_tol"], err / tol)
                if not (err <= tol):
                    viol.append((tag, "%s of %sLoss is %.12g but the stated loss of the reference trajectory is %.12g "
                                      "(|diff| %.3g > tol %.3g)" % (tag, cls, float(got), want, err, tol)))
            else:
                want = (w_eff * (y - yh))
                g = np.asarray(got, dtype=float).reshape(n, p) if np.asarray(got).size == n * p else None
                tolm = w_eff * TRAJ_TOL * (1 + np.abs(yh)) * 2 + ABS_TOL
                if g is None or not np.all(np.abs(g - want) <= tolm):
                    viol.append((tag, "%s of %sLoss differs from w*(y - reference) (row i <-> time i, column j <-> j-th named "
                                      "state): got %s want %s" % (tag, cls, np.asarray(got).tolist(), want.tolist())))

        judge("cost", lambda: L.cost(apply_weighting=aw), full_theta(c["theta0"]), x0, "cost")
        judge("cost", lambda: L.cost(np.array(c["theta1"]), apply_weighting=aw), full_theta(c["theta1"]), x0, "cost")
        judge("residual", lambda: L.residual(np.array(c["theta1"]), apply_weighting=aw), full_theta(c["theta1"]), x0, "resid")

        def shared_model_cost():
            # somebody else (another loss object, the user) reassigns the parameters of the shared model object:
            # the loss must still integrate with ITS theta (the last one it was given)
            # (only the parameters this loss object estimates: the others are, by design, read from the model)
            m.parameters = {pn[i]: float(theta_true[i]) * 1.37 + 0.01 for i in tsel}
            return L.cost(apply_weighting=aw)
        judge("cost-after-model-reassigned", shared_model_cost, full_theta(c["theta1"]), x0, "cost")
        th_iv = c["theta_iv"]
        x0_eff = list(x0)
        for i, v in zip(ssel, th_iv[len(tsel):]):
            x0_eff[i] = float(v)
        tag = "costIV-int-x0" if (c["x0_int"] and c["ts"] is not None) else "costIV"
        L2 = None
        if x0_buf is not None:
            try:
                L2 = ctor(**dict(kw, theta=np.array(c["theta1"])))
            except BaseException:          # noqa: B902
                L2 = None
        judge(tag, lambda: L.costIV(np.array(th_iv), apply_weighting=aw), full_theta(th_iv[:len(tsel)]), x0_eff, "cost")
        # a second costIV with the SAME parameter values and other initial values (a scan over initial values), then plain cost again
        th_iv2 = list(th_iv[:len(tsel)]) + [float(v) * 1.21 + 0.37 for v in th_iv[len(tsel):]]
        x0_eff2 = list(x0)
        for i, v in zip(ssel, th_iv2[len(tsel):]):
            x0_eff2[i] = float(v)
        judge("costIV-second", lambda: L.costIV(np.array(th_iv2), apply_weighting=aw), full_theta(th_iv2[:len(tsel)]), x0_eff2, "cost")
        # (like theta, the initial values a loss object integrates from are the last ones it was given)
        judge("cost-after-costIV", lambda: L.cost(np.array(th_iv[:len(tsel)]), apply_weighting=aw), full_theta(th_iv[:len(tsel)]), x0_eff2, "cost")
        if x0_buf is not None:
            # the initial values a loss object was constructed with are its own: another object's costIV (which tries other
            # initial values) must change neither the caller's array nor what a sibling object integrates from
            if not np.array_equal(x0_buf, np.array(x0, dtype=float)):
                viol.append(("caller-x0-modified", "costIV on a %sLoss object changed the x0 array the caller constructed it with: %s -> %s"
                             % (cls, list(x0), x0_buf.tolist())))
            elif L2 is not None:
                judge("sibling-cost-after-costIV", lambda: L2.cost(np.array(c["theta1"]), apply_weighting=aw), full_theta(c["theta1"]), x0, "cost")
    return viol, stats


def zero_check(c, m):
    """noise-free data at the data-generating parameters: square cost ~ 0"""
    from pygom import SquareLoss
    spec = c["spec"]
    rhs = model_rhs(spec)
    pn = spec["porder"]
    theta_true = [float(spec["params"][q]) for q in pn]
    y = ref_traj(rhs, theta_true, c["x0"], float(spec["t0"]), c["grid"])[:, c["cols"]]
    m.parameters = dict(zip(pn, theta_true))
    p = c["p"]
    with warnings.catch_warnings():
        warnings.simplefilter("ignore")
        try:
            L = SquareLoss(np.array(theta_true), m, list(c["x0"]), float(spec["t0"]), np.array(c["grid"]),
                           y[:, 0].copy() if p == 1 else y.copy(),
                           [spec["states"][j] for j in c["cols"]] if p > 1 else spec["states"][c["cols"][0]])
            got = float(L.cost(np.array(theta_true)))
        except BaseException as e:          # noqa: B902
            return [("raised", "SquareLoss raised on noise-free data at the data-generating parameters: %s: %s"
                     % (type(e).__name__, e))], 0.0
    scale = float((y ** 2).sum()) + 1e-300
    if not (got <= ZERO_TOL * scale):
        return [("zero", "square cost on noise-free data at the data-generating parameters is %.3g (> %g * sum(y^2) = %.3g)"
                 % (got, ZERO_TOL, ZERO_TOL * scale))], got / scale
    return [], got / scale


def colvec_check(c, m):
    """per-state weights handed over as a (p, 1) column: refused, or applied per state — never silently per row"""
    from pygom import SquareLoss
    spec = c["spec"]
    n, p = c["n"], c["p"]
    if p < 2:
        return []
    rhs = model_rhs(spec)
    pn = spec["porder"]
    theta_true = [float(spec["params"][q]) for q in pn]
    yh = ref_traj(rhs, theta_true, c["x0"], float(spec["t0"]), c["grid"])[:, c["cols"]]
    y = yh * (1 + np.array(c["noise"]))
    wcol = np.asarray(c["w"], dtype=float)[0, :].reshape(p, 1)
    m.parameters = dict(zip(pn, theta_true))
    with warnings.catch_warnings():
        warnings.simplefilter("ignore")
        try:
            L = SquareLoss(np.array(theta_true), m, list(c["x0"]), float(spec["t0"]), np.array(c["grid"]), y.copy(),
                           [spec["states"][j] for j in c["cols"]], state_weight=wcol.copy())
            got = float(L.cost())
        except BaseException:               # noqa: B902  refused: fine
            return []
    want = float(((y - yh) ** 2 * np.tile(wcol.reshape(1, p), (n, 1)) ** 2).sum())
    if abs(got - want) > 1e-6 * abs(want) + 1e-9:
        rowwise = float(((y - yh) ** 2 * np.tile(wcol.reshape(p, 1), (1, p)) ** 2).sum()) if n == p else None
        return [("weights-column", "p = %d per-state weights given as a (%d, 1) column with n = %d observations are accepted but "
                 "cost = %.10g, the per-state reading gives %.10g%s" % (p, p, n, got, want,
                 "" if rowwise is None else " (per-observation-row reading: %.10g)" % rowwise))]
    return []


def bracket_name_check(loss_name):
    """a vector of twelve states declared as the range 'y0:12'; observed (and target) states named by position, 'y[11]', 'y[2]',
    'y[10]' (two-digit positions included): cost / residual / costIV against the closed form of the decay chain.  -> None or what fails"""
    import pg
    import pygom
    n, k0, k1 = 12, 0.8, 0.5
    odes = [pg.Transition(origin="y%d" % j, equation="-k*%d*y%d/12" % (j + 1, j), transition_type="ODE") for j in range(n)]
    m = pg.model(state=["y0:%d" % n], param=["k"], ode=odes)
    m.parameters = [("k", k0)]
    x0 = [float(5 + j) for j in range(n)]
    t = np.array([0.5, 1.0, 2.0])
    names, idx = ["y[11]", "y[2]", "y[10]"], [11, 2, 10]
    sol = lambda k, x: np.column_stack([x[j] * np.exp(-k * (j + 1) / 12 * t) for j in idx])
    Y = sol(k0, x0)
    kw = {"NormalLoss": dict(sigma=2.0)}.get(loss_name, {})
    try:
        L = getattr(pygom, loss_name)([k0], m, list(x0), 0.0, t, Y.copy(), names, target_state=["y[10]"], **kw)
        c0, c1 = float(L.cost([k0])), float(L.cost([k1]))
        r1 = np.asarray(L.residual([k1]), dtype=float)
        civ = float(L.costIV([k1, 17.0]))
    except Exception as e:      # noqa: B902
        return "%s on states named %s raised %s: %s" % (loss_name, names, type(e).__name__, str(e)[:120])
    x0b = list(x0)
    x0b[10] = 17.0
    if loss_name == "SquareLoss":
        want = lambda yh: float(((Y - yh) ** 2).sum())
    else:
        want = lambda yh: float((0.5 * ((Y - yh) / 2.0) ** 2 + np.log(2.0) + 0.5 * np.log(2 * np.pi)).sum())
    for tag, got, w in (("cost(k=%g)" % k0, c0, want(sol(k0, x0))), ("cost(k=%g)" % k1, c1, want(sol(k1, x0))),
                        ("costIV(k=%g, y[10](0)=17)" % k1, civ, want(sol(k1, x0b)))):
        if abs(got - w) > 1e-6 * abs(w) + 1e-9:
            return "%s with observed states %s (positions in the range 'y0:12'): %s = %.10g, the closed form gives %.10g" % (loss_name, names, tag, got, w)
    if r1.shape != Y.shape or not np.allclose(r1, Y - sol(k1, x0), rtol=1e-6, atol=1e-8):
        return "%s with observed states %s: residual(k=%g) differs from y - closed form (column j <-> j-th named state)" % (loss_name, names, k1)
    return None


def run_search(ck):
    rng = np.random.default_rng([ck.seed, 606])
    nmodels = ck.budget(50, 300)
    per_model = ck.budget(6, 10)
    stats = dict(models=0, configs=0, calls=0, max_rel_err=0.0, max_err_over_tol=0.0, max_zero_ratio=0.0, by_class={})
    t_start = time.time()
    for k in range(nmodels):
        spec = gen_search_spec(rng, k)
        try:
            m, spec = build_search_model(spec)
        except common.InternalError:
            raise
        stats["models"] += 1
        for r in range(per_model):
            c = gen_config(rng, spec, k * per_model + r, allow_single=(r >= 2))
            if r == 0 and c["p"] < 2 and len(spec["states"]) >= 2:       # make sure the column-vector probe runs on every model
                c["p"], c["cols"] = 2, [int(v) for v in rng.permutation(len(spec["states"]))[:2]]
                c["noise"] = rng.uniform(-0.3, 0.3, size=(c["n"], 2)).tolist()
                c["w"] = rng.uniform(0.5, 2.5, size=(c["n"], 2)).round(3).tolist()
                c["s"] = rng.uniform(1.5, 4.0, size=(c["n"], 2)).round(3).tolist()
                c["names_none"] = False
            if r == 1 and len(spec["states"]) >= 2:                        # and once with n == p
                c["p"] = 2; c["cols"] = [int(v) for v in rng.permutation(len(spec["states"]))[:2]]; c["n"] = 2
                c["grid"] = c["grid"][:2] if len(c["grid"]) >= 2 else c["grid"]
                for key in ("noise", "w", "s"):
                    c[key] = rng.uniform(0.6, 2.4, size=(2, 2)).round(3).tolist() if key != "noise" else rng.uniform(-0.3, 0.3, size=(2, 2)).tolist()
                c["names_none"] = False
            viol, st = run_config(c, m)
            stats["configs"] += 1
            stats["calls"] += st["calls"]
            stats["max_rel_err"] = max(stats["max_rel_err"], st["maxrel"])
            stats["max_err_over_tol"] = max(stats["max_err_over_tol"], st.get("max_err_over_tol", 0.0))
            stats["by_class"][st["cls"]] = stats["by_class"].get(st["cls"], 0) + 1
            shuffled = c["cols"] != sorted(c["cols"])
            ck.case(dict(kind="search", model=spec.get("name", "random"), n=c["n"], p=c["p"], cols=c["cols"], cls=st["cls"],
                         tp=c["tp"], ts=c["ts"], wform=c["wform"], sform=c["sform"], grid=c["grid"]),
                    nontrivial=shuffled or c["tp"] is not None or c["p"] == 1)
            for cls, what in viol:
                ck.violation(cls, what, dict(kind="config", config=c))
            if r < 2:
                for cls, what in colvec_check(c, m):
                    ck.violation(cls, what, dict(kind="colvec", config=c))
            if r == 0:
                v, ratio = zero_check(c, m)
                stats["max_zero_ratio"] = max(stats["max_zero_ratio"], ratio)
                for cls, what in v:
                    ck.violation(cls, what, dict(kind="zero", config=c))
    for ln in ("SquareLoss", "NormalLoss"):
        ck.case(dict(kind="bracket-names", loss=ln), nontrivial=True)
        bad = bracket_name_check(ln)
        if bad:
            ck.violation("state-named-by-position", bad, dict(kind="bracket-names", loss=ln))
    stats["wall_s"] = round(time.time() - t_start, 1)
    ck.notes["search"] = stats
    return stats


def run(ck):
    import gen_lossalign
    ck.rule = ("K: (a) random name lists for get_state_index (orders, repeats, unknown names, str / tuple / Symbol forms); "
               "(b) _setWeight_or_spread on integer arrays, n in 1..5, p in 1..4, shapes scalar/(1,)/(1,1)/(p,)/(1,p)/(p,1)/(n,)/(n,1)/(n,p) "
               "and malformed ones; (c) loss objects on a probe model with an integer stub solution: 1-4 states, 1-4 parameters, "
               "observed states in any order, target_param / target_state subsets (unknown and repeated names included), integer and "
               "float x0, 1-4 calls of cost / residual / costIV with right and wrong lengths; non-trivial = constructor succeeded, at "
               "least one call, shuffled names or a target_param.  Search: catalogue and random bounded-rate models, the five loss "
               "classes in turn, 2-7 noisy observations at random times, shuffled / single observed states, weights and spreads in every "
               "accepted form; non-trivial = shuffled names, target_param or single state; distinct by canonical JSON hash")
    gen_text = gen_lossalign.generate()
    tr_ok = "Definition translator_ok := true." in gen_text
    if not tr_ok:
        ck.notes["translator_failed_closed"] = gen_text.split("\n")[4][:400]
    ok = ck.coq_build("C06", [("LossAlignGen", gen_text)],
                      extra=("Util.vo", "Shapes.vo", "LossAlign.vo", "LossAlignCases.vo", "Gen/LossAlignGen.vo"))
    common.name_assumptions(ck, "C06")
    if ok and not ck.quick:
        # independent re-check of the compiled proofs (thorough tier only, ~1 min)
        cmd = "timeout 900 coqchk -silent -o -R . PV PV.Props.C06"
        ck.checker_cmds.append("cd /verif/coq && " + cmd)
        rc, out = common.sh(cmd, cwd=common.COQ, timeout=1000)
        ck.notes["coqchk"] = out[-600:]
        if rc != 0 or "* Axioms: <none>" not in out:
            ck.broken.append(dict(theorem="coqchk Props/C06.vo", file="Props/C06.vo", error=out[-1200:]))
    run_K(ck, tr_ok)
    run_search(ck)
    ck.notes["tolerances"] = dict(
        K="exact (integers; parameters and initial values in half units)",
        cost="|cost - oracle| <= max(%g*|oracle|, 2*sum|d kernel/d yhat|*%g*(1+|yhat|)) + %g*(1+|oracle|): the second term turns C02's "
             "trajectory contract for the scipy.integrate.ode path into a cost tolerance" % (REL_TOL, TRAJ_TOL, ABS_TOL),
        residual="|res - w*(y - ref)| <= 2*w*%g*(1+|ref|) + %g" % (TRAJ_TOL, ABS_TOL),
        zero="square cost on noise-free data <= %g * sum(y^2)" % ZERO_TOL)
    ck.assumptions += [
        "the ODE solution is an oracle in Coq (contract of C02); end to end the reference is scipy solve_ivp DOP853 rtol=atol=1e-12 on a "
        "right-hand side lambdified in the harness from the rate strings",
        "the loss kernels are an arbitrary function in Coq (property C14); end to end they are mpmath log-densities: Normal(residual*w; sigma), "
        "Poisson(y; yhat), Gamma(y; mean yhat, shape), NegBinom(y; mean yhat, size k); weights enter Square and Normal only, as the class "
        "docstrings say",
        "`self._ode.parameters = theta` follows property C09 (array: positional and of the declared length; dict: named update, others kept)",
        "numpy broadcasting of np.ones((n, p))*x for 1-d / 2-d x as transcribed in LossAlign.bcast_ones (validated by the exact K comparison); "
        "3-d inputs are outside the model",
    ]


def replay(ck, data):
    inp = data.get("input")
    if not inp:
        return None
    if inp.get("kind") == "bracket-names":
        return bracket_name_check(inp["loss"])
    c = inp["config"]
    m, _ = build_search_model({k: v for k, v in c["spec"].items() if k != "porder"})
    if inp["kind"] == "config":
        viol, _ = run_config(c, m)
    elif inp["kind"] == "colvec":
        viol = colvec_check(c, m)
    else:
        viol, _ = zero_check(c, m)
    want = data.get("cls")
    for cls, what in viol:
        if want is None or cls == want:
            return what
    return viol[0][1] if viol else None
