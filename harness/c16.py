"""C16 — seeded serial simulations are reproducible.

T : gen/gen_sources.py -> Gen/SourcesGen.v (source of every draw site on the serial paths; how the mean is formed)
K : (a) draw protocol: the values drawn at the listed sites, in order, are exactly the stream of an independent
        RandomState(seed) and the global generator ends in that generator's state (stochastic runs: logged
        rexp/rpois calls; random-parameter runs: run i is the integration with the i-th parameter set drawn
        from the independent generator);  (b) the consequences C16_prefix / C16_continue of the threaded-state
        model;  (c) the model's mean (Coq, exact rationals) of the returned runs against the reported mean.
S : the property stated on the implementation: same seed -> identical outputs (also on a fresh instance, with the
    outputs of full_output=False, and with a non-drawing evaluation between seeding and simulating) and identical
    final generator state; different seeds -> different outputs; reported mean == exact mean of the returned runs.
"""
import json, math, os, sys
from fractions import Fraction
import numpy as np
import common
sys.path.insert(0, os.path.join(common.VERIF, "gen"))

MEAN_TOL = 1e-12          # relative to mean |x_i| ; float summation error of n<=330 terms is <= n*2^-53 ~ 4e-14
MIN_EVENTS = 40           # different-seed comparison only on runs with at least this many events / draws


# ------------------------------------------------------------------ models
def build(spec):
    import pg
    T, TT = pg.Transition, pg.TransitionType
    k = spec["name"]
    if k == "sir":
        m = pg.model(state=["S", "I", "R"], param=["beta", "gamma", "N"],
                     transition=[T(origin="S", destination="I", equation="beta*S*I/N", transition_type=TT.T),
                                 T(origin="I", destination="R", equation="gamma*I", transition_type=TT.T)])
    elif k == "sirbd":
        m = pg.model(state=["S", "I", "R"], param=["beta", "gamma", "mu", "N"],
                     transition=[T(origin="S", destination="I", equation="beta*S*I/N", transition_type=TT.T),
                                 T(origin="I", destination="R", equation="gamma*I", transition_type=TT.T)],
                     birth_death=[T(origin="S", equation="mu*N", transition_type=TT.B),
                                  T(origin="S", equation="mu*S", transition_type=TT.D),
                                  T(origin="I", equation="mu*I", transition_type=TT.D),
                                  T(origin="R", equation="mu*R", transition_type=TT.D)])
    elif k == "chain":
        n = spec["k"]
        st = ["X%d" % i for i in range(n)]
        ps = ["k%d" % i for i in range(n - 1)]
        m = pg.model(state=st, param=ps,
                     transition=[T(origin=st[i], destination=st[i + 1], equation="%s*%s" % (ps[i], st[i]),
                                   transition_type=TT.T) for i in range(n - 1)])
    elif k == "seir":
        m = pg.model(state=["S", "E", "I", "R"], param=["beta", "alpha", "gamma", "N"],
                     transition=[T(origin="S", destination="E", equation="beta*S*I/N", transition_type=TT.T),
                                 T(origin="E", destination="I", equation="alpha*E", transition_type=TT.T),
                                 T(origin="I", destination="R", equation="gamma*I", transition_type=TT.T)])
    elif k == "burst":
        # an exponential in a rate (evaluators that need numpy's exp) and a jump size that is a parameter
        m = pg.model(state=["S", "I", "R"], param=["beta", "gamma", "N"],
                     event=[pg.Event(rate="beta*S*I/N*exp(-I/N)", transition_list=[T(origin="S", destination="I", transition_type=TT.T)]),
                            pg.Event(rate="gamma*I", transition_list=[T(origin="I", destination="R", transition_type=TT.T)]),
                            pg.Event(rate="1.5", transition_list=[T(destination="S", transition_type=TT.B, magnitude="1 + gamma")])])
    else:
        raise ValueError(k)
    return m


def param_names(spec):
    return {"sir": ["beta", "gamma", "N"], "sirbd": ["beta", "gamma", "mu", "N"], "burst": ["beta", "gamma", "N"],
            "seir": ["beta", "alpha", "gamma", "N"]}.get(spec["name"]) or ["k%d" % i for i in range(spec["k"] - 1)]


FROZEN = {
    "gamma": lambda st, a: st.gamma(a[0], 0.0, a[1]),          # shape, scale
    "uniform": lambda st, a: st.uniform(a[0], a[1]),           # loc, width
    "lognorm": lambda st, a: st.lognorm(a[0], 0.0, a[1]),      # sigma, scale
    "beta": lambda st, a: st.beta(a[0], a[1], 0.0, a[2]),      # a, b, scale
}
# (sampler, args) forms: pygom.utilR function name -> the same draw from an explicit numpy RandomState
TUPLE = {
    "rgamma": lambda rs, a: rs.gamma(a[0], scale=1.0 / a[1], size=1)[0],
    "runif": lambda rs, a: rs.uniform(low=a[0], high=a[1], size=1)[0],
    "rexp": lambda rs, a: rs.exponential(scale=1.0 / a[0], size=1)[0],
    "rchisq": lambda rs, a: rs.chisquare(df=a[0], size=1)[0],
    "rbeta": None,       # scipy beta.rvs: replayed through scipy with random_state
}
TUPLE_KW = {"rgamma": ["shape", "rate"], "runif": ["min", "max"], "rexp": ["rate"], "rchisq": ["df"],
            "rbeta": ["shape1", "shape2"]}


def param_value(ps):
    """JSON spec of one parameter -> the object handed to pygom"""
    import scipy.stats as st
    import pygom.utilR as uR
    if not isinstance(ps, dict):
        return float(ps)
    if ps["form"] == "frozen":
        return FROZEN[ps["dist"]](st, ps["args"])
    fn = getattr(uR, ps["fn"])
    if ps.get("kw"):
        return (fn, dict(zip(TUPLE_KW[ps["fn"]], ps["args"])))
    return (fn, tuple(ps["args"]))


def draw_param(ps, rs):
    """the same draw made on an explicit, independent RandomState (no pygom code involved)"""
    import scipy.stats as st
    if ps["form"] == "frozen":
        return FROZEN[ps["dist"]](st, ps["args"]).rvs(1, random_state=rs)[0]
    if ps["fn"] == "rbeta":
        return st.beta.rvs(ps["args"][0], ps["args"][1], size=1, random_state=rs)[0]
    return TUPLE[ps["fn"]](rs, ps["args"])


def set_params(m, case):
    names = param_names(case["model"])
    m.parameters = {n: param_value(case["params"][n]) for n in names}
    m.initial_values = ([float(v) for v in case["x0"]], np.float64(0.0))
    m.pre_tau = case.get("pre_tau")           # the public fixed-step option of the tau-leap algorithm (None = adaptive)


def is_random(case):
    return any(isinstance(v, dict) for v in case["params"].values())


def tval(case):
    return float(case["t"]) if case["tform"] == "scalar" else np.array(case["t"], dtype=float)


# ------------------------------------------------------------------ running and comparing
class DrawLog:
    """wraps stochastic_simulation.rexp / rpois (module globals) and records every call"""

    def __init__(self):
        import pygom.model.stochastic_simulation as ss
        self.ss, self.log = ss, []
        self.o_rexp, self.o_rpois = ss.rexp, ss.rpois

    def __enter__(self):
        def rexp(n, rate=1.0, seed=None):
            v = self.o_rexp(n, rate, seed=seed)
            self.log.append(("e", n, float(rate), repr(seed), v))
            return v

        def rpois(n, mu=1.0, seed=None):
            v = self.o_rpois(n, mu, seed=seed)
            self.log.append(("p", n, float(mu), repr(seed), v))
            return v
        self.ss.rexp, self.ss.rpois = rexp, rpois
        return self

    def __exit__(self, *a):
        self.ss.rexp, self.ss.rpois = self.o_rexp, self.o_rpois


def flat(out):
    """any nested output -> list of float arrays (order kept)"""
    if isinstance(out, (list, tuple)):
        r = []
        for o in out:
            r += flat(o)
        return r
    return [np.asarray(out, dtype=float)]


def same(a, b):
    fa, fb = flat(a), flat(b)
    return len(fa) == len(fb) and all(x.shape == y.shape and np.array_equal(x, y, equal_nan=True) for x, y in zip(fa, fb))


def state_eq(s1, s2):
    return s1[0] == s2[0] and np.array_equal(s1[1], s2[1]) and tuple(s1[2:]) == tuple(s2[2:])


def do_run(m, case, seed, n=None, full=True, log=None, pre=None, reseed=True):
    import pg
    if reseed:
        np.random.seed(seed)
    if pre is not None:
        pre(m)
    n = case["n"] if n is None else n
    with pg.quiet():
        if case["kind"] == "stoch":
            out = m.solve_stochast(tval(case), n, parallel=False, exact=case["exact"], full_output=full)
        elif case["kind"] == "param":
            out = getattr(m, case["fn"])(tval(case), n, parallel=False, full_output=full)
        else:
            outs = []
            for _ in range(n):
                m.parameters = {k: param_value(case["params"][k]) for k in param_names(case["model"])}
                outs.append([float(np.asarray(v, dtype=float).ravel()[0]) for v in m._paramValue])
            out = outs
    return out, np.random.get_state()


def nondrawing_eval(m):
    """an unrelated evaluation between seeding and simulating that draws nothing"""
    x = np.asarray(m._x0, dtype=float)
    m.ode(x, 0.0)
    m.jacobian(x, 0.0)
    m.get_ode_eqn()


def exact_mean_ok(Y, runs):
    """reported mean against the exact (rational) mean of the returned runs; returns worst ratio err/scale"""
    Y = np.asarray(Y, dtype=float)
    n = len(runs)
    worst = 0.0
    bad = None
    R = [np.asarray(r, dtype=float) for r in runs]
    if any(r.shape != Y.shape for r in R):
        return float("inf"), "shape of the mean %s differs from the runs %s" % (Y.shape, [r.shape for r in R][:2])
    for idx in np.ndindex(Y.shape):
        ex = sum(Fraction(float(r[idx])) for r in R) / n
        sc = sum(abs(Fraction(float(r[idx]))) for r in R) / n
        err = abs(Fraction(float(Y[idx])) - ex)
        if sc == 0:
            if err != 0:
                return float("inf"), "entry %s: all runs are 0 but the mean is %r" % (idx, Y[idx])
            continue
        ratio = float(err / sc)
        if ratio > worst:
            worst = ratio
        if ratio > MEAN_TOL and bad is None:
            bad = "entry %s: reported %r, exact mean of the %d runs %r" % (idx, float(Y[idx]), n, float(ex))
    return worst, bad


def judge(case, stats=None):
    """the property on the implementation; returns (cls, what) or None.  stats: dict collecting measurements"""
    s1, s2 = case["seeds"]
    m = build(case["model"]); set_params(m, case)
    with DrawLog() as dl:
        A, gA = do_run(m, case, s1)
        nd = len(dl.log)
    np.random.seed(s1); g0 = np.random.get_state()
    advanced = not state_eq(g0, gA)
    B, gB = do_run(m, case, s1)
    if stats is not None:
        stats["draws"] = nd; stats["advanced"] = advanced
    if not same(A, B):
        return ("same-seed-differs", "two runs on the same instance after np.random.seed(%d) return different outputs" % s1)
    if not state_eq(gA, gB):
        return ("same-seed-state-differs", "global generator ends in different states after two runs from seed %d" % s1)
    # fresh instance (history independence)
    m2 = build(case["model"]); set_params(m2, case)
    C, gC = do_run(m2, case, s1)
    if not same(A, C) or not state_eq(gA, gC):
        return ("same-seed-differs", "a fresh model instance gives a different output from seed %d than a used one" % s1)
    # a non-drawing evaluation between seeding and simulating
    D, gD = do_run(m, case, s1, pre=(nondrawing_eval if case["kind"] != "setter" else (lambda mm: mm.get_ode_eqn())))
    if not same(A, D) or not state_eq(gA, gD):
        return ("same-seed-differs", "evaluating ode/jacobian (no draws) between np.random.seed(%d) and the simulation changes the output" % s1)
    # full_output=False returns the leading part of the same output
    if case["kind"] in ("stoch", "param"):
        E, gE = do_run(m, case, s1, full=False)
        lead = A[0]
        if not same(lead, E) or not state_eq(gA, gE):
            return ("same-seed-differs", "full_output=False and full_output=True disagree after the same seed %d" % s1)
    # different seed
    if case["kind"] == "stoch":
        events = int(sum(np.sum(np.abs(np.asarray(j))) for j in A[1]))
    else:
        events = MIN_EVENTS if is_random(case) else 0     # continuous random parameters separate the runs
    if stats is not None:
        stats["events"] = events
    if events >= MIN_EVENTS:
        F, gF = do_run(m, case, s2)
        if same(A, F):
            return ("different-seed-same-output", "seeds %d and %d give identical outputs (%d events/draws in the run)" % (s1, s2, events))
    # mean of the random-parameter runs
    if case["kind"] == "param":
        Y, runs = A
        if len(runs) != case["n"]:
            return ("run-count", "%s(t, %d, full_output=True) returned %d runs" % (case["fn"], case["n"], len(runs)))
        worst, bad = exact_mean_ok(Y, runs)
        if stats is not None:
            stats["mean_err"] = worst
        if bad:
            return ("mean-mismatch", "%s: reported mean is not the mean of the returned runs: %s" % (case["fn"], bad))
    return None


# ------------------------------------------------------------------ K: draw protocol against an independent generator
def protocol(case, replayable):
    """returns a description of the first disagreement or None"""
    s1 = case["seeds"][0]
    m = build(case["model"]); set_params(m, case)
    rs = np.random.RandomState(s1)
    names = param_names(case["model"])
    rnd = [k for k in names if isinstance(case["params"][k], dict)]
    if case["kind"] == "stoch":
        if rnd:
            return None            # parameter draws are interleaved with logged ones only through the setter: covered by "param"
        if not replayable:
            return None
        with DrawLog() as dl:
            A, gA = do_run(m, case, s1)
        for i, (k, n, par, seed, v) in enumerate(dl.log):
            if seed != "None":
                return "draw %d (%s) was requested with seed=%s on the serial path" % (i, k, seed)
            w = rs.exponential(scale=1.0 / par, size=n)[0] if k == "e" else rs.poisson(par, size=n)[0]
            if not (w == v):
                return "draw %d (%s, parameter %r): pygom got %r, RandomState(%d) gives %r" % (i, k, par, v, s1, w)
        if not state_eq(rs.get_state(), gA):
            return "after %d logged draws the global generator is not in the state of RandomState(%d) after the same draws" % (len(dl.log), s1)
        return None
    if case["kind"] == "setter":
        A, gA = do_run(m, case, s1)
        for i, got in enumerate(A):
            th = {k: (draw_param(case["params"][k], rs) if k in rnd else case["params"][k]) for k in names}
            if [float(th[k]) for k in names] != got:
                return "assignment %d: parameters %r, independent draws give %r" % (i, got, [float(th[k]) for k in names])
        return None if state_eq(rs.get_state(), gA) else "global generator state after the assignments differs from the independent generator"
    # param: one parameter set for the preliminary integrate, then one per iteration, each in dict order
    A, gA = do_run(m, case, s1)
    Y, runs = A
    md = build(case["model"])
    md.initial_values = ([float(v) for v in case["x0"]], np.float64(0.0))
    sets = []
    for i in range(case["n"] + 1):
        sets.append({k: (draw_param(case["params"][k], rs) if k in rnd else case["params"][k]) for k in names})
    for i, run in enumerate(runs):
        md.parameters = {k: float(v) for k, v in sets[i + 1].items()}
        ref = md.integrate(tval(case))
        if not same(ref, run):
            return "run %d is not the integration with the %d-th parameter set drawn from RandomState(%d)" % (i, i + 2, s1)
    if not state_eq(rs.get_state(), gA):
        return "global generator state after the runs differs from the independent generator after %d parameter sets" % (case["n"] + 1)
    return None


def threaded(case):
    """C16_prefix / C16_continue on the implementation"""
    s1 = case["seeds"][0]
    n = case["n"]
    if n < 2 or case["kind"] == "setter":
        return None
    m = build(case["model"]); set_params(m, case)
    A, gA = do_run(m, case, s1)
    k = case["split"]
    P, gP = do_run(m, case, s1, n=k)
    Q, gQ = do_run(m, case, s1, n=n - k, reseed=False)
    if case["kind"] == "stoch":
        runsA = [list(A[0]), list(A[1])] + ([list(A[2])] if case["tform"] == "scalar" else [])
        runsP = [list(P[0]), list(P[1])] + ([list(P[2])] if case["tform"] == "scalar" else [])
        runsQ = [list(Q[0]), list(Q[1])] + ([list(Q[2])] if case["tform"] == "scalar" else [])
        if not all(same(a[:k], p) for a, p in zip(runsA, runsP)):
            return "the first %d of %d iterations differ from the %d-iteration simulation from the same seed" % (k, n, k)
        if not all(same(a[k:], q) for a, q in zip(runsA, runsQ)):
            return "%d then %d iterations without reseeding differ from %d iterations" % (k, n - k, n)
        if not state_eq(gA, gQ):
            return "generator state after %d+%d iterations differs from the state after %d" % (k, n - k, n)
    elif case["kind"] == "param":
        # every call makes one preliminary draw of the parameters, so only the prefix is comparable
        if not same(A[1][:k], P[1]):
            return "the first %d of %d random-parameter runs differ from the %d-iteration call from the same seed" % (k, n, k)
    return None


# ------------------------------------------------------------------ generator of cases
def gen_rparam(rng, mean, allow_rbeta=False):
    """a random-parameter spec whose draws stay positive and near `mean`.  pygom.utilR.rbeta(1, a, b) returns a
    length-1 array (not a scalar), which the evaluators cannot take: it is only used for the setter-only cases"""
    r = rng.random()
    if r < 0.5:
        d = ["gamma", "uniform", "lognorm", "beta"][int(rng.integers(0, 4))]
        if d == "gamma":
            a = float(rng.integers(20, 200)); args = [a, mean / a]
        elif d == "uniform":
            args = [0.8 * mean, 0.4 * mean]
        elif d == "lognorm":
            args = [float(rng.integers(5, 20)) / 100.0, mean]
        else:
            args = [float(rng.integers(2, 9)), float(rng.integers(2, 9)), 2.0 * mean]
        return dict(form="frozen", dist=d, args=args)
    f = ["rgamma", "runif", "rexp", "rchisq", "rbeta"][int(rng.integers(0, 5 if allow_rbeta else 4))]
    if f == "rgamma":
        a = float(rng.integers(20, 200)); args = [a, a / mean]
    elif f == "runif":
        args = [0.8 * mean, 1.2 * mean]
    elif f == "rexp":
        args = [1.0 / mean]
    elif f == "rchisq":
        args = [float(rng.integers(1, 4))]
    else:
        args = [float(rng.integers(2, 9)), float(rng.integers(2, 9))]
    return dict(form="tuple", fn=f, args=args, kw=bool(rng.random() < 0.4))


def gen_case(rng, kind, quick):
    name = ["sir", "sirbd", "chain", "seir"][int(rng.integers(0, 4))]
    spec = dict(name=name)
    N = int(rng.integers(60, 400))
    if name == "chain":
        spec["k"] = int(rng.integers(3, 6))
        x0 = [N] + [int(rng.integers(0, 10)) for _ in range(spec["k"] - 1)]
        base = {"k%d" % i: float(rng.integers(2, 12)) / 10.0 for i in range(spec["k"] - 1)}
    else:
        I0 = int(rng.integers(3, 15))
        x0 = [N - I0, I0, 0] if name != "seir" else [N - I0, 2, I0, 0]
        base = {"beta": float(rng.integers(8, 30)) / 10.0, "gamma": float(rng.integers(2, 8)) / 10.0, "N": float(N)}
        if name == "sirbd": base["mu"] = float(rng.integers(1, 6)) / 100.0
        if name == "seir": base["alpha"] = float(rng.integers(3, 12)) / 10.0
    names = param_names(spec)
    params = {k: base[k] for k in names}
    want_random = kind != "stoch" or rng.random() < 0.3
    if want_random:
        cand = [k for k in names if k != "N"]
        nrand = int(rng.integers(1, len(cand) + 1))
        for k in list(rng.permutation(cand))[:nrand]:
            params[str(k)] = gen_rparam(rng, base[str(k)], allow_rbeta=(kind == "setter"))
    T = float(rng.integers(3, 9))
    if rng.random() < 0.5:
        tform, t = "scalar", T
        if kind == "param": tform, t = "vector", [T / 2.0, T]
    else:
        npt = int(rng.integers(2, 7))
        tform, t = "vector", [T * (i + 1) / npt for i in range(npt)]
    n = int(rng.integers(1, 6 if quick else 12))
    if kind == "param": n = int(rng.integers(1, 9 if quick else 40))
    if kind == "param" and rng.random() < 0.04: n = int(rng.integers(65, 330))      # a few large run counts
    s1 = int(rng.integers(0, 2 ** 31 - 1)); s2 = int(rng.integers(0, 2 ** 31 - 1))
    if s2 == s1: s2 = (s1 + 1) % (2 ** 31 - 1)
    if rng.random() < 0.15: s1, s2 = int(rng.integers(0, 5)), int(rng.integers(5, 10))     # small seeds too
    case = dict(kind=kind, model=spec, params=params, x0=x0, t=t, tform=tform, n=n, seeds=[s1, s2],
                split=int(rng.integers(1, n)) if n >= 2 else 1)
    if kind == "stoch": case["exact"] = bool(rng.random() < 0.5)
    if kind == "param": case["fn"] = "simulate_param" if rng.random() < 0.6 else "solve_determ"
    return case


def shrink(case):
    """cheap shrinking: fewer iterations, simpler time, fixed parameters — keeping the violation class"""
    j0 = judge(case)
    if not j0:
        return case
    cur = case
    cands = []
    if case["n"] > 1: cands.append(dict(n=1, split=1))
    if case["n"] > 2: cands.append(dict(n=2, split=1))
    if case["tform"] == "vector" and len(case["t"]) > 2: cands.append(dict(t=case["t"][-2:]))
    for c in cands:
        trial = dict(cur); trial.update(c)
        try:
            j = judge(trial)
        except Exception:
            j = None
        if j and j[0] == j0[0]:
            cur = trial
    return cur


# ------------------------------------------------------------------ Coq side of the mean
def dy(x):
    x = float(x)
    if x == 0.0:
        return "(0, 0)"
    mnt, e = math.frexp(x)
    mi = int(mnt * (1 << 53))
    e -= 53
    while mi % 2 == 0:
        mi //= 2; e += 1
    return "(%s, %s)" % (("%d" % mi) if mi >= 0 else "(%d)" % mi, ("%d" % e) if e >= 0 else "(%d)" % e)


COQ_HEAD = """From Coq Require Import List ZArith QArith Qcanon String.
From PV Require Import Util Repro Gen.SourcesGen.
Import ListNotations. Open Scope Z_scope.
Definition q (me : Z * Z) : Qc := dy (fst me) (snd me).
Definition tol : Qc := Q2Qc (1 # 1000000000000).
Definition chk (c : nat * nat * nat * list (list (Z * Z)) * list (Z * Z)) : bool :=
  let '(fi, iter, L, runs, y) := c in
  mean_check tol (snd (nth fi mean_forms (""%string, MeanUnknown))) iter L (map (map q) runs) (map q y).
"""
FN_INDEX = {"simulate_param": 0, "solve_determ": 1}


def coq_mean_case(case, Y, runs):
    L = int(np.asarray(Y).size)
    rl = "[" + "; ".join("[" + "; ".join(dy(v) for v in np.asarray(r, dtype=float).ravel()) + "]" for r in runs) + "]"
    yl = "[" + "; ".join(dy(v) for v in np.asarray(Y, dtype=float).ravel()) + "]"
    return "(%d%%nat, %d%%nat, %d%%nat, %s, %s)" % (FN_INDEX[case["fn"]], case["n"], L, rl, yl)


# ------------------------------------------------------------------ corpus (always run first)
CORPUS = [
    dict(kind="stoch", model=dict(name="sir"), params={"beta": 0.5, "gamma": 1.0 / 3.0, "N": 200.0}, x0=[190, 10, 0],
         t=8.0, tform="scalar", n=3, seeds=[1, 2], split=1, exact=True),
    dict(kind="stoch", model=dict(name="sir"), params={"beta": 1.5, "gamma": 0.3, "N": 200.0}, x0=[190, 10, 0],
         t=[2.0, 4.0, 6.0], tform="vector", n=3, seeds=[7, 8], split=2, exact=False),
    dict(kind="stoch", model=dict(name="sirbd"), x0=[95, 5, 0], t=6.0, tform="scalar", n=2, seeds=[5, 6], split=1, exact=False,
         params={"beta": dict(form="frozen", dist="gamma", args=[100.0, 1.0 / 200.0]),
                 "gamma": dict(form="tuple", fn="rgamma", args=[100.0, 300.0], kw=False), "mu": 0.02, "N": 100.0}),
    dict(kind="param", fn="simulate_param", model=dict(name="sir"), x0=[95, 5, 0], t=[1.0, 2.0, 3.0, 4.0], tform="vector",
         n=5, seeds=[1, 2], split=2,
         params={"beta": dict(form="frozen", dist="gamma", args=[100.0, 1.0 / 200.0]),
                 "gamma": dict(form="tuple", fn="rgamma", args=[100.0, 300.0], kw=True), "N": 100.0}),
    dict(kind="param", fn="solve_determ", model=dict(name="chain", k=3), x0=[50, 0, 0], t=[1.0, 2.0], tform="vector",
         n=3, seeds=[3, 4], split=1,
         params={"k0": dict(form="tuple", fn="runif", args=[0.4, 0.6], kw=False),
                 "k1": dict(form="frozen", dist="uniform", args=[0.2, 0.2])}),
    # fixed-step tau-leap on a small population (leaps get rejected near extinction and are replaced by single reactions)
    dict(kind="stoch", model=dict(name="sir"), params={"beta": 1.5, "gamma": 0.3, "N": 23.0}, x0=[20, 3, 0],
         t=12.0, tform="scalar", n=4, seeds=[41, 42], split=2, exact=False, pre_tau=2.0),
    dict(kind="stoch", model=dict(name="chain", k=3), params={"k0": 0.9, "k1": 0.4}, x0=[9, 0, 0],
         t=[2.0, 4.0, 8.0], tform="vector", n=3, seeds=[43, 44], split=1, exact=False, pre_tau=1.0),
    # a model whose rates need exp() and whose jump size is a (random) parameter: first call on a fresh model included
    dict(kind="stoch", model=dict(name="burst"), x0=[95, 5, 0], t=4.0, tform="scalar", n=2, seeds=[31, 32], split=1, exact=True,
         params={"beta": 1.6, "gamma": dict(form="frozen", dist="uniform", args=[0.3, 0.4]), "N": 100.0}),
    dict(kind="stoch", model=dict(name="burst"), x0=[95, 5, 0], t=[1.0, 2.0, 4.0], tform="vector", n=2, seeds=[33, 34], split=1, exact=False,
         params={"beta": 1.6, "gamma": dict(form="tuple", fn="runif", args=[0.3, 0.7], kw=False), "N": 100.0}),
    dict(kind="param", fn="solve_determ", model=dict(name="burst"), x0=[95, 5, 0], t=[1.0, 2.0], tform="vector", n=3, seeds=[35, 36], split=1,
         params={"beta": dict(form="frozen", dist="gamma", args=[100.0, 1.6 / 100.0]), "gamma": 0.4, "N": 100.0}),
    # many runs: the reported mean must be the mean of all of them, whatever the count (blocked / streaming means)
    dict(kind="param", fn="simulate_param", model=dict(name="chain", k=3), x0=[50, 0, 0], t=[1.0, 2.0], tform="vector",
         n=130, seeds=[21, 22], split=100,
         params={"k0": dict(form="tuple", fn="runif", args=[0.2, 1.6], kw=False),
                 "k1": dict(form="frozen", dist="uniform", args=[0.1, 0.8])}),
    dict(kind="param", fn="solve_determ", model=dict(name="chain", k=3), x0=[50, 0, 0], t=[1.0, 2.0], tform="vector",
         n=257, seeds=[23, 24], split=64,
         params={"k0": dict(form="tuple", fn="runif", args=[0.2, 1.6], kw=False),
                 "k1": dict(form="frozen", dist="uniform", args=[0.1, 0.8])}),
    dict(kind="setter", model=dict(name="sir"), x0=[95, 5, 0], t=1.0, tform="scalar", n=3, seeds=[11, 12], split=1,
         params={"beta": dict(form="tuple", fn="rbeta", args=[2.0, 5.0], kw=True),
                 "gamma": dict(form="frozen", dist="lognorm", args=[0.1, 0.3]), "N": 100.0}),
]

REPLAYABLE = ("distn.rexp", "distn.rpois", "base_ode_model.BaseOdeModel.parameters(setter)")


def sessions_check(hashseeds):
    """harness/c16_hash.py (three differently distributed random parameters given by name; numpy.random.seed(s); solve_determ) run in
    separate interpreter sessions that differ only in PYTHONHASHSEED: identical output; different numpy seeds: different output"""
    import subprocess
    outs = {}
    for h in hashseeds:
        env = dict(os.environ, PYTHONHASHSEED=str(h))
        r = subprocess.run([sys.executable, "-W", "ignore", os.path.join(common.VERIF, "harness", "c16_hash.py")],
                           capture_output=True, text=True, env=env, timeout=900, cwd=common.VERIF)
        line = [l for l in r.stdout.splitlines() if l.startswith("C16HASH ")]
        if not line:
            raise common.InternalError("session probe produced no result: " + (r.stderr or r.stdout)[-300:])
        outs[h] = json.loads(line[-1][8:])
    first = outs[hashseeds[0]]
    if first["5"] == first["6"]:
        return "numpy.random.seed(5) and numpy.random.seed(6) give the same runs %s" % json.dumps(first["5"]["runs"][0])[:120]
    for h in hashseeds[1:]:
        if outs[h] != first:
            k = [s_ for s_ in ("5", "6") if outs[h][s_] != first[s_]][0]
            return ("the same program after numpy.random.seed(%s) (three random parameters given by name, solve_determ with 3 iterations) gives "
                    "a first run ending in %s in a session with PYTHONHASHSEED=%d and in %s with PYTHONHASHSEED=%d"
                    % (k, json.dumps(first[k]["runs"][0][-1]), hashseeds[0], json.dumps(outs[h][k]["runs"][0][-1]), h))
    return None


def run(ck):
    import gen_sources
    ck.rule = ("cases = (model in {SIR, SIR birth-death, SEIR, linear chain of 3-5}, integer initial state with N in 60..400, "
               "rates from small decimals, optionally 1..all rates random as frozen scipy gamma/uniform/lognorm/beta or "
               "(pygom.utilR r*, args|kwargs) tuples; kind in {solve_stochast exact / tau-leap with scalar or vector t, "
               "simulate_param / solve_determ, parameters setter}; iterations 1..%d (stochastic) / 1..%d (random "
               "parameters); two distinct seeds in [0, 2^31)). non-trivial = the run consumed draws from the global "
               "generator and, for the different-seed comparison, had >= %d events; distinct by canonical JSON hash"
               % (ck.budget(5, 11), ck.budget(8, 39), MIN_EVENTS))
    text = gen_sources.generate()
    gens = [("SourcesGen", text)]
    ck.coq_build("C16", gens, extra=("Util.vo", "Repro.vo", "ReproProofs.vo"))
    common.name_assumptions(ck, "C16")
    ck.coq_build("C16_mean", gens, extra=("Util.vo", "Repro.vo", "ReproProofs.vo"))
    common.name_assumptions(ck, "C16_mean")
    gen_obl = [("C16_sources_global", "forallb is_global (table sources sampler_sources) = true  [generated table]"),
               ("C16_mean_forms_ok", "forms_ok mean_forms runs_forms = true  [generated table]")]
    for thm, o in gen_obl:
        ck.obligations.append(o)
        if thm in ck.discharged:
            ck.discharged.append(o)
    if not ck.quick and not ck.broken:
        cmd = "timeout 900 coqchk -silent -o -R . PV PV.Props.C16 PV.Props.C16_mean"
        ck.checker_cmds.append("cd /verif/coq && " + cmd)
        rc, out = common.sh(cmd, cwd=common.COQ, timeout=1000)
        ck.notes["coqchk"] = out[-600:]
        if rc != 0 or "Axioms: <none>" not in out:
            ck.broken.append(dict(theorem="coqchk Props/C16 Props/C16_mean", file="Props/C16.v", error=out[-1200:]))
    serial_sites = [l for l in text.split("Definition sampler_sources")[0].split("\n") if l.strip().startswith('("')]
    ck.notes["extracted_sources"] = [l.strip().rstrip(";") for l in text.split("\n") if l.strip().startswith('("')]
    replayable = ("sources_ok := true" in text and
                  all(any(l.strip().startswith('("' + r) for r in REPLAYABLE) for l in serial_sites))
    ck.notes["draw_protocol_lockstep"] = "on" if replayable else "skipped: the translator lists a serial-path site outside rexp/rpois/setter"
    translator_means_ok = "MeanUnknown" not in text

    rng = np.random.default_rng(ck.seed)
    quick = ck.quick
    n_st, n_pa, n_se = ck.budget(36, 260), ck.budget(30, 220), ck.budget(8, 40)
    cases = list(CORPUS)
    cases += [gen_case(rng, "stoch", quick) for _ in range(n_st)]
    cases += [gen_case(rng, "param", quick) for _ in range(n_pa)]
    cases += [gen_case(rng, "setter", quick) for _ in range(n_se)]
    dist, worst_mean, kbad, mean_cases = {}, 0.0, [], []
    ndiff = 0
    for case in cases:
        st = {}
        j = judge(case, st)
        key = "%s:%s:%s" % (case["kind"], case["model"]["name"],
                            ("exact" if case.get("exact") else "tau") if case["kind"] == "stoch" else case.get("fn", "setter"))
        dist[key] = dist.get(key, 0) + 1
        forms = sorted({v["form"] for v in case["params"].values() if isinstance(v, dict)})
        for f in forms:
            dist["rparam:" + f] = dist.get("rparam:" + f, 0) + 1
        nontrivial = bool(st.get("advanced")) and (st.get("events", 0) >= MIN_EVENTS)
        ndiff += st.get("events", 0) >= MIN_EVENTS
        ck.case(case, nontrivial=nontrivial)
        worst_mean = max(worst_mean, st.get("mean_err", 0.0) if st.get("mean_err", 0.0) != float("inf") else 0.0)
        if j:
            small = shrink(case)
            js = judge(small) or j
            ck.violation(js[0], js[1], small)
            continue
        # ---- K
        try:
            d = protocol(case, replayable)
            if d:
                kbad.append(("draw protocol (sites of Gen.sources vs an independent RandomState)", d, case))
            d = threaded(case)
            if d:
                kbad.append(("C16_prefix / C16_continue (iter_global vs serial iterations)", d, case))
        except Exception as e:          # the model could not be driven: internal, not a violation
            raise common.InternalError("K failed on %s: %r" % (json.dumps(case), e))
        if case["kind"] == "param" and translator_means_ok and len(mean_cases) < ck.budget(24, 120):
            sz = case["n"] * (len(case["t"]) + 1) * len(case["x0"])
            if sz <= 400:
                m = build(case["model"]); set_params(m, case)
                (Y, runs), _ = do_run(m, case, case["seeds"][0])
                mean_cases.append((case, coq_mean_case(case, Y, runs)))
    # ---- the same seeded program in interpreter sessions with different string-hash seeds
    inp = dict(kind="sessions", hashseeds=[1, 2, 4, 7])
    ck.case(inp, nontrivial=True)
    bad = sessions_check(inp["hashseeds"])
    if bad:
        ck.violation("seeded-run-differs-between-sessions", bad, inp)
    ck.notes["input_distribution"] = dist
    ck.notes["different_seed_comparisons"] = int(ndiff)
    ck.notes["mean_tolerance"] = ("|Y - exact mean| <= %g * mean|x_i| entrywise; worst observed ratio %.3g" % (MEAN_TOL, worst_mean))
    # ---- K (c): the Coq model's mean on the real outputs
    if mean_cases:
        files, shard = [], 8
        for s in range(0, len(mean_cases), shard):
            body = ";\n ".join(c for _, c in mean_cases[s:s + shard])
            files.append(("c16_mean_%d" % (s // shard),
                          COQ_HEAD + "Definition cases := [\n " + body + "].\nEval vm_compute in failing chk cases.\n"))
        outs = ck.coq_eval_many(files)
        for s in range(0, len(mean_cases), shard):
            idx = common.parse_int_list(outs["c16_mean_%d" % (s // shard)][0])
            for i in idx:
                kbad.append(("Repro.mean_impl (extracted form) vs reported mean", "Coq's exact mean of the returned runs "
                             "differs from the reported mean by more than 1e-12", mean_cases[s + i][0]))
    ck.notes["coq_mean_cases"] = len(mean_cases)
    ck.notes["correspondence_disagreements"] = len(kbad)
    seen = set()
    for what, d, case in kbad:
        if what in seen:
            continue
        seen.add(what)
        ck.broken.append(dict(theorem="correspondence " + what, file="harness/c16.py", error="%s on case %s" % (d, json.dumps(case))))
    ck.assumptions += [
        "numpy's legacy global RandomState is what np.random.seed seeds; scipy rvs() without random_state and np.random.<sampler> draw from it",
        "user samplers in (sampler, args) tuples are pygom.utilR r* functions (or any function drawing from the global generator when called without a seed)",
        "a frozen scipy distribution passed by the user has not been given a private random_state",
        "attribute reads other than the `parameters` setter are not followed by the translator; calls into sympy/scipy/numpy are draws only when they match the random-name patterns",
        "parallel=True paths are outside the property (they reseed per worker by design)",
    ]


def replay(ck, data):
    case = data["input"]
    if case is None:
        return None
    if case.get("kind") == "sessions":
        return sessions_check(case["hashseeds"])
    j = judge(case)
    return j[1] if j else None
