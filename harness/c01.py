"""C01 — a model definition is assembled into exactly the equations it describes."""
import copy, json, os, sys, time
from fractions import Fraction
import numpy as np
import sympy
import common
import modelgen as mg

ROUTES = ["event", "event", "mixed", "incremental", "legacy"]


def pyg_values(m, d, point):
    """pygom's symbolic objects evaluated exactly at `point` ({name: Fraction})"""
    def ev(expr):
        sub = {s: sympy.Rational(point[str(s)].numerator, point[str(s)].denominator) for s in expr.free_symbols}
        return mg.to_fraction(expr.subs(sub))
    ode = m.get_ode_eqn()
    V = m.get_StateChangeMatrix()
    r = m.get_EventRateVector()
    p = m.get_pureOdeVector()
    exact = True
    out = {}
    for name, M in (("ode", ode), ("rates", r), ("pure", p)):
        vals = []
        for k in range(M.rows):
            v, ex = ev(M[k, 0]); exact &= ex; vals.append(v)
        out[name] = vals
    rows = []
    for i in range(V.rows):
        row = []
        for j in range(V.cols):
            v, ex = ev(V[i, j]); exact &= ex; row.append(v)
        rows.append(row)
    out["V"] = rows
    out["exact"] = exact
    out["reactant"] = np.asarray(m.get_ReactantMatrix()).tolist()
    return out


def reorder(d, order):
    d2 = dict(d)
    d2["events"] = [d["events"][k] for k in order]
    return d2


def close(a, b, exact):
    if exact:
        return a == b
    return abs(a - b) <= Fraction(1, 10 ** 25) * (1 + abs(b))


def compare(d, order, pv, point):
    """the property stated directly: pygom's objects vs the independent derivation; returns (cls, what) or None"""
    sp = mg.spec_values(reorder(d, order), point)
    exact = sp["exact"] and pv["exact"]
    nS, nE = len(d["states"]), len(d["events"])
    if len(pv["ode"]) != nS or len(pv["rates"]) != nE or len(pv["V"]) != nS or any(len(r) != nE for r in pv["V"]):
        return ("shape", "reported shapes do not match %d states / %d events" % (nS, nE))
    for j in range(nE):
        if not close(pv["rates"][j], sp["rates"][j], exact):
            return ("rate-vector", "event %d rate: reported %s, definition gives %s" % (j, pv["rates"][j], sp["rates"][j]))
    for i in range(nS):
        for j in range(nE):
            if not close(pv["V"][i][j], sp["V"][i][j], exact):
                return ("state-change-matrix", "V[%d][%d]: reported %s, definition gives %s" % (i, j, pv["V"][i][j], sp["V"][i][j]))
    for i in range(nS):
        if not close(pv["pure"][i], sp["pure"][i], exact):
            return ("pure-ode-vector", "pure[%d]: reported %s, definition gives %s" % (i, pv["pure"][i], sp["pure"][i]))
    for i in range(nS):
        if not close(pv["ode"][i], sp["ode"][i], exact):
            return ("ode", "ode[%d]: reported %s, sum over events of rate x net magnitude + explicit terms = %s"
                    % (i, pv["ode"][i], sp["ode"][i]))
    # reactant matrix: state i takes part in event j
    for j, e in enumerate(reorder(d, order)["events"]):
        inv = set()
        for tr in e["trans"]:
            if tr["o"] is not None: inv.add(tr["o"])
            if tr["d"] is not None: inv.add(tr["d"])
        for i in range(nS):
            if int(pv["reactant"][i][j]) != (1 if i in inv else 0):
                return ("reactant-matrix", "lambda[%d][%d] = %s" % (i, j, pv["reactant"][i][j]))
    return None


def numeric_compare(m, d, order, point):
    """numeric evaluators at the float image of the point vs the exact values (1e-9 relative)"""
    sp = mg.spec_values(reorder(d, order), point)
    x = np.array([float(point[s]) for s in d["states"]])
    t = float(point["t"])
    m.parameters = {p: float(point[p]) for p in d["params"]}
    nS, nE = len(d["states"]), len(d["events"])
    tol = lambda a, b: abs(a - b) <= 1e-9 * (1 + abs(b))
    got = np.asarray(m.ode(x, t), float).ravel()
    for i in range(nS):
        if not tol(got[i], float(sp["ode"][i])):
            return ("numeric-ode", "ode(x,t)[%d] = %r but the definition gives %r" % (i, got[i], float(sp["ode"][i])))
    if nE:
        got = np.asarray(m.eventRateVector(x, t), float).ravel()
        for j in range(nE):
            if not tol(got[j], float(sp["rates"][j])):
                return ("numeric-rate-vector", "eventRateVector[%d] = %r, expected %r" % (j, got[j], float(sp["rates"][j])))
        got = np.asarray(m.vMat(x, t), float).reshape(nS, nE)
        for i in range(nS):
            for j in range(nE):
                if not tol(got[i, j], float(sp["V"][i][j])):
                    return ("numeric-vmat", "vMat[%d][%d] = %r, expected %r" % (i, j, got[i, j], float(sp["V"][i][j])))
    got = np.asarray(m.pureOdeVector(x, t), float).ravel()
    for i in range(nS):
        if not tol(got[i], float(sp["pure"][i])):
            return ("numeric-pure", "pureOdeVector[%d] = %r, expected %r" % (i, got[i], float(sp["pure"][i])))
    # the same parameter values at another time (and state): a second evaluation is an evaluation at ITS arguments
    later = dict(point)
    later["t"] = point["t"] + Fraction(3, 2)
    for k, s_ in enumerate(d["states"]):
        later[s_] = point[s_] + Fraction(k + 1, 4)
    try:
        sp3 = mg.spec_values(reorder(d, order), later)
    except Exception:       # noqa: BLE001  (a singular point of a saturating rate)
        sp3 = None
    if sp3 is not None:
        x3, t3 = np.array([float(later[s_]) for s_ in d["states"]]), float(later["t"])
        got = np.asarray(m.ode(x3, t3), float).ravel()
        for i in range(nS):
            if not tol(got[i], float(sp3["ode"][i])):
                return ("numeric-ode-second-point", "evaluated at (x, t) and then at (x', t') = (%s, %r) with the same parameters: ode(x',t')[%d] = %r "
                        "but the definition gives %r" % (x3.tolist(), t3, i, got[i], float(sp3["ode"][i])))
        if nE:
            got = np.asarray(m.eventRateVector(x3, t3), float).ravel()
            for j in range(nE):
                if not tol(got[j], float(sp3["rates"][j])):
                    return ("numeric-rate-vector-second-point", "evaluated at (x, t) and then at (x', t') with the same parameters: "
                            "eventRateVector(x',t')[%d] = %r, expected %r" % (j, got[j], float(sp3["rates"][j])))
            got = np.asarray(m.vMat(x3, t3), float).reshape(nS, nE)
            for i in range(nS):
                for j in range(nE):
                    if not tol(got[i, j], float(sp3["V"][i][j])):
                        return ("numeric-vmat-second-point", "evaluated at (x, t) and then at (x', t') with the same parameters: "
                                "vMat(x',t')[%d][%d] = %r, expected %r" % (i, j, got[i, j], float(sp3["V"][i][j])))
        got = np.asarray(m.pureOdeVector(x3, t3), float).ravel()
        for i in range(nS):
            if not tol(got[i], float(sp3["pure"][i])):
                return ("numeric-pure-second-point", "evaluated at (x, t) and then at (x', t') with the same parameters: "
                        "pureOdeVector(x',t')[%d] = %r, expected %r" % (i, got[i], float(sp3["pure"][i])))
    # a slow system: every parameter a million million times smaller.  Small is not zero: judged RELATIVE to the exact value
    # (entries that are small only through cancellation between terms are left out)
    slow = dict(point)
    for p in d["params"]:
        slow[p] = point[p] / 10 ** 12
    try:
        sp2 = mg.spec_values(reorder(d, order), slow)
    except Exception:       # noqa: BLE001  (a singular point of a saturating rate)
        return None
    m.parameters = {p: float(slow[p]) for p in d["params"]}
    try:
        rel = lambda a, b: abs(a - b) <= 1e-7 * abs(b)
        if nE:
            got = np.asarray(m.eventRateVector(x, t), float).ravel()
            for j in range(nE):
                b = float(sp2["rates"][j])
                if b != 0 and not rel(got[j], b):
                    return ("numeric-rate-vector-small", "with every parameter scaled by 1e-12, eventRateVector[%d] = %r, the definition gives %r"
                            % (j, got[j], b))
        # (the ode entries are not judged here: jump sizes such as -(1 + mu/2) + (mu + 1) cancel in floating point, and what is
        #  left of a 1e-12-sized term is then legitimately inexact; the rates are single expressions)
    finally:
        m.parameters = {p: float(point[p]) for p in d["params"]}
    return None


def ql(xs):
    return "[" + "; ".join(mg.q(x) for x in xs) + "]"


def coq_case(d, order, pv, point):
    evs, odes, exact = mg.structure(reorder(d, order), point)
    exact = exact and pv["exact"]
    eps = "(0 # 1)" if exact else "(1 # 10000000000000000000000000)"
    return "(%s, %s, %s, [%s], %s, %s)" % (mg.coq_model(len(d["states"]), evs, odes), eps, ql(pv["ode"]),
                                           "; ".join(ql(r) for r in pv["V"]), ql(pv["rates"]), ql(pv["pure"]))


COQ_HEAD = """From Coq Require Import List Arith Bool QArith Qcanon.
From PV Require Import Util Assembly AssemblyQc.
Import ListNotations.
Open Scope Q_scope.
"""


def evaluate(d, route, seed, npoints=2, numeric=True, lambda_backend=True):
    """build with pygom through `route`, evaluate; returns list of (point, order, pv) and first finding"""
    rng = np.random.default_rng(seed)
    if d.get("_twin_first"):
        # another model with the same names and the same equation strings, but another definition of a derived parameter, is
        # built and evaluated first in the same process (nothing of it may survive into this one)
        tw, _ = mg.build(dict(d, derived=d["_twin_first"]), route=route, rng=np.random.default_rng(seed), lambda_backend=lambda_backend)
        ptw = mg.random_point(np.random.default_rng(seed + 1), d)
        tw.get_ode_eqn()
        tw.parameters = {p: float(ptw[p]) for p in d["params"]}
        xx = np.array([float(ptw[s0]) for s0 in d["states"]])
        tw.ode(xx, float(ptw["t"])); tw.eventRateVector(xx, float(ptw["t"]))
    elif len(d["params"]) >= 2 and seed % 3 == 0:
        # another model in the same process with the SAME equations and the parameters declared in the opposite order, built and
        # evaluated first (a routine compiled for one argument order must not serve the other)
        tw, _ = mg.build(dict(d, params=list(reversed(d["params"]))), route=route, rng=np.random.default_rng(seed), lambda_backend=lambda_backend)
        ptw = mg.random_point(np.random.default_rng(seed + 1), d)
        tw.parameters = {p: float(ptw[p]) for p in d["params"]}
        xx = np.array([float(ptw[s0]) for s0 in d["states"]])
        tw.ode(xx, float(ptw["t"]))
        if d["events"]:
            tw.eventRateVector(xx, float(ptw["t"])); tw.vMat(xx, float(ptw["t"]))
    # every other case: the definition objects first go into a model that is thrown away (a definition can be reused)
    m, order = mg.build(d, route=route, rng=rng, lambda_backend=lambda_backend, reuse=bool(seed % 2 == 0))
    res, finding = [], None
    for _ in range(npoints):
        pt = mg.random_point(rng, d)
        pv = pyg_values(m, d, pt)
        res.append((pt, order, pv))
        f = compare(d, order, pv, pt)
        if f is None and numeric:
            f = numeric_compare(m, d, order, pt)
        if f and finding is None:
            finding = (f, pt)
    return res, finding


def shrink(d, pred):
    """greedy deletion of events / transitions / ODE terms while `pred` keeps failing"""
    d = copy.deepcopy(d)
    changed = True
    while changed:
        changed = False
        for k in range(len(d["events"])):
            c = copy.deepcopy(d); del c["events"][k]
            if pred(c): d, changed = c, True; break
        if changed: continue
        for k in range(len(d["odes"])):
            c = copy.deepcopy(d); del c["odes"][k]
            if pred(c): d, changed = c, True; break
        if changed: continue
        for k, e in enumerate(d["events"]):
            if len(e["trans"]) > 1:
                for j in range(len(e["trans"])):
                    c = copy.deepcopy(d); del c["events"][k]["trans"][j]
                    if pred(c): d, changed = c, True; break
            if changed: break
    return d


def classify(d, route, seed, f):
    """is the failure specific to the API route (agrees when every process is an Event)?"""
    if route != "event":
        try:
            _, f2 = evaluate(d, "event", seed, numeric=False)
            if f2 is None:
                has_mag = any(tr["mag"] != "1" for e in d["events"] for tr in e["trans"])
                return f[0] + ("/legacy-route-magnitude" if has_mag else "/route-" + route)
        except Exception:
            pass
    return f[0]


def nontrivial(d):
    tys = {tr["ty"] for e in d["events"] for tr in e["trans"]}
    symmag = any(not tr["mag"].isdigit() for e in d["events"] for tr in e["trans"])
    return len(d["events"]) >= 2 and (("T" in tys and (("B" in tys) or ("D" in tys))) or symmag)


CORPUS = [
    # legacy lists with magnitudes (add_transition / add_birth_death rebuild the Transition)
    (dict(states=["S", "I"], params=["beta", "gamma"], derived=[], decl="list", odes=[],
          events=[dict(rate="beta*S", kind="linear", trans=[dict(ty="T", o=0, d=1, mag="2")]),
                  dict(rate="gamma", kind="const", trans=[dict(ty="B", o=None, d=0, mag="3")])]), "legacy"),
    (dict(states=["S", "I", "R"], params=["beta", "gamma", "mu"], derived=[["fbeta", "beta*(1+cos(t)/3)"]], decl="comma",
          odes=[dict(state=2, eqn="-mu*R")],
          events=[dict(rate="fbeta*S*I/(S+I+R)", kind="periodic", trans=[dict(ty="T", o=0, d=1, mag="1")]),
                  dict(rate="gamma*I", kind="linear", trans=[dict(ty="T", o=1, d=2, mag="1"), dict(ty="D", o=0, d=None, mag="mu")]),
                  dict(rate="mu*exp(-gamma*S/7)", kind="exponential", trans=[dict(ty="B", o=None, d=0, mag="2")])]), "event"),
    (dict(states=["S", "I", "R"], params=["beta", "gamma", "mu"], derived=[["fbeta", "beta*(2+sin(t))/3"], ["Ntot", "S+I+R"]], decl="list",
          _twin_first=[["fbeta", "beta*(1+cos(t)/3)"], ["Ntot", "S+I+2*R"]], odes=[dict(state=2, eqn="-mu*R/Ntot")],
          events=[dict(rate="fbeta*S*I/Ntot", kind="periodic", trans=[dict(ty="T", o=0, d=1, mag="1")]),
                  dict(rate="gamma*I", kind="linear", trans=[dict(ty="T", o=1, d=2, mag="1")])]), "event"),
    # a vector of states declared as the range 'y8:12' (y8, y9, y10, y11) and addressed by position in every string
    (mg.shift_range(dict(states=["y1", "y2", "y3", "y4"], params=["beta", "gamma", "mu"], derived=[["Ntot", "y1+y2+y3+y4"]], decl="range",
                         index_style=True, odes=[dict(state=3, eqn="-mu*y4*y1/Ntot")],
                         events=[dict(rate="beta*y1*y2/Ntot", kind="freqdep", trans=[dict(ty="T", o=0, d=1, mag="1")]),
                                 dict(rate="gamma*y2", kind="linear", trans=[dict(ty="T", o=1, d=2, mag="1"), dict(ty="D", o=3, d=None, mag="y3/7")]),
                                 dict(rate="mu*y3", kind="linear", trans=[dict(ty="T", o=2, d=3, mag="1")])]), 8), "event"),
    # rates and explicit terms that depend on time but on no state (seasonal immigration, a forcing term): evaluated at two times
    (dict(states=["S", "I"], params=["beta", "gamma", "mu"], derived=[["fbeta", "beta*(1+cos(t)/3)"], ["fmu", "mu*(2+sin(t))/3"]], decl="list",
          odes=[dict(state=1, eqn="-fmu")],
          events=[dict(rate="fbeta", kind="periodic", trans=[dict(ty="B", o=None, d=0, mag="1")]),
                  dict(rate="gamma*S", kind="linear", trans=[dict(ty="T", o=0, d=1, mag="fmu")])]), "event"),
    # two legacy transitions with the same end points and the same rate (one of them moves two at a time): two processes
    (dict(states=["S", "I"], params=["beta", "gamma"], derived=[], decl="list", odes=[],
          events=[dict(rate="beta*S", kind="linear", trans=[dict(ty="T", o=0, d=1, mag="1")]),
                  dict(rate="beta*S", kind="linear", trans=[dict(ty="T", o=0, d=1, mag="2")]),
                  dict(rate="gamma*I", kind="linear", trans=[dict(ty="T", o=1, d=0, mag="1")]),
                  dict(rate="gamma*I", kind="linear", trans=[dict(ty="T", o=1, d=0, mag="1")])]), "legacy"),
    # a single birth process and a single explicit ODE term: the constructor is given the objects themselves now and then
    (dict(states=["S", "I"], params=["beta", "gamma"], derived=[], decl="list", odes=[dict(state=1, eqn="-gamma*I")], _bare=True,
          events=[dict(rate="beta*S", kind="linear", trans=[dict(ty="T", o=0, d=1, mag="1")]),
                  dict(rate="gamma", kind="const", trans=[dict(ty="B", o=None, d=0, mag="1")])]), "legacy"),
]


def run(ck):
    import gen_assembly
    ck.rule = ("random model definitions (1-5 states, 1-5 parameters, 0-5 events of 1-3 T/B/D transitions, numeric or "
               "symbolic magnitudes, linear/mass-action/saturating/exponential/time-periodic rates, optional ODE terms and "
               "derived parameters; routes event/mixed/incremental/legacy) x 2 exact rational points; non-trivial = >=2 "
               "events with (T and B/D) or a symbolic magnitude; distinct by JSON hash of the definition")
    ck.coq_build("C01", [("AssemblyGen", gen_assembly.generate())], extra=("Util.vo", "AssemblyQc.vo"))
    common.name_assumptions(ck, "C01")
    rng = np.random.default_rng(ck.seed)
    N = ck.budget(150, 1500)
    items = [(d, r) for d, r in CORPUS]
    for k in range(N):
        d = mg.gen_definition(rng)
        if d["decl"] == "range" and len(d["states"]) >= 2:
            # 'y1:n' addressed by position (y[0] is the first declared component) and / or numbered from 8 or 9, so that the
            # indices of one vector cross a power of ten
            if k % 2 == 0:
                d["index_style"] = True
            d = mg.shift_range(d, [1, 8, 9, 1][k % 4])
        items.append((d, ROUTES[int(rng.integers(0, len(ROUTES)))]))
    cases, dist = [], {}
    t_end = time.time() + ck.budget(100, 700)
    for k, (d, route) in enumerate(items):
        if time.time() > t_end:
            break
        seed = ck.seed * 100003 + k
        try:
            res, finding = evaluate(d, route, seed)
        except Exception as e:
            finding, res = ((("build-error", "%s: %s" % (type(e).__name__, str(e)[:200])), None)), []
        ck.case(dict(definition=d, route=route), nontrivial=nontrivial(d))
        dist["route:" + route] = dist.get("route:" + route, 0) + 1
        dist["nS=%d" % len(d["states"])] = dist.get("nS=%d" % len(d["states"]), 0) + 1
        dist["nE=%d" % len(d["events"])] = dist.get("nE=%d" % len(d["events"]), 0) + 1
        for e in d["events"]:
            dist["rate:" + e["kind"]] = dist.get("rate:" + e["kind"], 0) + 1
            for tr in e["trans"]:
                dist["type:" + tr["ty"]] = dist.get("type:" + tr["ty"], 0) + 1
        for pt, order, pv in res:
            cases.append((d, order, pv, pt))
        if finding:
            f, pt = finding
            cls = classify(d, route, seed, f)

            def pred(c, route=route, seed=seed, cls=cls):
                try:
                    _, f2 = evaluate(c, route, seed)
                except Exception as e:
                    return cls.startswith("build-error")
                return f2 is not None and classify(c, route, seed, f2[0]) == cls
            dmin = shrink(d, pred) if f[0] != "build-error" else d
            try:
                _, f3 = evaluate(dmin, route, seed)
                what = f3[0][1] if f3 else f[1]
            except Exception:
                what = f[1]
            ck.violation(cls, what, dict(definition=dmin, route=route, seed=seed))
    ck.notes["input_distribution"] = dist
    # ---- K: what the extracted tables compute in Qc vs what pygom reported (exact)
    files = []
    shard = 150
    for s in range(0, len(cases), shard):
        body = ";\n ".join(coq_case(*c) for c in cases[s:s + shard])
        files.append(("c01_cases_%d" % (s // shard),
                      COQ_HEAD + "Definition cases : list acase := [\n " + body + "].\nEval vm_compute in failing chk cases.\n"))
    outs = ck.coq_eval_many(files) if files else {}
    bad = []
    for s in range(0, len(cases), shard):
        bad += [s + i for i in common.parse_int_list(outs["c01_cases_%d" % (s // shard)][0])]
    ck.notes["correspondence_cases"] = len(cases)
    ck.notes["correspondence_disagreements"] = len(bad)
    if bad:
        d, order, pv, pt = cases[bad[0]]
        ck.broken.append(dict(theorem="correspondence: extracted assembly tables (Coq, Qc) vs pygom symbolic objects",
                              file="c01_cases", error="first disagreeing definition: " + json.dumps(d)[:1500]))
    # ---- measured Cython subset (the default back-end)
    ncy = ck.budget(1, 5)
    rng2 = np.random.default_rng(ck.seed + 7)
    tcy = time.time()
    for k in range(ncy):
        d = mg.gen_definition(rng2, max_states=3, max_events=3, min_events=1)
        try:
            m, order = mg.build(d, route="event", lambda_backend=False)
            f = numeric_compare(m, d, order, mg.random_point(rng2, d))
        except Exception as e:
            f = ("cython-build-error", "%s: %s" % (type(e).__name__, str(e)[:200]))
        ck.case(dict(definition=d, route="event", backend="cython"), nontrivial=nontrivial(d))
        if f:
            ck.violation("cython/" + f[0], f[1], dict(definition=d, route="event", backend="cython"))
    ck.notes["cython_models"] = ncy
    ck.notes["cython_wall_s"] = round(time.time() - tcy, 1)
    ck.assumptions += ["rate/magnitude strings are evaluated independently by sympy.sympify at exact rational points; "
                       "transcendental rates are compared at 45 digits (tolerance 1e-25 relative)",
                       "numeric evaluators compared at 1e-9 relative"]


def replay(ck, data):
    inp = data["input"]
    d, route = inp["definition"], inp.get("route", "event")
    if inp.get("backend") == "cython":
        m, order = mg.build(d, route="event", lambda_backend=False)
        f = numeric_compare(m, d, order, mg.random_point(np.random.default_rng(1), d))
        return f[1] if f else None
    _, f = evaluate(d, route, inp.get("seed", 0))
    return f[0][1] if f else None
