"""C14 — loss kernels are the negative log-likelihoods they are named after.

run(ck):
  T  gen_loss translates loss_type.py / distn.py into Gen/LossGen.v; Props/C14.v (22 theorems over the generated
     definitions) is rebuilt.
  K  (a) the translator's reading of each method (its IR) is evaluated with mpmath at 40 digits on the same inputs as
         the running code (gammaln -> loggamma, poisson.logpmf -> its contract) and compared value by value;
     (b) the result-shape expressions of Gen.LossGen.method_shapes are evaluated inside Coq (Loss.sh_eval, vm_compute)
         on the observed (y shape, yhat shape) pairs and compared with the shapes numpy actually returned.
  S  search: the property stated directly on the implementation against an oracle that shares nothing with pygom:
     textbook densities written with mpmath (gamma in shape/scale form, nbinom in (n, p) form, ...), first and second
     derivatives by mpmath's numerical differentiation of those densities; expected container shapes.
"""
import json, os, re, sys
import numpy as np
import common
sys.path.insert(0, os.path.join(common.VERIF, "gen"))

CLASSES = ["Square", "Normal", "Gamma", "Poisson", "NegBinom"]
METHODS = ["loss", "diff_loss", "diff2Loss"]
SPREAD_KW = {"Normal": "sigma", "Gamma": "shape", "NegBinom": "k"}
SPREAD_DEFAULT = {"Normal": 1.0, "Gamma": 2.0, "NegBinom": 1.0}
COUNT = ("Poisson", "NegBinom")
DPS = 40
TOL_REL = 1e-9          # see notes["tolerance"]
TOL_ABS = 1e-11


# ------------------------------------------------------------------ pygom side
def loss_classes():
    common.pygom_env()
    from pygom.loss import loss_type
    return {c: getattr(loss_type, c) for c in CLASSES}


def build_arrays(cfg):
    """cfg (JSON-able) -> numpy inputs exactly as handed to pygom"""
    lay = cfg["layout"]
    y = np.array(cfg["y"], dtype=(np.int64 if cfg.get("y_int") else float))
    yhat = np.array(cfg["yhat"], dtype=float)
    if lay == "mat":
        r, c = cfg["dims"]
        y = y.reshape(r, c)
        yhat = yhat.reshape(r, c)
    elif lay == "col":
        yhat = yhat.reshape(-1, 1)
    w = None
    if cfg.get("weights") is not None:
        w = np.array(cfg["weights"], dtype=float).reshape(y.shape)
    sp = cfg.get("spread")
    sf = cfg.get("spread_form", "none")
    if sf == "array":
        sp = np.array(sp, dtype=float).reshape(y.shape)
    elif sf == "array_col":
        sp = np.array(sp, dtype=float).reshape(-1, 1)
    elif sf == "int":
        sp = int(sp)
    elif sf in ("float", "default_value"):
        sp = float(sp)
    else:
        sp = None
    return y, yhat, w, sp


def construct(cfg, classes):
    y, yhat, w, sp = build_arrays(cfg)
    cls = cfg["cls"]
    kw = {}
    if w is not None:
        kw["weights"] = w
    if cls in SPREAD_KW and cfg.get("spread_form", "none") != "none":
        kw[SPREAD_KW[cls]] = sp
    return classes[cls](y, **kw), yhat


def eff_spread(cfg):
    cls = cfg["cls"]
    n = len(cfg["y"])
    if cls not in SPREAD_KW:
        return [1.0] * n
    sf = cfg.get("spread_form", "none")
    if sf == "none":
        return [SPREAD_DEFAULT[cls]] * n
    if sf in ("array", "array_col"):
        return [float(v) for v in cfg["spread"]]
    return [float(cfg["spread"])] * n


def shape_code(sh):
    sh = tuple(sh)
    if len(sh) == 0:
        return (0, 0, 0)
    if len(sh) == 1:
        return (1, sh[0], 0)
    if len(sh) == 2:
        return (2, sh[0], sh[1])
    return (3, 0, 0)


def call(obj, method, yhat, aw):
    """-> (values as flat list of floats | None, shape tuple | None, error string | None)"""
    try:
        r = getattr(obj, method)(yhat, apply_weighting=aw)
    except Exception as e:                     # noqa: BLE001
        return None, None, "%s: %s" % (type(e).__name__, str(e)[:120])
    a = np.asarray(r)
    return [float(v) for v in a.ravel()], tuple(a.shape), None


# ------------------------------------------------------------------ oracle (independent of pygom and of the translator)
def oracle(cfg, method, aw):
    """expected values (row-major list of mpf) and expected shape, from textbook densities in mpmath"""
    import mpmath as mp
    mp.mp.dps = DPS
    cls = cfg["cls"]
    ys = [mp.mpf(v) for v in cfg["y"]]
    ms = [mp.mpf(v) for v in cfg["yhat"]]
    ss = [mp.mpf(v) for v in eff_spread(cfg)]
    ws = [mp.mpf(v) for v in cfg["weights"]] if cfg.get("weights") is not None else [mp.mpf(1)] * len(ys)
    weighted = aw and cfg.get("weights") is not None

    def logpdf(y, m, s, w):
        if cls == "Normal":            # density of the (weighted) residual under N(0, s); unweighted: N(y; m, s)
            r = (y - m) * (w if weighted else 1)
            return -mp.log(s * mp.sqrt(2 * mp.pi)) - r * r / (2 * s * s)
        if cls == "Gamma":             # shape a = s, scale theta = mean / shape
            th = m / s
            return (s - 1) * mp.log(y) - y / th - mp.loggamma(s) - s * mp.log(th)
        if cls == "Poisson":
            return y * mp.log(m) - m - mp.log(mp.factorial(y))
        if cls == "NegBinom":          # size n = s, success probability p = s / (s + m)
            p = s / (s + m)
            return mp.log(mp.binomial(y + s - 1, y)) + s * mp.log(p) + y * mp.log(1 - p)
        raise ValueError(cls)

    def nll(y, m, s, w):
        if cls == "Square":
            r = (y - m) * (w if weighted else 1)
            return r * r
        return -logpdf(y, m, s, w)

    if method == "loss":
        terms = [nll(y, m, s, w) for y, m, s, w in zip(ys, ms, ss, ws)]
        return [mp.fsum(terms)], (), mp.fsum([abs(t) for t in terms])
    order = 1 if method == "diff_loss" else 2
    vals = [mp.diff(lambda t, y=y, s=s, w=w: nll(y, t, s, w), m, order) for y, m, s, w in zip(ys, ms, ss, ws)]
    shp = tuple(cfg["dims"]) if cfg["layout"] == "mat" else (len(ys),)
    return vals, shp, None


# ------------------------------------------------------------------ translator IR evaluated with mpmath
def ir_eval(t, ir, ob, aw, obs=None):
    import mpmath as mp
    k = ir[0]
    ev = lambda x: ir_eval(t, x, ob, aw, obs)
    if k == "num":
        return mp.mpf(ir[1].numerator) / ir[1].denominator
    if k == "pi":
        return mp.pi
    if k == "var":
        return ob[ir[1]]
    if k == "yhat":
        return ob["yhat"]
    if k == "neg":
        return -ev(ir[1])
    if k == "add":
        return ev(ir[1]) + ev(ir[2])
    if k == "sub":
        return ev(ir[1]) - ev(ir[2])
    if k == "mul":
        return ev(ir[1]) * ev(ir[2])
    if k == "div":
        return ev(ir[1]) / ev(ir[2])
    if k == "powi":
        return ev(ir[1]) ** ir[2]
    if k == "ln":
        return mp.log(ev(ir[1]))
    if k == "exp":
        return mp.exp(ev(ir[1]))
    if k == "sqrt":
        return mp.sqrt(ev(ir[1]))
    if k == "lgamma":
        return mp.loggamma(ev(ir[1]))
    if k == "ones":
        return mp.mpf(1)
    if k == "ifaw":
        return ev(ir[1]) if aw else ev(ir[2])
    if k == "sum":
        return mp.fsum([ir_eval(t, ir[1], o, aw) for o in obs])
    if k == "call":
        params, body = t["helpers_d"][ir[1]]
        return ir_eval(t, body, dict(zip(params, [ev(a) for a in ir[2]])), aw)
    if k == "ext":
        a = [ev(x) for x in ir[2]]
        if ir[1] == "poisson_logpmf":          # the contract PoisSpec
            return a[0] * mp.log(a[1]) - a[1] - mp.loggamma(a[0] + 1)
        raise ValueError(ir[1])
    if k == "mcall":
        import gen_loss
        a2 = aw if ir[2] == gen_loss.AW else ir[2].v
        ob2 = dict(ob, yhat=ev(ir[3]))
        return ir_eval(t, t["mhelpers"][ir[1]], ob2, a2)
    raise ValueError(k)


def model_values(t, cfg, method, aw):
    import mpmath as mp
    mp.mp.dps = DPS
    n = len(cfg["y"])
    ws = cfg["weights"] if cfg.get("weights") is not None else [1.0] * n
    obs = [dict(y=mp.mpf(a), yhat=mp.mpf(b), s=mp.mpf(c), w=mp.mpf(d))
           for a, b, c, d in zip(cfg["y"], cfg["yhat"], eff_spread(cfg), ws)]
    ir = t["methods"][(cfg["cls"], method)]
    if method == "loss":
        return [ir_eval(t, ir, None, aw, obs)]
    return [ir_eval(t, ir, o, aw) for o in obs]


# ------------------------------------------------------------------ generator
def gen_cfg(rng, cls, big):
    lay = ["vec", "col", "mat"][int(rng.choice(3, p=[0.4, 0.35, 0.25]))]
    if lay == "mat":
        r, c = int(rng.integers(2, 5)), int(rng.integers(2, 4))
        n, dims = r * c, [r, c]
    else:
        n = int(rng.integers(1, 13 if big else 9))
        dims = [n]
    if cls in COUNT:
        y = [float(v) for v in rng.integers(1, 60, size=n)]
    else:
        y = [float(v) for v in np.exp(rng.normal(1.0, 1.2, size=n)).round(6)]
    # predictions: positive, never (nearly) equal to the observation (keeps the derivative formulas well-conditioned)
    f = np.exp(rng.uniform(0.03, 0.9, size=n) * rng.choice([-1, 1], size=n))
    yhat = [float(v) for v in (np.array(y) * f)]
    cfg = dict(cls=cls, layout=lay, dims=dims, y=y, yhat=yhat)
    if cls in COUNT and rng.random() < 0.3:
        cfg["y_int"] = True
    if cls in SPREAD_KW:
        u = rng.random()
        if u < 0.15:
            cfg["spread_form"] = "none"
        elif u < 0.25:
            cfg["spread_form"], cfg["spread"] = "default_value", SPREAD_DEFAULT[cls]
        elif u < 0.33:     # a scalar that is some OTHER kernel's default (1 for sigma / k, 2 for shape): it is a value, not "use the default"
            cfg["spread_form"], cfg["spread"] = "float", float(sorted(set(SPREAD_DEFAULT.values()) | {1.0, 2.0})[int(rng.integers(0, 2))])
        elif u < 0.45:
            cfg["spread_form"], cfg["spread"] = "float", float(np.round(rng.uniform(0.2, 6.0), 4))
        elif u < 0.55:
            cfg["spread_form"], cfg["spread"] = "int", int(rng.integers(1, 7))
        elif u < 0.9 or lay != "vec" or n == 1:
            cfg["spread_form"], cfg["spread"] = "array", [float(v) for v in np.round(rng.uniform(0.2, 6.0, size=n), 4)]
        else:
            cfg["spread_form"], cfg["spread"] = "array_col", [float(v) for v in np.round(rng.uniform(0.2, 6.0, size=n), 4)]
    u = rng.random()
    if u < 0.07 and n >= 2:     # weights that are not all one but average to exactly one
        half = [0.5, 1.5] * (n // 2) + ([1.0] if n % 2 else [])
        cfg["weights"] = [float(v) for v in half]
    elif u < 0.4:
        cfg["weights"] = [float(v) for v in np.round(rng.uniform(0.3, 3.0, size=n), 3)]
    elif u < 0.52:      # the same weight for every observation (a constant, not 1)
        cfg["weights"] = [float([0.5, 2.0, 3.0, 0.25][int(rng.integers(0, 4))])] * n
    r2 = rng.random()
    if r2 < 0.06 and cls in COUNT:      # counts in the millions fitted to a fraction of a percent (a curve against its own rounded values)
        big = [float(int(v)) for v in rng.integers(200000, 3000000, size=n)]
        cfg["y"] = big
        cfg["yhat"] = [float(v * (1.0 + float(rng.choice([-1, 1])) * float(rng.uniform(2e-4, 3e-3)))) for v in big]
    elif r2 < 0.12 and cls == "Gamma" and cfg.get("spread_form") in ("float", "int", "default_value", "none"):
        # precise data (shape in the hundreds) and a prediction off by a factor of three: the density underflows, its log does not
        cfg["spread_form"], cfg["spread"] = "float", float(rng.choice([300.0, 1000.0]))
        cfg["yhat"] = [float(v * float(rng.choice([3.0, 1.0 / 3.0]))) for v in cfg["y"]]
    if rng.random() < 0.06:     # predictions many orders of magnitude below the data (early iterations of a fit, tiny concentrations)
        cfg["yhat"] = [float(v) * float(10.0 ** -int(rng.integers(9, 15))) for v in cfg["yhat"]]
    return cfg


def in_scope(cfg, method, aw):
    """what the property pins down: weighted Square/Normal loss; everything else unweighted"""
    weighted = aw and cfg.get("weights") is not None
    if not weighted:
        return True
    return method == "loss"          # the other three losses ignore weights; Square/Normal are specified weighted


def nontrivial(cfg):
    return len(cfg["y"]) >= 2 and (cfg["layout"] != "vec" or cfg.get("spread_form") in ("array", "array_col")
                                   or cfg.get("weights") is not None)


# ------------------------------------------------------------------ judging
def close(got, want, scale=None, tol_rel=None):
    """-> (ok, relative error)"""
    w = float(want)
    if not np.isfinite(got):
        return False, float("inf")
    den = max(abs(w), float(scale) if scale is not None else 0.0)
    err = abs(got - w)
    rel = err / den if den > 0 else err
    return err <= (TOL_REL if tol_rel is None else tol_rel) * den + TOL_ABS, rel


def judge(cfg, method, aw, classes, stats=None):
    """the property on the implementation: -> None or (cls, what)"""
    try:
        obj, yhat = construct(cfg, classes)
    except Exception as e:                     # noqa: BLE001
        return ("%s.ctor:exception" % cfg["cls"],
                "constructing %s on in-domain data raised %s: %s" % (cfg["cls"], type(e).__name__, str(e)[:100]))
    vals, shp, err = call(obj, method, yhat, aw)
    name = "%s.%s" % (cfg["cls"], method)
    if err:
        return ("%s:exception:%s" % (name, cfg["layout"]), "%s raised on in-domain input (%s layout): %s" % (name, cfg["layout"], err))
    want, wshape, scale = oracle(cfg, method, aw)
    if tuple(shp) != tuple(wshape):
        return ("%s:shape:%s" % (name, cfg["layout"]),
                "%s returned shape %s for y of shape %s and yhat of shape %s; one value per prediction (shape %s) expected"
                % (name, shp, tuple(np.shape(build_arrays(cfg)[0])), tuple(np.shape(yhat)), tuple(wshape)))
    worst = 0.0
    for i, (g, w) in enumerate(zip(vals, want)):
        ok, rel = close(g, w, scale, cfg.get("tol_rel"))
        worst = max(worst, rel if np.isfinite(rel) else 1e300)
        if not ok:
            return ("%s:value" % name,
                    "%s entry %d is %.17g but the %s of the reference %s is %.17g (y=%r, yhat=%r, spread=%r, apply_weighting=%r)"
                    % (name, i, g, {"loss": "negative log-likelihood", "diff_loss": "first derivative",
                                    "diff2Loss": "second derivative"}[method],
                       "sum of squares" if cfg["cls"] == "Square" else "density", float(w),
                       cfg["y"][i] if method != "loss" else "...", cfg["yhat"][i] if method != "loss" else "...",
                       eff_spread(cfg)[i] if method != "loss" else "...", aw))
    # closely fitted large counts: every entry on its own, relative to its exact value (the derivative of a near-perfect fit is
    # tiny next to the data, an error in it is invisible on any scale taken from the whole vector)
    if cfg.get("elementwise_rel"):
        for i, (g, w) in enumerate(zip(vals, want)):
            if float(w) != 0 and not abs(g - float(w)) <= cfg["elementwise_rel"] * abs(float(w)):
                return ("%s:value-elementwise" % name, "%s entry %d is %.17g, the exact value is %.17g (relative error %.3g; y=%r, yhat=%r, spread=%r)"
                        % (name, i, g, float(w), abs(g - float(w)) / abs(float(w)), cfg["y"][i] if method != "loss" else "...",
                           cfg["yhat"][i] if method != "loss" else "...", eff_spread(cfg)[i] if method != "loss" else "..."))
    # the kernels are functions of (y, yhat, spread): evaluating the other methods on the same object in between
    # must not change the answer (no hidden state, no aliasing of the stored spread / data)
    for m2 in ("diff2Loss", "diff_loss", "loss"):
        call(obj, m2, yhat, aw)
    vals2, shp2, err2 = call(obj, method, yhat, aw)
    if err2 or tuple(shp2) != tuple(shp) or any((a != b) and not (a != a and b != b) for a, b in zip(vals, vals2)):
        return ("%s:not-pure" % name,
                "%s gives a different answer after loss/diff_loss/diff2Loss were evaluated on the same object: first %r, then %r"
                % (name, list(vals)[:3], (list(vals2)[:3] if not err2 else err2)))
    # what a kernel hands out belongs to the caller: scaling the returned arrays in place (h *= J**2 in a Gauss-Newton step)
    # must not change any later answer
    outs = []
    for m2 in ("diff2Loss", "diff_loss", "loss"):
        try:
            r = getattr(obj, m2)(yhat, apply_weighting=aw)
            if isinstance(r, np.ndarray) and r.flags.writeable:
                r *= 3.0
                r += 1.0
        except Exception:                      # noqa: BLE001
            pass
    vals5, shp5, err5 = call(obj, method, yhat, aw)
    if err5 or tuple(shp5) != tuple(shp) or any((a != b) and not (a != a and b != b) for a, b in zip(vals, vals5)):
        return ("%s:returned-array-aliased" % name,
                "%s gives a different answer after the arrays returned by loss/diff_loss/diff2Loss were modified in place by the "
                "caller: first %r, then %r" % (name, list(vals)[:3], (list(vals5)[:3] if not err5 else err5)))
    # ... and of the CONTENTS of the prediction, not of the array object: the same buffer updated in place (what an
    # optimiser loop does) must give what a fresh kernel gives on the new contents
    yhat_new = np.asarray(yhat) * 1.0625 + 0.03125
    yhat[...] = yhat_new
    vals3, shp3, err3 = call(obj, method, yhat, aw)
    try:
        obj_f, _ = construct(cfg, classes)
        vals4, shp4, err4 = call(obj_f, method, np.array(yhat_new), aw)
    except Exception as e:                     # noqa: BLE001
        vals4, shp4, err4 = None, None, str(e)
    if not err4 and (err3 or tuple(shp3) != tuple(shp4) or any((a != b) and not (a != a and b != b) for a, b in zip(vals3, vals4))):
        return ("%s:stale-prediction" % name,
                "%s on a prediction array updated in place gives %r, a fresh kernel on the same contents gives %r "
                "(the first call saw %r)" % (name, (list(vals3)[:3] if not err3 else err3), list(vals4)[:3], list(vals)[:3]))
    if stats is not None:
        stats[name] = max(stats.get(name, 0.0), worst)
    return None


def shrink(cfg, method, aw, classes, cls0):
    """fewer observations while the same class of failure remains (vector / column layouts only)"""
    if cfg["layout"] == "mat":
        return cfg
    best = cfg
    for k in (2, 3, 1):
        if k >= len(cfg["y"]):
            continue
        c = dict(cfg)
        for key in ("y", "yhat", "weights"):
            if c.get(key) is not None:
                c[key] = c[key][:k]
        if c.get("spread_form") in ("array", "array_col"):
            c["spread"] = c["spread"][:k]
        c["dims"] = [k]
        j = judge(c, method, aw, classes)
        if j and j[0] == cls0:
            best = c
            break
    return best


# ------------------------------------------------------------------ Coq side
COQ_HEAD = """From Coq Require Import List String.
From PV Require Import Util Loss Gen.LossGen.
Import ListNotations. Open Scope string_scope.
"""


DECL = r'^\s*(?:Lemma|Theorem|Example|Definition|Fixpoint|Ltac|Corollary)\s+(\w+)'


def lemma_at(path, line):
    cur = None
    for i, l in enumerate(open(path).read().split("\n"), 1):
        m = re.match(DECL, l)
        if m:
            cur = m.group(1)
        if i >= line:
            break
    return cur


def dependents(lemma):
    """Props/C14.v theorems whose proof reaches `lemma` through LossProofs.v (identifier-level dependency graph)"""
    chunks, cur = {}, None
    for l in open(os.path.join(common.COQ, "LossProofs.v")).read().split("\n"):
        m = re.match(DECL, l)
        if m:
            cur = m.group(1)
            chunks[cur] = set()
        if cur:
            chunks[cur] |= set(re.findall(r"[A-Za-z_][\w']*", l))
    reach = {lemma}
    changed = True
    while changed:
        changed = False
        for n, ids in chunks.items():
            if n not in reach and ids & reach:
                reach.add(n)
                changed = True
    props = open(os.path.join(common.COQ, "Props", "C14.v")).read()
    out = []
    for m in re.finditer(r"Theorem\s+(\w+)\s*:(.*?)Proof\.(.*?)Qed\.", props, flags=re.S):
        if set(re.findall(r"[A-Za-z_][\w']*", m.group(3))) & reach:
            out.append(m.group(1))
    return out


def refine_broken(ck):
    """a failure inside LossProofs.v: name the lemma and the Props theorems that rest on it"""
    for b in ck.broken:
        m = re.search(r'File "\./(LossProofs\.v)", line (\d+)', b.get("error", ""))
        if not m:
            continue
        lem = lemma_at(os.path.join(common.COQ, m.group(1)), int(m.group(2)))
        users = dependents(lem) if lem else []
        b["theorem"] = "%s (proof over the generated kernels no longer goes through: LossProofs.%s)" % (
            ", ".join(users) if users else "C14", lem)
        b["lemma"] = lem


def coqchk(ck):
    """thorough tier: independent re-check of Props/C14.vo and everything it depends on"""
    cmd = "timeout 900 coqchk -silent -o -R . PV PV.Props.C14"
    ck.checker_cmds.append("cd /verif/coq && " + cmd)
    rc, out = common.sh(cmd, cwd=common.COQ, timeout=960)
    ck.notes["coqchk"] = out[-900:]
    if rc != 0:
        ck.broken.append(dict(theorem="coqchk Props/C14.vo", file="Props/C14.vo", error=out[-800:]))


def run(ck):
    import gen_loss
    ck.rule = ("random loss objects: class in {Square, Normal, Gamma, Poisson, NegBinom}; layout vector y/vector yhat, "
               "vector y/(n,1) column yhat, (r,c) matrix y/matrix yhat; 1-12 observations; y>0 (integers for Poisson/"
               "NegBinom), yhat = y*exp(+-U(0.03,0.9)); spread omitted / default constant / float / int / per-observation "
               "array (also as a column); optional weights; each config x {loss, diff_loss, diff2Loss} x apply_weighting "
               "in {True, False} restricted to what the property pins (weighted only for Square/Normal loss). "
               "non-trivial = at least 2 observations and (non-vector layout or per-observation spread or weights); "
               "distinct by canonical JSON hash of (config, method, apply_weighting)")
    text = gen_loss.generate()
    ok = ck.coq_build("C14", [("LossGen", text)], extra=("Util.vo", "Loss.vo"))
    common.name_assumptions(ck, "C14")
    refine_broken(ck)
    if ok and not ck.quick:
        coqchk(ck)
    tr_ok = "Definition translator_ok := true." in text
    t = None
    if tr_ok:
        t = gen_loss.translate()
        t["helpers_d"] = {n: (p, b) for n, p, b in t["helpers"]}
    else:
        reason = text.split("\n")[0]
        ck.broken.insert(0, dict(theorem="C14_code_facts (translator failed closed)", file="Gen/LossGen.v", error=reason))
        ck.notes["translator"] = reason

    classes = loss_classes()
    rng = np.random.default_rng(ck.seed)
    per_class = ck.budget(60, 1500)
    cfgs = []
    for cls in CLASSES:
        cfgs += [gen_cfg(rng, cls, not ck.quick) for _ in range(per_class)]
    # corpus: the layouts of the property text on tiny data, every class
    for cls in CLASSES:
        for lay in ("vec", "col"):
            cfgs.append(dict(cls=cls, layout=lay, dims=[3], y=[3.0, 5.0, 2.0], yhat=[2.5, 4.0, 3.5]))
        cfgs.append(dict(cls=cls, layout="mat", dims=[2, 2], y=[3.0, 5.0, 2.0, 7.0], yhat=[2.5, 4.0, 3.5, 9.0]))
    # counts in the millions fitted to within a count or two (a solution against its own rounded values), small and large k
    for kk in (0.05, 0.5, 5.0):
        cfgs.append(dict(cls="NegBinom", layout="vec", dims=[4], y=[1203456.0, 2500001.0, 730000.0, 999999.0],
                         yhat=[1203456.4, 2499998.7, 730000.35, 1000001.2], spread_form="float", spread=kk, elementwise_rel=1e-6))
    cfgs.append(dict(cls="Poisson", layout="vec", dims=[3], y=[1203456.0, 2500001.0, 730000.0], yhat=[1203456.4, 2499998.7, 730000.35],
                     elementwise_rel=1e-6))
    # nearly Poisson (k a hundred million times the counts); Poisson with predictions of a few 1e-9 (the start of an outbreak)
    # (log-gamma differences at k = 1e7 carry an absolute error of a few 1e-8 in any double-precision formula: judged at 3e-7)
    cfgs.append(dict(cls="NegBinom", layout="vec", dims=[4], y=[3.0, 7.0, 1.0, 9.0], yhat=[2.2, 15.5, 3.0, 31.0], spread_form="float", spread=2e7,
                     tol_rel=3e-7))
    cfgs.append(dict(cls="NegBinom", layout="vec", dims=[3], y=[3.0, 7.0, 40.0], yhat=[2.2, 15.5, 31.0], spread_form="array", spread=[2e7, 5e7, 2.5],
                     tol_rel=3e-7))
    cfgs.append(dict(cls="Poisson", layout="vec", dims=[3], y=[1.0, 2.0, 1.0], yhat=[3e-9, 1e-10, 4e-8], elementwise_rel=1e-9))
    # precise Gamma data and a prediction off by a factor of three; weights that average to one
    cfgs.append(dict(cls="Gamma", layout="vec", dims=[3], y=[3.0, 5.0, 2.0], yhat=[9.0, 1.7, 6.0], spread_form="float", spread=1000.0))
    for cls in ("Square", "Normal"):
        cfgs.append(dict(cls=cls, layout="vec", dims=[4], y=[3.0, 5.0, 2.0, 7.0], yhat=[2.5, 4.0, 3.5, 9.0], weights=[0.5, 1.5, 0.5, 1.5]))

    # long series with a spread far from one (a product of 400 standard deviations of 50 has no double; the sum of their logs has);
    # per-observation spreads that differ from each other by parts in a million (a vector, not "an expanded scalar")
    r14 = np.random.default_rng(14)
    for n_, sg in ((400, 50.0), (1200, 0.5)):
        yy = [float(v) for v in np.round(1000.0 + 200.0 * r14.standard_normal(n_), 3)]
        cfgs.append(dict(cls="Normal", layout="vec", dims=[n_], y=yy, yhat=[float(v) for v in np.round(np.array(yy) * r14.uniform(0.9, 1.1, n_), 3)],
                         spread_form="float", spread=sg))
    yy = [float(v) for v in np.round(r14.uniform(0.5, 3.0, 365), 4)]
    cfgs.append(dict(cls="Normal", layout="vec", dims=[365], y=yy, yhat=[float(v) for v in np.round(np.array(yy) * r14.uniform(0.9, 1.1, 365), 4)],
                     spread_form="array", spread=[float(v) for v in np.round(r14.uniform(0.05, 0.2, 365), 4)]))
    for cls, base in (("Gamma", 2.5), ("NegBinom", 3.0), ("Normal", 0.7)):
        yy = [3.0, 5.0, 2.0, 7.0, 4.0, 6.0]
        cfgs.append(dict(cls=cls, layout="vec", dims=[6], y=yy, yhat=[2.5, 4.0, 3.5, 9.0, 4.4, 5.1], spread_form="array",
                         spread=[base * (1.0 + 2e-6 * k) for k in range(6)], tol_rel=1e-9))

    dist = {}
    shape_cases = {}
    k_stats, s_stats = {}, {}
    k_bad = []
    n_k = 0
    for cfg in cfgs:
        try:
            obj, yhat = construct(cfg, classes)
            yshape = tuple(np.shape(build_arrays(cfg)[0]))
        except Exception as e:                 # noqa: BLE001
            obj = None
        for method in METHODS:
            for aw in (True, False):
                if not in_scope(cfg, method, aw):
                    continue
                key = "%s.%s/%s/%s%s" % (cfg["cls"], method, cfg["layout"], cfg.get("spread_form", "-"),
                                         "/w" if cfg.get("weights") is not None else "")
                dist[key] = dist.get(key, 0) + 1
                ck.case(dict(cfg=cfg, method=method, aw=aw), nontrivial=nontrivial(cfg))
                # ---- search: the property on the implementation
                j = judge(cfg, method, aw, classes, s_stats)
                if j:
                    small = shrink(cfg, method, aw, classes, j[0])
                    jm = judge(small, method, aw, classes) or j
                    ck.violation(jm[0], jm[1], dict(cfg=small, method=method, aw=aw))
                if obj is None:
                    continue
                # ---- K: the model (translator IR; shape expression) against the implementation
                vals, shp, err = call(obj, method, yhat, aw)
                out = shape_code(shp) if err is None else (3, 0, 0)
                shape_cases.setdefault(("%s.%s" % (cfg["cls"], method), shape_code(yshape), shape_code(np.shape(yhat)), out), cfg)
                if t is not None and err is None:
                    mv = model_values(t, cfg, method, aw)
                    n_k += 1
                    flat = vals
                    if len(mv) == len(flat):
                        for g, w in zip(flat, mv):
                            okv, rel = close(g, w, None if method != "loss" else abs(w) + 1, cfg.get("tol_rel"))
                            nm = "%s.%s" % (cfg["cls"], method)
                            k_stats[nm] = max(k_stats.get(nm, 0.0), rel if np.isfinite(rel) else 1e300)
                            if not okv:
                                k_bad.append((nm, cfg, aw, g, float(w)))
                                break
                    # a different number of entries is a shape matter: reported by the shape correspondence below
    ck.notes["input_distribution"] = dist
    # ---- K(b): shapes inside Coq
    sc = list(shape_cases)
    files = []
    for s in range(0, len(sc), 400):
        body = ";\n ".join('("%s", (%d,%d,%d)%%nat, (%d,%d,%d)%%nat, (%d,%d,%d)%%nat)' % ((c[0],) + c[1] + c[2] + c[3])
                           for c in sc[s:s + 400])
        files.append(("c14_shapes_%d" % (s // 400), COQ_HEAD + "Definition cases := [\n " + body +
                      "].\nEval vm_compute in failing (shape_case_ok method_shapes) cases.\n"))
    shape_dis = []
    if tr_ok:
        outs = ck.coq_eval_many(files)
        for s in range(0, len(sc), 400):
            idx = common.parse_int_list(outs["c14_shapes_%d" % (s // 400)][0])
            shape_dis += [sc[s + i] for i in idx]
    ck.notes["correspondence_shape_cases_distinct"] = len(sc)
    ck.notes["correspondence_shape_disagreements"] = len(shape_dis)
    ck.notes["correspondence_value_cases"] = n_k
    ck.notes["correspondence_value_disagreements"] = len(k_bad)
    if shape_dis:
        c = shape_dis[0]
        ck.broken.append(dict(theorem="correspondence Loss.sh_eval(method_shapes) vs numpy result shape",
                              file="c14_shapes", error="model and implementation differ on %s: y shape %s, yhat shape %s, observed %s"
                              % (c[0], c[1], c[2], c[3])))
    if k_bad:
        nm, cfg, aw, g, w = k_bad[0]
        ck.broken.append(dict(theorem="correspondence translated %s (mpmath evaluation of the generated term) vs implementation" % nm,
                              file="gen_loss IR", error="implementation %.17g, translated term %.17g on %s apply_weighting=%s"
                              % (g, w, json.dumps(cfg), aw)))
    ck.notes["max_relative_error_search"] = {k: float("%.3g" % v) for k, v in sorted(s_stats.items())}
    ck.notes["max_relative_error_correspondence"] = {k: float("%.3g" % v) for k, v in sorted(k_stats.items())}
    ck.notes["tolerance"] = ("|got-want| <= %g*max(|want|, sum|terms| for a loss) + %g ; pygom works in float64 (1e-16 per "
                             "operation, gammaln ~1e-15 relative); oracle and translated terms are evaluated at %d digits; "
                             "largest error observed on the unchanged tree is reported in max_relative_error_*; a sign / "
                             "constant / argument slip changes values by O(1) relative on these inputs"
                             % (TOL_REL, TOL_ABS, DPS))
    ck.assumptions += [
        "numpy arithmetic on same-shape arrays is elementwise; the per-observation scalar functions of Gen/LossGen.v are "
        "the array methods read at one index (checked each run by evaluating the translated terms with mpmath, K(a))",
        "scipy.special.gammaln = ln o Gamma with Gamma>0 and Gamma(n+1)=n! (GammaSpec) and scipy.stats.poisson.logpmf = "
        "ln of the Poisson mass function (PoisSpec): Section hypotheses of the theorems, exercised numerically through K(a)",
        "y, weights and the spread array have the same shape (what the constructors enforce); result shapes follow "
        "numpy broadcasting as modelled by Loss.bcast/squeeze1 (checked each run inside Coq, K(b))",
        "derivative oracle: mpmath.diff (numerical, %d digits) of textbook log densities" % DPS,
        "the property is silent about diff_loss/diff2Loss with weights switched on (\"unweighted loss\"): not examined",
    ]


def replay(ck, data):
    inp = data.get("input")
    if not inp:
        return None
    classes = loss_classes()
    j = judge(inp["cfg"], inp["method"], inp["aw"], classes)
    return j[1] if j else None
