"""C16 probe run in a process of its own (the caller sets PYTHONHASHSEED): a model with three differently distributed random
parameters given by name in a dictionary; after numpy.random.seed(s) the realisations of the parameters (read through
simulate_param) and the mean path are printed as JSON.  The same seed must give the same numbers in every interpreter session,
and they must be the draws of RandomState(s) taken in the order of the user's dictionary."""
import json, os, sys
sys.path.insert(0, os.path.dirname(os.path.abspath(__file__)))
import numpy as np
import pg
import scipy.stats as st


def main():
    m = pg.model(state=["A", "B"], param=["kappa", "beta_rate", "alpha"],
                 ode=[pg.Transition(origin="A", equation="-kappa*A + alpha", transition_type="ODE"),
                      pg.Transition(origin="B", equation="kappa*A - beta_rate*B", transition_type="ODE")])
    m.initial_values = ([10.0, 1.0], np.float64(0))
    out = {}
    for seed in (5, 6):
        np.random.seed(seed)
        m.parameters = {"kappa": st.gamma(4.0, scale=0.25), "beta_rate": st.uniform(0.2, 0.6), "alpha": st.expon(scale=0.5)}
        with pg.quiet():
            Y, sols = m.solve_determ(np.array([0.5, 1.0, 2.0]), iteration=3, full_output=True)
        out[str(seed)] = dict(mean=np.asarray(Y, dtype=float).round(12).tolist(),
                              runs=[np.asarray(s_, dtype=float).round(12).tolist() for s_ in sols])
    print("C16HASH " + json.dumps(out))


if __name__ == "__main__":
    main()
