"""C18 — fit stays inside the box and never returns something worse than its start."""
import json, math, os, sys, time
import numpy as np
import common
sys.path.insert(0, os.path.join(common.VERIF, "gen"))

# =================================================================== K: the call fit makes, against Fit.fit_call
OBJ = {"cost": "ObjCost", "costIV": "ObjCostIV"}
GRAD = {"sensitivity": "GradSensitivity", "sensitivityIV": "GradSensitivityIV", "adjoint": "GradAdjoint",
        "gradient": "GradGradient"}
METHOD = {"L-BFGS-B": "LBFGSB", "SLSQP": "SLSQP"}


class _Tag:
    def __init__(self, name): self.name = name
    def __call__(self, *a, **k): raise RuntimeError("probe attribute %s was called" % self.name)


class _ProbeSelf:
    """stands for `self` in BaseLoss.fit: every attribute is a named tag, so the stub sees which ones were passed"""
    def __getattr__(self, name):
        t = _Tag(name)
        object.__setattr__(self, name, t)
        return t


def _container(kind, vals):
    if vals is None: return None
    if kind == 0: return list(vals)
    if kind == 1: return np.array(vals, dtype=int)
    if kind == 2: return tuple(vals)
    return np.array(vals, dtype=float)


def gen_call_case(rng):
    n = int(rng.integers(1, 9))
    r = rng.random()
    nl = nu = n
    if r < 0.10: nl = int(rng.choice([k for k in range(1, 10) if k != n]))
    elif r < 0.20: nu = int(rng.choice([k for k in range(1, 10) if k != n]))
    elif r < 0.25: nl = nu = int(rng.choice([k for k in range(1, 10) if k != n]))
    val = lambda k: [int(v) for v in rng.integers(-60, 1000, size=k)]
    lb, ub = val(nl), val(nu)
    s = rng.random()
    if s < 0.08: lb = None
    elif s < 0.16: ub = None
    elif s < 0.20: lb = ub = None
    return dict(x=val(n), lb=lb, ub=ub, full=bool(rng.random() < 0.3), kinds=[int(k) for k in rng.integers(0, 4, size=3)])


def observe_call(case):
    """run the real BaseLoss.fit with a recording stub in place of scipy.optimize.minimize"""
    import pygom.loss.base_loss as bl
    from scipy.optimize import OptimizeResult
    marker = np.array([123456.0])
    rec = {}
    def stub(*a, **kw):
        rec["args"], rec["kw"] = a, kw
        rec["res"] = OptimizeResult(x=marker, success=True, fun=0.0)
        return rec["res"]
    orig = bl.minimize
    bl.minimize = stub
    try:
        k = case["kinds"]
        try:
            out = bl.BaseLoss.fit(_ProbeSelf(), _container(k[0], case["x"]), _container(k[1], case["lb"]),
                                  _container(k[2], case["ub"]), full_output=case["full"])
        except Exception as e:
            return dict(raised=type(e).__name__)
    finally:
        bl.minimize = orig
    if "kw" not in rec:
        return dict(raised="minimize-not-called")
    kw = rec["kw"]
    def ent(v):
        if v is None: return None
        fv = float(v)
        if fv != fv or fv in (float("inf"), float("-inf")):
            return 987654321 if fv > 0 else -987654321      # not None: an infinite bound is not an absent bound
        if fv != int(fv): return int(round(fv * 1000)) + 5 * 10 ** 8   # a non-integer where integers were given
        return int(fv)
    b = np.asarray(kw.get("bounds"), dtype=object)
    if b.ndim == 1: b = b.reshape(1, -1)
    bounds = [[ent(v) for v in row] for row in b.reshape(b.shape[0], -1)]
    if case["full"]:
        ret = "RetOther"
        if isinstance(out, tuple) and len(out) == 2 and out[1] is rec["res"]:
            ret = "RetResX" if out[0] is marker else ("RetRes" if out[0] is rec["res"] else "RetOther")
    else:
        ret = "RetResX" if out is marker else ("RetRes" if out is rec["res"] else "RetOther")
    return dict(raised=None, fun=OBJ.get(getattr(kw.get("fun"), "name", None), "ObjOther"),
                jac=GRAD.get(getattr(kw.get("jac"), "name", None), "GradOther" if kw.get("jac") is not None else "GradNone"),
                x0=[ent(v) for v in np.asarray(kw.get("x0")).ravel()], bounds=bounds,
                method=METHOD.get(kw.get("method"), "OtherMethod"), ret=ret, positional=len(rec["args"]))


def _oz(v):
    return "None" if v is None else ("Some %d" % v if v >= 0 else "Some (%d)" % v)


def _ozl(l):
    return "[" + "; ".join(_oz(v) for v in l) + "]"


def coq_call_case(case, obs):
    opt = lambda l: "None" if l is None else "Some " + _ozl(l)
    if obs["raised"]:
        o = "ObsRaised"
    else:
        o = "ObsCall %s %s %s [%s] %s %s" % (obs["fun"], obs["jac"], _ozl(obs["x0"]),
                                            "; ".join(_ozl(r) for r in obs["bounds"]), obs["method"], obs["ret"])
    return "(%s, %s, %s, %s, %s)" % (_ozl(case["x"]), opt(case["lb"]), opt(case["ub"]),
                                     "true" if case["full"] else "false", o)


COQ_HEAD = """From Coq Require Import List ZArith Bool.
From PV Require Import Util Fit Gen.FitGen.
Import ListNotations. Open Scope Z_scope.
"""

CALL_CORPUS = [
    dict(x=[5, 25], lb=[0, 20], ub=[10, 30], full=False, kinds=[0, 0, 0]),
    dict(x=[5, 25, 7], lb=[0, 20, 1], ub=[10, 30, 9], full=True, kinds=[1, 1, 1]),
    dict(x=[5, 25], lb=None, ub=[10, 30], full=False, kinds=[0, 0, 0]),
    dict(x=[5, 25], lb=[1, 2, 3], ub=[10, 30], full=False, kinds=[0, 0, 0]),
    dict(x=[5], lb=[1], ub=[10], full=False, kinds=[0, 0, 0]),
]


# =================================================================== catalogue models with an independent RHS
def _sir(x, p):
    S, I, R = x; b, g, N = p
    return [-b*S*I/N, b*S*I/N - g*I, g*I]
def _seir(x, p):
    S, E, I, R = x; b, a, g, N = p
    return [-b*S*I/N, b*S*I/N - a*E, a*E - g*I, g*I]
def _sis(x, p):
    S, I = x; b, g, N = p
    return [-b*S*I/N + g*I, b*S*I/N - g*I]
def _sirn(x, p):
    S, I, R = x; b, g = p
    return [-b*S*I, b*S*I - g*I, g*I]
def _lv(x, p):
    u, v = x; al, be, ga, de = p
    return [al*u - be*u*v, de*u*v - ga*v]
def _fh(x, p):
    V, R = x; a, b, c = p
    return [c*(V - V**3/3 + R), -((V - a + b*R)/c)]

def _sisp(x, p, t=0.0):
    S, I = x; gamma, beta0, delta, period, N = p
    betaT = beta0 * (1 - delta * math.cos(2 * 3.14159 * t / period))        # common_models writes 3.14159 for pi
    return [-betaT*S*I/N + gamma*I, betaT*S*I/N - gamma*I]

ALL5 = ["SquareLoss", "NormalLoss", "PoissonLoss", "GammaLoss", "NegBinomLoss"]
CATALOGUE = {
    "SIR": dict(rhs=_sir, params=["beta", "gamma", "N"], states=["S", "I", "R"],
                truth=lambda r: [r.uniform(.35, .8), r.uniform(.1, .3), float(r.choice([500., 1000., 2000.]))],
                x0=lambda r, th: (lambda i0: [th[2] - i0, i0, 0.0])(float(r.uniform(5, 20))),
                T=(20, 40), obs=[["I"], ["R"], ["I", "R"], ["S", "I", "R"]], targets=[None, ["beta", "gamma"], ["beta"], ["gamma"]],
                losses=ALL5),
    "SEIR": dict(rhs=_seir, params=["beta", "alpha", "gamma", "N"], states=["S", "E", "I", "R"],
                 truth=lambda r: [r.uniform(.6, 1.2), r.uniform(.2, .6), r.uniform(.1, .3), float(r.choice([500., 1000.]))],
                 x0=lambda r, th: (lambda e0, i0: [th[3] - e0 - i0, e0, i0, 0.0])(float(r.uniform(3, 10)), float(r.uniform(3, 10))),
                 T=(25, 45), obs=[["I"], ["E", "I"], ["I", "R"]], targets=[None, ["beta", "alpha", "gamma"], ["beta", "gamma"]],
                 losses=ALL5),
    "SIS": dict(rhs=_sis, params=["beta", "gamma", "N"], states=["S", "I"],
                truth=lambda r: [r.uniform(.4, .9), r.uniform(.1, .3), float(r.choice([500., 1000.]))],
                x0=lambda r, th: (lambda i0: [th[2] - i0, i0])(float(r.uniform(5, 20))),
                T=(15, 30), obs=[["I"], ["S", "I"]], targets=[None, ["beta", "gamma"], ["gamma"]], losses=ALL5),
    "SIR_norm": dict(rhs=_sirn, params=["beta", "gamma"], states=["S", "I", "R"],
                     truth=lambda r: [r.uniform(.8, 2.5), r.uniform(.15, .4)],
                     x0=lambda r, th: (lambda i0: [1.0 - i0, i0, 0.0])(float(r.uniform(.005, .03))),
                     T=(10, 25), obs=[["I"], ["I", "R"], ["S", "I", "R"]], targets=[None, ["beta"]],
                     losses=["SquareLoss", "NormalLoss", "GammaLoss"]),
    "Lotka_Volterra": dict(rhs=_lv, params=["alpha", "beta", "gamma", "delta"], states=["x", "y"],
                           truth=lambda r: [r.uniform(.8, 1.2), r.uniform(.08, .12), r.uniform(1.2, 1.8), r.uniform(.06, .09)],
                           x0=lambda r, th: [float(r.uniform(8, 14)), float(r.uniform(4, 8))],
                           T=(6, 12), obs=[["x"], ["x", "y"]], targets=[None, ["alpha", "gamma"], ["alpha", "beta", "gamma", "delta"]],
                           losses=ALL5),
    # seasonally forced: the only catalogue entries whose right-hand side reads the clock
    "SIS_Periodic": dict(rhs=_sisp, params=["gamma", "beta0", "delta", "period", "N"], states=["S", "I"],
                         truth=lambda r: [r.uniform(.8, 1.2), r.uniform(1.6, 2.4), r.uniform(.4, .7), 5.0, 1.0],
                         x0=lambda r, th: (lambda i0: [1.0 - i0, i0])(float(r.uniform(.05, .2))),
                         T=(8, 12), obs=[["I"], ["S", "I"]], targets=[["beta0", "delta"], ["gamma", "beta0"]],
                         losses=["SquareLoss", "NormalLoss"]),
    "FitzHugh": dict(rhs=_fh, params=["a", "b", "c"], states=["V", "R"],
                     truth=lambda r: [r.uniform(.15, .3), r.uniform(.15, .3), r.uniform(2.5, 3.5)],
                     x0=lambda r, th: [float(r.uniform(-1.2, -.8)), float(r.uniform(.8, 1.2))],
                     T=(8, 16), obs=[["V"], ["V", "R"]], targets=[None, ["a", "b"]], losses=["SquareLoss", "NormalLoss"]),
}
QUICK_MODELS = ["SIR", "SIS", "SIR_norm", "Lotka_Volterra", "FitzHugh", "SEIR", "SIS_Periodic"]


def indep_traj(model, theta, x0, times):
    """trajectory at times[1:] from the hand-written right-hand side, integrator independent of pygom's wrappers"""
    from scipy.integrate import solve_ivp
    f = CATALOGUE[model]["rhs"]
    import inspect
    timed = len(inspect.signature(f).parameters) >= 3
    s = solve_ivp((lambda t, x: f(x, theta, t)) if timed else (lambda t, x: f(x, theta)), (times[0], times[-1]), x0, method="DOP853", t_eval=times[1:],
                  rtol=1e-11, atol=1e-13)
    if not s.success:
        raise common.InternalError("reference integrator failed on %s" % model)
    return s.y.T


def indep_cost(cfg, theta_sub):
    """the stated loss of the model trajectory against the data, computed without pygom"""
    M = CATALOGUE[cfg["model"]]
    th = list(cfg["truth"])
    tgt = cfg["target"] or M["params"]
    for nm, v in zip(tgt, theta_sub):
        th[M["params"].index(nm)] = float(v)
    traj = indep_traj(cfg["model"], th, cfg["x0"], cfg["times"])
    idx = [M["states"].index(s) for s in cfg["obs"]]
    yh = traj[:, idx]
    y = np.array(cfg["y"], dtype=float).reshape(yh.shape)
    w = np.ones_like(y) if cfg["weight"] is None else np.ones_like(y) * np.array(cfg["weight"], dtype=float)
    L, h = cfg["loss"], cfg["hyper"]
    lg = np.vectorize(math.lgamma)
    if L == "SquareLoss":
        return float((((y - yh) * w) ** 2).sum())
    if L == "NormalLoss":
        return float((0.5 * math.log(2 * math.pi) + math.log(h) + ((y - yh) * w) ** 2 / (2 * h * h)).sum())
    if np.any(yh <= 0):
        return float("nan")
    if L == "PoissonLoss":
        return float((yh - y * np.log(yh) + lg(y + 1)).sum())
    if L == "GammaLoss":
        a = h
        return float((-(a * np.log(a / yh) - lg(a) + (a - 1) * np.log(y) - a * y / yh)).sum())
    if L == "NegBinomLoss":
        k = h
        return float((-(lg(y + k) - lg(k) - lg(y + 1) + k * np.log(k / (k + yh)) + y * np.log(yh / (k + yh)))).sum())
    raise ValueError(L)


def gen_fit_case(rng, models, kind, force=None):
    """kind: 'truth' (noise-free data, start at the generating parameters) or 'random' (random start in the box)"""
    force = force or {}
    name = models[int(rng.integers(0, len(models)))]
    M = CATALOGUE[name]
    th = [float(v) for v in M["truth"](rng)]
    x0 = [float(v) for v in M["x0"](rng, th)]
    T = float(rng.uniform(*M["T"])); nobs = int(rng.integers(6, 13))
    th, x0, T, nobs = force.get("truth", th), force.get("x0", x0), force.get("T", T), force.get("nobs", nobs)
    times = [float(force.get("t_shift", 0.0) + t) for t in np.linspace(0.0, T, nobs + 1)]
    obs = M["obs"][int(rng.integers(0, len(M["obs"])))]
    target = M["targets"][int(rng.integers(0, len(M["targets"])))]
    losses = M["losses"] if kind == "random" else [l for l in M["losses"] if l in ("SquareLoss", "NormalLoss", "GammaLoss")]
    loss = losses[int(rng.integers(0, len(losses)))]
    obs, target, loss = force.get("obs", obs), force.get("target", target), force.get("loss", loss)
    traj = indep_traj(name, th, x0, times)
    ytrue = traj[:, [M["states"].index(s) for s in obs]]
    noisy = kind == "random" and rng.random() < 0.6
    if loss in ("PoissonLoss", "NegBinomLoss"):
        y = rng.poisson(ytrue).astype(float) if noisy else np.round(ytrue)
        y = np.maximum(y, 1.0)
        noisy = True
    elif noisy:
        y = ytrue * np.exp(rng.normal(0, 0.08, size=ytrue.shape)) if loss == "GammaLoss" or np.all(ytrue > 0) \
            else ytrue + rng.normal(0, 0.05, size=ytrue.shape)
    else:
        y = ytrue
    scale = float(np.mean(np.abs(ytrue))) or 1.0
    hyper = None
    if loss == "NormalLoss": hyper = float(rng.uniform(0.05, 0.5) * scale)
    if loss == "GammaLoss": hyper = float(rng.uniform(1.5, 5))
    if loss == "NegBinomLoss": hyper = float(rng.uniform(1, 6))
    weight = None
    if loss in ("SquareLoss", "NormalLoss") and rng.random() < 0.3:
        weight = [float(v) for v in rng.uniform(0.5, 2.0, size=len(obs))]
    if target and len(target) > 1 and rng.random() < 0.5:
        target = [target[i] for i in rng.permutation(len(target))]
    elif not target and len(M["params"]) > 1 and rng.random() < 0.3:
        target = [M["params"][i] for i in rng.permutation(len(M["params"]))]
    tgt = target or M["params"]
    tsub = [th[M["params"].index(p)] for p in tgt]
    lb = [float(v * rng.uniform(0.4, 0.9)) for v in tsub]
    ub = [float(v * rng.uniform(1.1, 2.2)) for v in tsub]
    ub_int = bool(rng.random() < 0.25)
    if ub_int:                       # integer-typed upper bounds next to fractional lower bounds (dtype must not leak)
        ub = [float(np.ceil(u)) if np.ceil(u) > v else float(np.ceil(u) + 1) for u, v in zip(ub, tsub)]
    if force.get("box"):            # relative to the generating values: [(lo factor, hi factor), ...] per fitted parameter
        lb = [float(v * f[0]) for v, f in zip(tsub, force["box"])]
        ub = [float(v * f[1]) for v, f in zip(tsub, force["box"])]
        ub_int = False
    if kind == "truth":
        start = list(tsub)
    elif force.get("start"):
        start = [float(v * f) for v, f in zip(tsub, force["start"])]
    else:
        start = [float(rng.uniform(l, u)) for l, u in zip(lb, ub)]
        for i in range(len(start)):                      # sometimes start exactly on a face of the box
            r = rng.random()
            if r < 0.08: start[i] = lb[i]
            elif r < 0.16: start[i] = ub[i]
    return dict(kind=kind, model=name, truth=th, x0=x0, times=times, obs=obs, target=target, loss=loss, hyper=hyper,
                weight=weight, noisy=bool(noisy), y=[[float(v) for v in row] for row in y], lb=lb, ub=ub, start=start,
                container=int(rng.integers(0, 3)), ub_int=ub_int)


def fit_corpus():
    """fixed cases run first on every run (own generator, independent of VERIF_SEED)"""
    r = np.random.default_rng(18)
    weighted = gen_fit_case(r, ["SIR"], "random", dict(obs=["I", "R"], target=["beta", "gamma"], loss="NormalLoss"))
    weighted["weight"] = [0.7, 1.6]
    cases = [
        weighted,
        gen_fit_case(r, ["SIR"], "truth", dict(obs=["I", "R"], target=["beta", "gamma"], loss="SquareLoss")),
        gen_fit_case(r, ["SIR"], "truth", dict(obs=["I"], target=None, loss="GammaLoss")),
        gen_fit_case(r, ["SIS"], "random", dict(obs=["I"], target=["beta", "gamma"], loss="GammaLoss")),
        gen_fit_case(r, ["SEIR"], "random", dict(obs=["E", "I"], target=None, loss="NormalLoss")),
        gen_fit_case(r, ["Lotka_Volterra"], "random", dict(obs=["x", "y"], target=None, loss="PoissonLoss")),
        gen_fit_case(r, ["FitzHugh"], "truth", dict(obs=["V", "R"], target=None, loss="SquareLoss")),
        # a calendar time axis (decimal years, weekly data): the model is autonomous, only the clock differs
        gen_fit_case(r, ["SIR"], "truth", dict(obs=["I", "R"], target=["beta", "gamma"], loss="SquareLoss", truth=[60.0, 26.0, 1000.0],
                                               x0=[990.0, 10.0, 0.0], T=0.5, nobs=26, t_shift=2020.0)),
        gen_fit_case(r, ["SIR"], "random", dict(obs=["I"], target=["beta", "gamma"], loss="NormalLoss", truth=[60.0, 26.0, 1000.0],
                                                x0=[990.0, 10.0, 0.0], T=0.5, nobs=26, t_shift=2020.0)),
        # one fitted parameter in a wide box (the cost has several valleys across it): the start decides where the fit ends
        gen_fit_case(r, ["Lotka_Volterra"], "random", dict(obs=["x", "y"], target=["delta"], loss="SquareLoss", truth=[1.0, 0.1, 1.5, 0.075],
                                                           x0=[10.0, 5.0], T=15.0, nobs=30, box=[(0.01 / 0.075, 1.0 / 0.075)], start=[1.05])),
        gen_fit_case(r, ["Lotka_Volterra"], "truth", dict(obs=["x", "y"], target=["delta"], loss="SquareLoss", truth=[1.0, 0.1, 1.5, 0.075],
                                                          x0=[10.0, 5.0], T=15.0, nobs=30, box=[(0.01 / 0.075, 1.0 / 0.075)])),
        # a box that excludes the generating parameters (a bound is active at the optimum): the answer stays inside
        gen_fit_case(r, ["SIR"], "random", dict(obs=["I", "R"], target=["beta", "gamma"], loss="SquareLoss", box=[(0.5, 0.9), (0.7, 1.6)],
                                                start=[0.8, 1.2])),
        gen_fit_case(r, ["SIR"], "random", dict(obs=["I"], target=["beta", "gamma"], loss="SquareLoss", box=[(0.6, 1.5), (1.08, 1.9)],
                                                start=[1.2, 1.3])),
        # a forced model observed from a time that is not a multiple of the forcing period; a tiny seed in proportions
        gen_fit_case(r, ["SIS_Periodic"], "truth", dict(obs=["I"], target=["beta0", "delta"], loss="SquareLoss", t_shift=3.0)),
        gen_fit_case(r, ["SIS_Periodic"], "random", dict(obs=["S", "I"], target=["gamma", "beta0"], loss="NormalLoss", t_shift=3.0)),
        # (the whole epidemic is observed: with a seed of 1e-8 the timing of the peak amplifies any integration error)
        gen_fit_case(r, ["SIR_norm"], "truth", dict(obs=["I", "R"], target=None, loss="SquareLoss", truth=[0.5, 1.0 / 3.0],
                                                    x0=[1.0 - 1e-8, 1e-8, 0.0], T=220.0, nobs=55)),
        gen_fit_case(r, ["SIR_norm"], "truth", dict(obs=["I", "R"], target=None, loss="NormalLoss", truth=[0.5, 1.0 / 3.0],
                                                    x0=[1.0 - 1.3e-7, 1.3e-7, 0.0], T=200.0, nobs=50)),
        # head counts instead of proportions: the transmission parameter is of order 1e-9
        gen_fit_case(r, ["SIR_norm"], "truth", dict(obs=["I"], target=None, loss="SquareLoss", truth=[4e-9, 0.25],
                                                    x0=[1e8 - 1e3, 1e3, 0.0], T=40.0)),
        gen_fit_case(r, ["SIR_norm"], "truth", dict(obs=["I", "R"], target=["beta"], loss="SquareLoss", truth=[4e-9, 0.25],
                                                    x0=[1e8 - 1e3, 1e3, 0.0], T=40.0)),
    ]
    # the parameters that are not fitted are given their values on the shared model after the loss object was constructed
    late1 = gen_fit_case(r, ["SIR"], "truth", dict(obs=["I", "R"], target=["beta"], loss="SquareLoss"))
    late2 = gen_fit_case(r, ["SEIR"], "random", dict(obs=["E", "I"], target=["alpha", "beta"], loss="NormalLoss"))
    late1["fixed_late"] = late2["fixed_late"] = True
    return cases + [late1, late2]


_MODEL_CACHE = {}


def build_loss(cfg):
    import pg
    import pygom
    from pygom import common_models
    M = CATALOGUE[cfg["model"]]
    key = cfg["model"]
    if key not in _MODEL_CACHE:
        _MODEL_CACHE[key] = pg.lam(getattr(common_models, cfg["model"])())
    m = _MODEL_CACHE[key]
    m.parameters = dict(zip(M["params"], cfg["truth"]))
    late = {}
    if cfg.get("fixed_late") and cfg["target"]:
        # the parameters that are NOT fitted get their values on the shared model only after the loss object exists
        late = {p: v for p, v in zip(M["params"], cfg["truth"]) if p not in cfg["target"]}
        m.parameters = {p: v * 1.4 for p, v in late.items()}
    t = np.array(cfg["times"])
    y = np.array(cfg["y"], dtype=float)
    if y.shape[1] == 1:
        y = y[:, 0]
    tgt = cfg["target"] or M["params"]
    theta0 = list(cfg["start"])
    kw = dict(state_name=list(cfg["obs"]), target_param=(list(cfg["target"]) if cfg["target"] else None))
    if cfg["weight"] is not None:
        kw["state_weight"] = list(cfg["weight"])
    L = cfg["loss"]
    cls = getattr(pygom, L)
    if L == "NormalLoss": kw["sigma"] = cfg["hyper"]
    if L == "GammaLoss": kw["shape"] = cfg["hyper"]
    if L == "NegBinomLoss": kw["k"] = cfg["hyper"]
    if late:
        obj = cls(theta0, m, list(cfg["x0"]), np.float64(t[0]), t[1:], y, **kw)
        m.parameters = late
        return obj
    if len(cfg["times"]) % 2:
        return cls(theta0, m, list(cfg["x0"]), np.float64(t[0]), t[1:], y, **kw)
    # the caller's own float array, reused for something else once the loss object exists: the fit is about the values given
    buf = np.array(cfg["x0"], dtype=float)
    obj = cls(theta0, m, buf, np.float64(t[0]), t[1:], y, **kw)
    buf[:] = buf[::-1] * 3.0 + 1.0
    return obj


TOL_COST = 1e-9        # slack on pygom's own cost: cost(result) <= cost(start) + TOL_COST*(1+|cost(start)|)
TOL_ORACLE = 1e-6      # slack on the independently computed cost (integrator differences enter)
TOL_TRUTH = 1e-4       # relative distance to the generating parameters
TOL_FD = 2e-3          # jac against central differences of fun, relative to the largest gradient entry
FD_STEP = 1e-3


class _Timeout(BaseException):
    pass


def run_fit(cfg, want_fd=False, limit=40):
    """run_fit_inner under a wall-clock limit (a fit on the unchanged tree takes 0.1-0.6 s); a timeout is counted, not judged"""
    import signal
    def onalarm(sig, frm):
        raise _Timeout()
    old = signal.signal(signal.SIGALRM, onalarm)
    signal.setitimer(signal.ITIMER_REAL, limit)
    try:
        return run_fit_inner(cfg, want_fd)
    except _Timeout:
        return dict(viol=[], call=[], fd=None, timeout=True)
    finally:
        signal.setitimer(signal.ITIMER_REAL, 0)
        signal.signal(signal.SIGALRM, old)


def run_fit_inner(cfg, want_fd=False):
    """one real fit, with scipy.optimize.minimize wrapped (pass-through) to see what fit hands to it.
    returns dict(viol=[(cls, what)], call=[str], fd=float|None, stats)"""
    import pygom.loss.base_loss as bl
    import pg
    out = dict(viol=[], call=[], fd=None, err=None)
    with pg.quiet():
        obj = build_loss(cfg)
    cont = [list, np.array, tuple][cfg["container"]]
    lb, ub, start = np.array(cfg["lb"]), np.array(cfg["ub"]), np.array(cfg["start"])
    rec = {}
    orig = bl.minimize
    def spy(*a, **kw):
        rec["a"], rec["kw"] = a, dict(kw)
        rec["x0"] = np.array(kw.get("x0"), dtype=float).copy() if "x0" in kw else None
        return orig(*a, **kw)
    bl.minimize = spy
    try:
        with pg.quiet():
            try:
                ubv = cont(cfg["ub"])
                if cfg.get("ub_int"):
                    ubv = np.array([int(u) for u in cfg["ub"]], dtype=int) if cfg["container"] == 1 else cont([int(u) for u in cfg["ub"]])
                xhat = obj.fit(cont(cfg["start"]), lb=cont(cfg["lb"]), ub=ubv)
            except Exception as e:
                cls = "fit-raised"
                if cfg["loss"] == "GammaLoss" and len(cfg["obs"]) == 1 and isinstance(e, ValueError) and "not aligned" in str(e):
                    cls = "gamma-single-state-raises"
                out["viol"].append((cls, "fit raised %s: %s on a start inside the box" % (type(e).__name__, str(e)[:120])))
                return out
    finally:
        bl.minimize = orig
    xhat = np.asarray(xhat, dtype=float).ravel()
    out["xhat"] = [float(v) for v in xhat]
    # ---- what was handed to the optimiser
    kw = rec.get("kw")
    if kw is None:
        out["call"].append("fit returned without calling scipy.optimize.minimize")
    else:
        if rec["a"]: out["call"].append("positional arguments passed to minimize")
        if kw.get("fun") != obj.cost: out["call"].append("fun is %r, not self.cost" % (kw.get("fun"),))
        if kw.get("jac") != obj.sensitivity: out["call"].append("jac is %r, not self.sensitivity" % (kw.get("jac"),))
        if kw.get("method") != "L-BFGS-B": out["call"].append("method is %r" % (kw.get("method"),))
        b = np.asarray(kw.get("bounds"), dtype=float)
        if b.shape != (len(lb), 2) or not (np.array_equal(b[:, 0], lb) and np.array_equal(b[:, 1], ub)):
            out["call"].append("bounds handed to minimize are %s, not the rows (lb_i, ub_i) of lb=%s ub=%s"
                               % (b.tolist(), cfg["lb"], cfg["ub"]))
        if rec["x0"] is None or not np.array_equal(rec["x0"].ravel(), start):
            out["call"].append("x0 handed to minimize is %s, not the start %s" % (rec["x0"], cfg["start"]))
        if kw.get("constraints") not in ([], (), None): out["call"].append("constraints passed without A")
    # ---- the property, directly
    if xhat.shape != start.shape:
        out["viol"].append(("result-shape", "fit returned shape %s for %d parameters" % (xhat.shape, len(start))))
        return out
    if not (np.all(xhat >= lb) and np.all(xhat <= ub)):
        out["viol"].append(("outside-box", "fit returned %s outside the box lb=%s ub=%s" % (xhat.tolist(), cfg["lb"], cfg["ub"])))
    with pg.quiet():
        c0, c1 = float(obj.cost(start)), float(obj.cost(xhat))
    if not math.isfinite(c0):
        out["nonfinite_start"] = True          # the start is outside the loss's domain: nothing to compare with
        return out
    out["c0"], out["c1"] = c0, c1
    if not (c1 <= c0 + TOL_COST * (1 + abs(c0))):
        out["viol"].append(("worse-than-start", "cost(fit) = %.17g exceeds cost(start) = %.17g" % (c1, c0)))
    i0, i1 = indep_cost(cfg, start), indep_cost(cfg, xhat)
    out["i0"], out["i1"] = i0, i1
    if math.isfinite(i0) and not (i1 <= i0 + TOL_ORACLE * (1 + abs(i0))):
        out["viol"].append(("worse-than-start-oracle", "the loss computed independently is %.12g at the fit and %.12g at the "
                            "start (pygom's cost: %.12g and %.12g)" % (i1, i0, c1, c0)))
    if cfg["kind"] == "truth":
        rel = float(np.max(np.abs(xhat - start) / np.abs(start)))
        out["rel"] = rel
        if not rel <= TOL_TRUTH:
            out["viol"].append(("truth-not-fixed", "noise-free data, started at the generating parameters %s, fit returned %s "
                                "(relative distance %.3g)" % (cfg["start"], xhat.tolist(), rel)))
    # ---- premise of the descent clause: jac is the gradient of fun (central differences on what was passed)
    if want_fd and kw is not None and callable(kw.get("fun")) and callable(kw.get("jac")):
        import zlib
        rng = np.random.default_rng(zlib.crc32(json.dumps(cfg["start"]).encode()))
        pt = lb + (ub - lb) * rng.uniform(0.2, 0.8, size=len(lb))
        with pg.quiet():
            g = np.asarray(kw["jac"](pt.copy()), dtype=float).ravel()
            fd = np.zeros(len(pt))
            for i in range(len(pt)):
                h = FD_STEP * abs(pt[i])
                e = np.zeros(len(pt)); e[i] = h
                F = lambda z: float(kw["fun"](pt + z * e))
                d1 = (8 * (F(1) - F(-1)) - (F(2) - F(-2))) / (12 * h)           # 4th-order central difference, step h
                d2 = (8 * (F(0.25) - F(-0.25)) - (F(0.5) - F(-0.5))) / (3 * h)  # ... and step h/4
                fd[i] = d2
                # the two estimates must agree far better than the tolerance used below, otherwise the finite difference
                # itself is not trustworthy here (stiff / oscillatory cost surfaces: FitzHugh at large c) and nothing is judged
                if not abs(d1 - d2) <= 0.05 * TOL_FD * max(abs(d2), 1e-12):
                    fd[i] = float("nan")
        if g.shape == fd.shape and np.any(np.isnan(fd)):
            out["fd_unsettled"] = True
        elif g.shape == fd.shape and np.all(np.isfinite(fd)):
            out["fd"] = float(np.max(np.abs(g - fd)) / max(np.max(np.abs(fd)), 1e-12))
            out["fd_detail"] = dict(point=pt.tolist(), jac=g.tolist(), fd=fd.tolist())
        else:
            out["fd"] = float("inf")
            out["fd_detail"] = dict(point=pt.tolist(), jac=g.tolist(), fd=fd.tolist())
    return out


def nontrivial_fit(cfg):
    return len(cfg["lb"]) >= 2


# =================================================================== driver
def run(ck):
    import gen_fit
    import pg
    ck.rule = ("K: random calls fit(x, lb, ub) with 1-8 integer parameters, list/ndarray/tuple containers, 16% absent bounds, "
               "25% wrong lengths, 30% full_output, run on the real BaseLoss.fit with scipy.optimize.minimize replaced by a "
               "recording stub; non-trivial = at least 2 parameters, both bounds given, minimize reached.  Search: catalogue "
               "models (SIR, SEIR, SIS, SIR_norm, Lotka_Volterra, FitzHugh) x loss classes (Square, Normal, Poisson, Gamma, "
               "NegBinom where the states stay positive) x all parameters / a declaration-ordered subset x observed states x "
               "random boxes lb=truth*U(.4,.9), ub=truth*U(1.1,2.2) x starts (the generating parameters on noise-free data, "
               "or uniform in the box with 16% of coordinates on a face); non-trivial = at least 2 fitted parameters; "
               "distinct by canonical JSON hash")
    ok = ck.coq_build("C18", [("FitGen", gen_fit.generate())], extra=("Util.vo", "Fit.vo", "FitProofs.vo"))
    common.name_assumptions(ck, "C18")
    if ok and not ck.quick:
        # independent re-check of the compiled obligations by the standalone checker
        cmd = "timeout 900 coqchk -silent -o -R . PV PV.Props.C18"
        ck.checker_cmds.append("cd /verif/coq && " + cmd)
        rc, out = common.sh(cmd, cwd=common.COQ, timeout=1000)
        ck.notes["coqchk"] = out[-600:]
        if rc != 0 or "Axioms: <none>" not in out:
            ck.broken.append(dict(theorem="coqchk PV.Props.C18", file="Props/C18.vo", error=out[-800:]))
    rng = np.random.default_rng(ck.seed)

    # ---- K: the call made by fit
    N = ck.budget(600, 6000)
    cases = list(CALL_CORPUS) + [gen_call_case(rng) for _ in range(N)]
    obs = []
    dist = {}
    for c in cases:
        o = observe_call(c)
        obs.append(o)
        ck.case(dict(k="call", **c), nontrivial=(not o["raised"] and len(c["x"]) >= 2 and c["lb"] is not None and c["ub"] is not None))
        key = "raised" if o["raised"] else ("call:n=%d" % len(c["x"]))
        dist[key] = dist.get(key, 0) + 1
    ck.notes["call_case_distribution"] = dist
    files, shard = [], 400
    for s in range(0, len(cases), shard):
        body = ";\n ".join(coq_call_case(c, o) for c, o in zip(cases[s:s + shard], obs[s:s + shard]))
        files.append(("c18_cases_%d" % (s // shard), COQ_HEAD + "Definition cases := [\n " + body +
                      "].\nEval vm_compute in failing (chk pack_facts call_facts) cases.\n"))
    outs = ck.coq_eval_many(files)
    disagree = []
    for s in range(0, len(cases), shard):
        disagree += [s + i for i in common.parse_int_list(outs["c18_cases_%d" % (s // shard)][0])]
    ck.notes["correspondence_cases"] = len(cases)
    ck.notes["correspondence_disagreements"] = len(disagree)
    if disagree:
        c = cases[disagree[0]]
        ck.broken.append(dict(theorem="correspondence Fit.fit_call vs BaseLoss.fit (recorded minimize call)", file="c18_cases",
                              error="model and implementation differ on %s : observed %s" % (json.dumps(c), json.dumps(obs[disagree[0]]))))
    # the good packing, stated directly on what fit hands to minimize (independent of the Coq model)
    for c, o in zip(cases, obs):
        if o["raised"] or c["lb"] is None or c["ub"] is None:
            continue
        if o["bounds"] != [[l, u] for l, u in zip(c["lb"], c["ub"])]:
            ck.violation("bounds-mispacked", "fit(x=%s, lb=%s, ub=%s) hands bounds=%s to minimize instead of the rows (lb_i, ub_i)"
                         % (c["x"], c["lb"], c["ub"], o["bounds"]), dict(type="call", case=c))
            break

    # ---- search: the property on real fits
    nfit = ck.budget(220, 1500)
    deadline = time.time() + ck.budget(120, 700)
    models = QUICK_MODELS
    cfgs = fit_corpus()
    for i in range(nfit):
        cfgs.append(gen_fit_case(rng, models, "truth" if i % 3 == 0 else "random"))
    stats = dict(fits=0, timeouts=0, nonfinite_start=0, truth=0, moved=0, on_face=0, max_rel_truth=0.0, max_fd=0.0, fd_checks=0, by_model={}, by_loss={},
                 max_cost_excess=-float("inf"), max_oracle_excess=-float("inf"))
    call_bad = fd_bad = None
    for i, cfg in enumerate(cfgs):
        if time.time() > deadline:
            break
        r = run_fit(cfg, want_fd=(i % 4 == 1 or i < 9))
        stats["fits"] += 1
        stats["timeouts"] += int(bool(r.get("timeout")))
        stats["nonfinite_start"] += int(bool(r.get("nonfinite_start")))
        stats["by_model"][cfg["model"]] = stats["by_model"].get(cfg["model"], 0) + 1
        stats["by_loss"][cfg["loss"]] = stats["by_loss"].get(cfg["loss"], 0) + 1
        ck.case(dict(k="fit", **cfg), nontrivial=nontrivial_fit(cfg))
        if "xhat" in r:
            xh = np.array(r["xhat"])
            if xh.shape == np.array(cfg["start"]).shape:
                stats["moved"] += int(np.any(xh != np.array(cfg["start"])))
                stats["on_face"] += int(np.any(xh == np.array(cfg["lb"])) or np.any(xh == np.array(cfg["ub"])))
        if "rel" in r:
            stats["truth"] += 1
            stats["max_rel_truth"] = max(stats["max_rel_truth"], r["rel"])
        if "c0" in r:
            stats["max_cost_excess"] = max(stats["max_cost_excess"], (r["c1"] - r["c0"]) / (1 + abs(r["c0"])))
        if "i0" in r and math.isfinite(r["i0"]) and math.isfinite(r["i1"]):
            stats["max_oracle_excess"] = max(stats["max_oracle_excess"], (r["i1"] - r["i0"]) / (1 + abs(r["i0"])))
        if r.get("fd_unsettled"):
            stats["fd_unsettled_excluded"] = stats.get("fd_unsettled_excluded", 0) + 1
        if r["fd"] is not None:
            stats["fd_checks"] += 1
            stats["max_fd"] = max(stats["max_fd"], r["fd"])
            if not r["fd"] <= TOL_FD and fd_bad is None:
                fd_bad = (cfg, r)
        if r["call"] and call_bad is None:
            call_bad = (cfg, r)
        for cls, what in r["viol"]:
            ck.violation(cls, "%s / %s, observed %s, fitted %s: %s" % (cfg["model"], cfg["loss"], cfg["obs"],
                                                                    cfg["target"] or "all parameters", what),
                         dict(type="fit", cfg=cfg))
    ck.notes["fit_search"] = stats
    ck.notes["tolerances"] = dict(
        inside_box="exact (lb <= result <= ub elementwise, equality allowed)",
        cost="cost(result) <= cost(start) + 1e-9*(1+|cost(start)|): same deterministic function the optimiser saw; observed excess <= 0",
        oracle_cost="independently computed loss (own RHS, DOP853 rtol 1e-11): slack 1e-6*(1+|loss(start)|); pygom integrates with "
                    "lsoda at rtol=atol=1e-10, observed excess <= 1e-9 on the unchanged tree",
        truth="max_i |result_i - truth_i|/|truth_i| <= 1e-4; observed <= ~1e-7",
        fd="max|jac - central difference of fun| / max|central difference| <= 2e-3 at a random interior point (4th-order stencil, step 1e-3*|theta_i|); "
           "observed <= 1.1e-5 over 383 thorough checks (FitzHugh, integrator error), a wrong sign/index changes it by O(1)")
    if call_bad:
        ck.broken.append(dict(theorem="correspondence: the call fit makes on a real loss object", file="harness/c18.py",
                              error="; ".join(call_bad[1]["call"]) + " on " + json.dumps(call_bad[0])[:600]))
    if fd_bad:
        ck.broken.append(dict(theorem="contract premise of C18_fit_partial: jac passed to minimize is the gradient of fun",
                              file="harness/c18.py",
                              error="relative difference %.3g between jac and central differences of fun: %s on %s"
                                    % (fd_bad[1]["fd"], json.dumps(fd_bad[1]["fd_detail"]), json.dumps(fd_bad[0])[:600])))
    ck.assumptions += [
        "CONTRACT (trusted, Section hypotheses of C18_fit_partial): scipy.optimize.minimize(method='L-BFGS-B') returns a point "
        "feasible for the bounds it was given whenever x0 is; its objective value does not exceed fun(x0) when jac is the gradient "
        "of fun; it returns x0 when the gradient vanishes there.  Validated on every run by the end-to-end search, not proved.",
        "is_grad cost sensitivity (C07) is a hypothesis of the theorem; checked at run time by central differences on the "
        "callables fit actually passed",
        "numpy reshape(order='F') of a flat vector v to (r, c): entry (i, j) = v[i + j*r]; np.append of two 1-D arrays is "
        "concatenation — validated by K on integer arrays",
        "noise-free data are produced by an independent integration (hand-written RHS, DOP853) of the catalogue model; the "
        "SLSQP branch (A given) is outside the property and is not exercised",
    ]


def replay(ck, data):
    inp = data["input"]
    if inp is None:
        return None
    if inp.get("type") == "call":
        c = inp["case"]
        o = observe_call(c)
        if not o["raised"] and o["bounds"] != [[l, u] for l, u in zip(c["lb"], c["ub"])]:
            return "fit hands bounds=%s to minimize for lb=%s ub=%s" % (o["bounds"], c["lb"], c["ub"])
        return None
    r = run_fit(inp["cfg"])
    if r["viol"]:
        return "; ".join("[%s] %s" % v for v in r["viol"])
    return None
