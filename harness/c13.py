"""C13 — sensitivity systems are the variational equations of the model.

K      : the evaluators jacobian/grad/diff_jacobian/grad_jacobian/ode of a live model are replaced by stubs
         returning random INTEGER arrays; the real ode_and_sensitivity / ode_and_sensitivityIV and their
         *_jacobian counterparts (both by_state values) run on random integer z; the Coq model (Sens.v at Z,
         instantiated with the facts the translator read from the source) computes the same; exact comparison.
search : real models with asymmetric non-linear rates (one-state models included)
         (r) right-hand sides against an oracle built directly from the rate strings with sympy (explicit loops
             over the documented layout, no reshapes),
         (a) the supplied Jacobians against central differences of the real right-hand sides,
         (b) integrated sensitivity columns against finite differences of independently computed solutions.
"""
import json, os, sys, time
from fractions import Fraction
import numpy as np
import common
sys.path.insert(0, os.path.join(common.VERIF, "gen"))

JAC_RTOL = 1e-6      # |J_code - J_numeric| <= JAC_RTOL * (1 + max|J|); observed <= 5e-10 on the unchanged tree
RHS_RTOL = 1e-10     # rhs against the sympy oracle (both are float evaluations of the same polynomials); observed <= 1e-15
INT_RTOL = 1e-4      # integrated sensitivities against finite differences (DESIGN.md C13); observed <= 3e-7


# ====================================================================== K: integer stubs
def stub_model(nS, nP):
    import pg
    st = ["x%d" % i for i in range(nS)]
    pa = ["p%d" % k for k in range(nP)]
    odes = [pg.Transition(origin=s, equation="-" + s, transition_type=pg.TransitionType.ODE) for s in st]
    return pg.model(state=st, param=pa, ode=odes)


def k_inputs(rng, nS, nP):
    iv = lambda *sh: rng.integers(-3, 4, size=sh)
    return dict(nS=nS, nP=nP, t=float(rng.integers(0, 9)) / 4,
                f=iv(nS).tolist(), J=iv(nS, nS).tolist(), G=iv(nS, nP).tolist(),
                DJ=iv(nS * nS, nS).tolist(), GJ=iv(nS * nP, nS).tolist(),
                z=rng.integers(-4, 5, size=nS + nS * nP).tolist(),
                zIV=rng.integers(-4, 5, size=nS + nS * nP + nS * nS).tolist())


def as_ints(a):
    a = np.asarray(a, dtype=float)
    r = np.rint(a)
    if not np.array_equal(a, r):
        raise ValueError("non-integer output from integer inputs")
    return r.astype(np.int64)


def k_run(c):
    """run the real methods with stubbed evaluators; returns dict part -> observed value or ('raised', text)"""
    nS, nP, t = c["nS"], c["nP"], c["t"]
    m = stub_model(nS, nP)
    bad_args = []
    cur = {}

    def stub(name, arr, shape):
        A = np.array(arr, dtype=np.int64).reshape(shape)

        def fn(state, tt):
            if not (np.array_equal(np.asarray(state), cur["z"][:nS]) and tt == t):
                bad_args.append(name)
            return A.copy()
        return fn
    m.ode = stub("ode", c["f"], (nS,))
    m.jacobian = stub("jacobian", c["J"], (nS, nS))
    m.grad = stub("grad", c["G"], (nS, nP))
    m.diff_jacobian = stub("diff_jacobian", c["DJ"], (nS * nS, nS))
    m.grad_jacobian = stub("grad_jacobian", c["GJ"], (nS * nP, nS))
    out = {}

    def call(part, fn, z, *a, **kw):
        cur["z"] = np.array(z, dtype=np.int64)
        try:
            out[part] = as_ints(fn(np.array(z, dtype=np.int64), t, *a, **kw))
        except Exception as e:      # noqa: B902
            out[part] = ("raised", "%s: %s" % (type(e).__name__, e))
    if nP > 0:
        call("rhs", m.ode_and_sensitivity, c["z"])
        call("rhs_bs", m.ode_and_sensitivity, c["z"], by_state=True)
        call("jac", m.ode_and_sensitivity_jacobian, c["z"])
        call("jac_bs", m.ode_and_sensitivity_jacobian, c["z"], by_state=True)
    call("rhs_iv", m.ode_and_sensitivityIV, c["zIV"])
    call("jac_iv", m.ode_and_sensitivityIV_jacobian, c["zIV"])
    out["bad_args"] = bad_args
    return out


def zl(xs):
    return "[" + "; ".join(str(int(x)) if int(x) >= 0 else "(%d)" % int(x) for x in xs) + "]"


def flat(rows):
    return zl([v for r in rows for v in r])


def sparse(M):
    fl = np.asarray(M).ravel()
    return zl([w for k in np.nonzero(fl)[0] for w in (k, fl[k])])


def shape(M):
    return "%d %d" % tuple(np.asarray(M).shape)


def coq_case(c, o):
    """literal of SensCases.kcase: flat integer lists only (fast to elaborate)"""
    def vec(p):
        return zl(o[p]) if p in o and not isinstance(o[p], tuple) else "[]"

    def mat(p):
        return (shape(o[p]), sparse(o[p])) if p in o and not isinstance(o[p], tuple) else ("0 0", "[]")
    js, je = mat("jac")
    if "jac_bs" in o and not isinstance(o["jac_bs"], tuple):
        jb = "(Some %s)" % sparse(o["jac_bs"])
    else:
        jb = "None"
    ivs, ive = mat("jac_iv")
    return ("KC %d %d %s %s %s %s %s %s %s %s %s %s %s %s %s %s %s"
            % (c["nS"], c["nP"], zl(c["f"]), flat(c["J"]), flat(c["G"]), flat(c["DJ"]), flat(c["GJ"]), zl(c["z"]), zl(c["zIV"]),
               vec("rhs"), vec("rhs_bs"), vec("rhs_iv"), js, je, jb, ivs, ive))


COQ_HEAD = """From Coq Require Import List ZArith Bool.
From PV Require Import Util Shapes Sens SensCases Gen.SensGen.
Import ListNotations. Open Scope Z_scope.
"""
PARTS = {1: "ode_and_sensitivity", 2: "ode_and_sensitivity(by_state=True)", 3: "ode_and_sensitivityIV",
         4: "ode_and_sensitivity_jacobian", 5: "ode_and_sensitivity_jacobian(by_state=True)",
         6: "ode_and_sensitivityIV_jacobian"}
PART_KEY = {"rhs": 1, "rhs_bs": 2, "rhs_iv": 3, "jac": 4, "jac_bs": 5, "jac_iv": 6}


def run_K(ck):
    rng = np.random.default_rng([ck.seed, 13])
    shapes = [(s, p) for s in range(1, 6) for p in range(0, 6)]          # every shape once, nP = 0 included
    extra = ck.budget(170, 1970)
    shapes += [(int(rng.integers(1, 6)), int(rng.integers(0, 6))) for _ in range(extra)]
    cases, outs, dist = [], [], {}
    disagree = []
    for (s, p) in shapes:
        c = k_inputs(rng, s, p)
        o = k_run(c)
        cases.append(c); outs.append(o)
        ck.case(dict(kind="K", **c), nontrivial=(s >= 2 and p >= 2 and s != p))
        dist["%dx%d" % (s, p)] = dist.get("%dx%d" % (s, p), 0) + 1
        if o["bad_args"]:
            disagree.append((len(cases) - 1, "evaluators called with another (state, t) than (z[:nS], t): %s" % sorted(set(o["bad_args"]))))
        for part, v in o.items():
            if isinstance(v, tuple) and part != "jac_bs":
                disagree.append((len(cases) - 1, "%s raised %s" % (PARTS[PART_KEY[part]], v[1])))
            if isinstance(v, tuple) and part == "jac_bs" and not v[1].startswith("IndexError"):
                disagree.append((len(cases) - 1, "%s raised %s" % (PARTS[5], v[1])))
    ck.notes["K_shape_distribution"] = dist
    files, shard = [], max(5, -(-len(cases) // 16))
    for s0 in range(0, len(cases), shard):
        body = ";\n ".join(coq_case(c, o) for c, o in zip(cases[s0:s0 + shard], outs[s0:s0 + shard]))
        files.append(("c13_cases_%d" % (s0 // shard),
                      COQ_HEAD + "Definition cases : list kcase := [\n " + body +
                      "].\nEval vm_compute in failing_parts code_facts arrange perm_cols relayout cases.\n"))
    t0 = time.time()
    res = ck.coq_eval_many(files)
    ck.notes["K_coq_wall_s"] = round(time.time() - t0, 1)
    for s0 in range(0, len(cases), shard):
        for code in common.parse_int_list(res["c13_cases_%d" % (s0 // shard)][0]):
            i, part = s0 + code // 10, code % 10
            o = outs[i]
            key = [k for k, v in PART_KEY.items() if v == part][0]
            if isinstance(o.get(key), tuple) and key != "jac_bs":
                continue        # already reported as "raised"
            disagree.append((i, "model and implementation differ on %s" % PARTS[part]))
    ck.notes["correspondence_cases"] = len(cases)
    ck.notes["correspondence_disagreements"] = len(disagree)
    if disagree:
        i, what = disagree[0]
        ck.broken.append(dict(theorem="correspondence Sens model vs DeterministicOde (%s)" % what, file="c13_cases",
                              error="%d disagreement(s); first on case %s" % (len(disagree), json.dumps(cases[i]))))
    return cases, outs


# ====================================================================== search: real models
def gen_spec(rng, nS, nP):
    """a model with asymmetric rational rates; every parameter and every state enters non-linearly somewhere"""
    def c():
        return "%s%d/%d" % ("-" if rng.random() < 0.4 else "", int(rng.integers(1, 6)), int(rng.choice([2, 3, 5, 7])))
    eqs = []
    for i in range(nS):
        terms = []
        ks = [k for k in range(nP) if k % nS == i]
        if nP:
            ks.append(int(rng.integers(0, nP)))
        for k in ks:
            a, b = (i + k + 1) % nS, int(rng.integers(0, nS))
            terms.append("%s*p%d*x%d*x%d/(1+x%d**2)" % (c(), k, a, b, b))
        if nP:
            k, l = int(rng.integers(0, nP)), int(rng.integers(0, nP))
            terms.append("%s*p%d*p%d*x%d" % (c(), k, l, int(rng.integers(0, nS))))
            terms.append("%s*p%d*x%d" % (c(), int(rng.integers(0, nP)), (i + 1) % nS))
        else:
            a, b = (i + 1) % nS, int(rng.integers(0, nS))
            terms.append("%s*x%d*x%d/(1+x%d**2)" % (c(), a, b, b))
        terms.append("-x%d**2/%d" % (i, 3 + i))
        eqs.append("+".join(terms).replace("+-", "-"))
    return dict(nS=nS, nP=nP, eqs=eqs,
                theta=[round(float(v), 3) for v in rng.uniform(0.2, 0.9, nP)],
                x0=[round(float(v), 3) for v in rng.uniform(0.5, 1.5, nS)])


def build(spec):
    import pg
    st = ["x%d" % i for i in range(spec["nS"])]
    pa = ["p%d" % k for k in range(spec["nP"])]
    odes = [pg.Transition(origin=s, equation=e, transition_type=pg.TransitionType.ODE) for s, e in zip(st, spec["eqs"])]
    m = pg.model(lambda_backend=(spec.get("backend", "lambda") != "cython"), state=st, param=pa, ode=odes)
    if pa:
        m.parameters = [(p, v) for p, v in zip(pa, spec["theta"])]
    return m


_ORACLE = {}


def oracle(spec):
    """f, J = df/dx, G = df/dtheta straight from the rate strings (sympy), as functions of (x, theta)"""
    key = json.dumps(spec["eqs"])
    if key not in _ORACLE:
        import sympy
        xs = sympy.symbols("x0:%d" % spec["nS"])
        ps = sympy.symbols("p0:%d" % spec["nP"]) if spec["nP"] else ()
        loc = {str(s): s for s in list(xs) + list(ps)}
        f = sympy.Matrix([sympy.sympify(e, locals=loc) for e in spec["eqs"]])
        J = f.jacobian(list(xs))
        G = f.jacobian(list(ps)) if ps else sympy.zeros(spec["nS"], 0)
        lam = lambda M: sympy.lambdify([list(xs), list(ps)], M, "numpy")
        _ORACLE[key] = (lam(f), lam(J), lam(G))
    return _ORACLE[key]


def spec_rhs(spec, z, theta, layout):
    """variational right-hand side by explicit loops in the documented layout"""
    nS, nP = spec["nS"], spec["nP"]
    lf, lJ, lG = oracle(spec)
    x = np.asarray(z[:nS], dtype=float)
    f = np.asarray(lf(x, theta), dtype=float).reshape(nS)
    J = np.asarray(lJ(x, theta), dtype=float).reshape(nS, nS)
    G = np.asarray(lG(x, theta), dtype=float).reshape(nS, nP)
    out = np.zeros(len(z))
    out[:nS] = f
    for i in range(nS):
        for j in range(nP):
            pos = (lambda l, jj: nS + jj * nS + l) if layout != "state" else (lambda l, jj: nS + l * nP + jj)
            out[pos(i, j)] = sum(J[i, l] * z[pos(l, j)] for l in range(nS)) + G[i, j]
    if layout == "iv":
        base = nS + nS * nP
        for i in range(nS):
            for j in range(nS):
                out[base + j * nS + i] = sum(J[i, l] * z[base + j * nS + l] for l in range(nS))
    return out


def num_jac(fn, z, h=1e-6):
    z = np.asarray(z, dtype=float)
    n = len(z)
    cols = []
    for k in range(n):
        e = np.zeros(n); e[k] = h
        cols.append((np.asarray(fn(z + e), dtype=float) - np.asarray(fn(z - e), dtype=float)) / (2 * h))
    return np.array(cols).T


CALLS = {   # name -> (layout, rhs caller, jacobian caller, violation class of the jacobian)
    "default": ("param", lambda m, z, t: m.ode_and_sensitivity(z, t), lambda m, z, t: m.ode_and_sensitivity_jacobian(z, t)),
    "by_state": ("state", lambda m, z, t: m.ode_and_sensitivity(z, t, by_state=True),
                 lambda m, z, t: m.ode_and_sensitivity_jacobian(z, t, by_state=True)),
    "iv": ("iv", lambda m, z, t: m.ode_and_sensitivityIV(z, t), lambda m, z, t: m.ode_and_sensitivityIV_jacobian(z, t)),
}
CLS = {"default": "default", "by_state": "bystate", "iv": "iv"}


def point_check(spec, z, call, m=None, ztype=None):
    """(cls, what, err) or None for one call at one point; the property stated directly on the implementation.
    ztype: how the (integer-valued) point is handed over — 'intlist' (Python ints), 'intarray' (int64 ndarray), 'float32'"""
    m = m or build(spec)
    layout, rhs, jac = CALLS[call]
    z = np.asarray(z, dtype=float)
    theta = np.asarray(spec["theta"], dtype=float)
    z_call = {None: lambda: z, "intlist": lambda: [int(v) for v in z], "intarray": lambda: np.array(z, dtype=np.int64),
              "tuple": lambda: tuple(float(v) for v in z)}[ztype]()
    try:
        r = np.asarray(rhs(m, z_call, 0.0), dtype=float)
    except Exception as e:      # noqa: B902
        return ("rhs-" + CLS[call], "%s right-hand side raised %s: %s on a valid %d-state %d-parameter model"
                % (call, type(e).__name__, e, spec["nS"], spec["nP"]), None)
    want = spec_rhs(spec, z, theta, layout)
    if r.shape != want.shape or not np.all(np.abs(r - want) <= RHS_RTOL * (1 + np.abs(want).max())):
        err = float(np.abs(r - want).max()) if r.shape == want.shape else None
        return ("rhs-" + CLS[call], "%s right-hand side differs from f / J*S+G / J*S0 in the documented layout (max error %s)"
                % (call, err), err)
    if call in ("default", "by_state") and spec["nP"]:
        # the stand-alone sensitivity(sens, t, state): the sensitivities as the flat vector of the arrangement or in the documented
        # (states x parameters) matrix form, the same J*S + G either way
        nS_, nP_ = spec["nS"], spec["nP"]
        bs = call == "by_state"
        sflat = z[nS_:]
        smat = sflat.reshape(nS_, nP_) if bs else sflat.reshape(nS_, nP_, order="F")
        for form, arg in (("flat vector", sflat.copy()), ("matrix", smat.copy())):
            try:
                got = np.asarray(m.sensitivity(arg, 0.0, z[:nS_], by_state=True) if bs else m.sensitivity(arg, 0.0, z[:nS_]), dtype=float).ravel()
            except Exception as e:      # noqa: B902
                return ("rhs-" + CLS[call], "sensitivity(sens as %s%s) raised %s: %s" % (form, ", by_state=True" if bs else "", type(e).__name__, e), None)
            if got.shape != want[nS_:].shape or not np.all(np.abs(got - want[nS_:]) <= RHS_RTOL * (1 + np.abs(want).max())):
                return ("rhs-" + CLS[call], "sensitivity(sens as %s%s) differs from J*S+G in the documented layout (S[i, j] = dx_i/dtheta_j): %s vs %s"
                        % (form, ", by_state=True" if bs else "", got.tolist()[:6], want[nS_:].tolist()[:6]), None)
    try:
        Jc = np.asarray(jac(m, z, 0.0), dtype=float)
    except Exception as e:      # noqa: B902
        return ("jacobian-" + CLS[call], "%s Jacobian raised %s: %s on a valid %d-state %d-parameter model"
                % (call, type(e).__name__, e, spec["nS"], spec["nP"]), None)
    Jn = num_jac(lambda y: rhs(m, y, 0.0), z)
    if Jc.shape != Jn.shape:
        return ("jacobian-" + CLS[call], "%s Jacobian has shape %s, the system has %d components" % (call, Jc.shape, len(z)), None)
    err = float(np.abs(Jc - Jn).max())
    if err > JAC_RTOL * (1 + np.abs(Jn).max()):
        return ("jacobian-" + CLS[call], "%s Jacobian is not the derivative of the %s right-hand side: max |supplied - central difference| = %.3g "
                "(%d states, %d parameters)" % (call, call, err, spec["nS"], spec["nP"]), err)
    return (None, None, err)


def ref_solution(spec, theta, x0, ts):
    from scipy.integrate import solve_ivp
    lf = oracle(spec)[0]
    nS = spec["nS"]
    sol = solve_ivp(lambda t, x: np.asarray(lf(x, theta), dtype=float).reshape(nS), (0.0, ts[-1]), x0, method="DOP853",
                    t_eval=ts, rtol=1e-12, atol=1e-14)
    if not sol.success:
        raise common.InternalError("reference integration failed: " + sol.message)
    return sol.y.T            # len(ts) x nS


MAX_RHS_EVALS = 20000
DRIVER_RTOL = 1e-5          # C02's contract for the scipy.integrate.ode path is 3e-6*(1 + |ref|)
DRIVER = dict(runs=0, refused=0, max_dev=0.0)
NFEV = [0]


class _TooManyEvals(Exception):
    pass


def integ_check(spec, mode, m=None):
    """integrated sensitivities of the real augmented system vs central finite differences of reference solutions"""
    from scipy.integrate import solve_ivp
    m = m or build(spec)
    nS, nP = spec["nS"], spec["nP"]
    theta, x0 = np.array(spec["theta"], dtype=float), np.array(spec["x0"], dtype=float)
    ts = np.array([0.5, 1.0])
    h = 1e-4
    dth = np.zeros((len(ts), nS, nP))
    for k in range(nP):
        e = np.zeros(nP); e[k] = h
        dth[:, :, k] = (ref_solution(spec, theta + e, x0, ts) - ref_solution(spec, theta - e, x0, ts)) / (2 * h)
    if mode == "iv":
        dx0 = np.zeros((len(ts), nS, nS))
        for k in range(nS):
            e = np.zeros(nS); e[k] = h
            dx0[:, :, k] = (ref_solution(spec, theta, x0 + e, ts) - ref_solution(spec, theta, x0 - e, ts)) / (2 * h)
        z0 = np.concatenate([x0, np.zeros(nS * nP), np.eye(nS).ravel(order="F")])
        fn = lambda t, z: m.ode_and_sensitivityIV(z, t)
    else:
        z0 = np.concatenate([x0, np.zeros(nS * nP)])
        fn = (lambda t, z: m.ode_and_sensitivity(z, t, by_state=True)) if mode == "by_state" else (lambda t, z: m.ode_and_sensitivity(z, t))
    raw_fn, count = fn, [0]

    def fn(t, z):
        # a right-hand side that is not a function of (t, z) -- one that depends on the calls made before -- makes the
        # step-size control reject for ever; the unchanged code needs a few thousand evaluations here
        count[0] += 1
        if count[0] > MAX_RHS_EVALS:
            raise _TooManyEvals()
        return raw_fn(t, z)
    try:
        sol = solve_ivp(fn, (0.0, ts[-1]), z0, method="DOP853", t_eval=ts, rtol=1e-11, atol=1e-13)
    except _TooManyEvals:
        z1 = np.array(z0) + 0.01
        a, _, b = raw_fn(0.3, z1), raw_fn(0.4, z1 * 1.5), raw_fn(0.3, z1)
        return ("integrated-" + CLS[mode], "integrating the %s system over [0, 1] (DOP853, rtol 1e-11) had not finished after %d "
                "evaluations of the right-hand side; two evaluations at one and the same point differ by %.3g"
                % (mode, MAX_RHS_EVALS, float(np.abs(np.asarray(a) - np.asarray(b)).max())), None)
    except Exception as e:      # noqa: B902
        return ("integrated-" + CLS[mode], "integrating the %s system raised %s: %s" % (mode, type(e).__name__, e), None)
    NFEV[0] = max(NFEV[0], count[0])
    if not sol.success:
        raise common.InternalError("integration of the augmented system failed: " + sol.message)
    Z = sol.y.T
    worst = 0.0
    xr = ref_solution(spec, theta, x0, ts)
    scale = 1 + max(np.abs(dth).max() if nP else 0.0, 1.0)
    for a in range(len(ts)):
        worst = max(worst, float(np.abs(Z[a, :nS] - xr[a]).max()))
        for i in range(nS):
            for j in range(nP):
                pos = nS + (i * nP + j if mode == "by_state" else j * nS + i)
                worst = max(worst, abs(Z[a, pos] - dth[a, i, j]))
            if mode == "iv":
                for j in range(nS):
                    worst = max(worst, abs(Z[a, nS + nS * nP + j * nS + i] - dx0[a, i, j]))
    if mode == "iv":
        scale = max(scale, 1 + np.abs(dx0).max())
    if worst <= INT_RTOL * scale:
        # the same system through pygom's own driver (ode_utils.integrateFuncJac, the one pygom.loss uses), the arrangement
        # handed over through args, one integrator for the whole grid and one per output time (full_output)
        from pygom.model import ode_utils
        for fo in (False, True):
            try:
                if mode == "iv":
                    r = ode_utils.integrateFuncJac(m.ode_and_sensitivityIV_T, m.ode_and_sensitivityIV_jacobian_T, z0, 0.0, ts, full_output=fo)
                else:
                    r = ode_utils.integrateFuncJac(m.ode_and_sensitivity_T, m.ode_and_sensitivity_jacobian_T, z0, 0.0, ts,
                                                   args=(mode == "by_state",), full_output=fo)
            except Exception as e:      # noqa: B902   (IntegrationError: an explicit refusal)
                DRIVER["refused"] += 1
                continue
            Y = np.asarray(r[0] if fo else r, dtype=float)
            DRIVER["runs"] += 1
            dev = float(np.abs(Y - Z).max()) if Y.shape == Z.shape else float("inf")
            DRIVER["max_dev"] = max(DRIVER["max_dev"], dev / scale)
            if dev > DRIVER_RTOL * scale:
                return ("integrated-" + CLS[mode], "the %s system integrated by ode_utils.integrateFuncJac(..., args=%s, full_output=%s) "
                        "differs from the solution of that system by %.3g (scale %.3g; %d states, %d parameters)"
                        % (mode, "()" if mode == "iv" else (mode == "by_state",), fo, dev, scale, nS, nP), dev)
    if worst > INT_RTOL * scale:
        return ("integrated-" + CLS[mode], "integrated %s sensitivities differ from finite differences of reference solutions "
                "by %.3g (scale %.3g; %d states, %d parameters)" % (mode, worst, scale, nS, nP), worst)
    return (None, None, worst)


# past failing inputs, always run first: by_state Jacobian of a 3-state 2-parameter model (wrong on 76dc926..cd39b4d),
# 3 states 1 parameter (IndexError there), one-state models (np.bmat crash before cd39b4d)
CORPUS = [
    dict(nS=3, nP=2, eqs=["1/2*p0*x1*x2/(1+x2**2)-2/3*p1*p0*x0-x0**2/3", "3/5*p1*x0*x0/(1+x0**2)+1/7*p0*x2-x1**2/4",
                          "-2/5*p0*x1*x0/(1+x0**2)+1/3*p1*p1*x1-x2**2/5"], theta=[0.4, 0.7], x0=[1.1, 0.8, 1.3]),
    dict(nS=3, nP=1, eqs=["1/2*p0*x1*x2/(1+x2**2)-x0**2/3", "3/5*p0*p0*x0-x1**2/4", "-2/5*p0*x1*x0/(1+x0**2)-x2**2/5"],
         theta=[0.6], x0=[1.1, 0.8, 1.3]),
    dict(nS=1, nP=2, eqs=["2/3*p0*x0*x0/(1+x0**2)-1/2*p1*p0*x0-x0**2/3"], theta=[0.4, 0.7], x0=[0.9]),
    dict(nS=1, nP=1, eqs=["2/3*p0*x0*x0/(1+x0**2)-x0**2/3"], theta=[0.5], x0=[0.9]),
    # every parameter is a plain additive source term (the parameter gradient is a constant matrix)
    dict(nS=2, nP=2, eqs=["p0-x0*x1", "p1+x0*x1-x1"], theta=[0.5, 0.3], x0=[0.9, 0.5]),
    # a declared parameter that occurs in no equation (a reporting rate, say), not last in the list: its column of G is zero and
    # the columns of the others stay where they are
    dict(nS=2, nP=3, eqs=["1/2*p0*x1*x0/(1+x0**2)-x0**2/3", "3/5*p2*x0*x0/(1+x0**2)+1/7*p2*p0*x1-x1**2/4"],
         theta=[0.4, 0.7, 0.5], x0=[1.1, 0.8]),
    dict(nS=2, nP=2, eqs=["1/2*p1*x1*x0/(1+x0**2)-x0**2/3", "3/5*p1*x0*x0/(1+x0**2)-x1**2/4"], theta=[0.4, 0.7], x0=[1.1, 0.8]),
]
SEARCH_SHAPES_QUICK = [(1, 2), (2, 1), (2, 3), (3, 2), (3, 1), (2, 2), (2, 0), (1, 3), (4, 2), (1, 0)]
SEARCH_SHAPES_MORE = [(1, 1), (3, 3), (2, 4), (3, 4), (4, 3), (3, 0), (4, 1), (1, 4), (5, 2), (2, 5), (5, 3), (3, 5)]


def sequence_check(spec, m, rng, calls):
    """several calls on one model: (a) results handed out earlier must not change when the functions are called again (no
    shared output buffer), also after the caller edits a returned array; (b) after the parameter values change, the same
    point must give the right-hand side / Jacobian of the NEW parameters (no cache keyed on the state alone)"""
    nS, nP = spec["nS"], spec["nP"]
    out = []
    for call in calls:
        layout, rhs, jac = CALLS[call]
        n = nS + nS * nP + (nS * nS if call == "iv" else 0)
        z1 = np.round(np.concatenate([rng.uniform(0.5, 1.5, nS), rng.uniform(-1.0, 1.0, n - nS)]), 4)
        z2 = np.round(np.concatenate([rng.uniform(0.5, 1.5, nS), rng.uniform(-1.0, 1.0, n - nS)]), 4)
        try:
            J1 = jac(m, z1, 0.0); r1 = rhs(m, z1, 0.0)
            J1c, r1c = np.array(J1, dtype=float, copy=True), np.array(r1, dtype=float, copy=True)
            J2 = jac(m, z2, 0.0); r2 = rhs(m, z2, 0.0)
            if not (np.array_equal(np.asarray(J1, dtype=float), J1c) and np.array_equal(np.asarray(r1, dtype=float), r1c)):
                out.append(("aliased-output-" + CLS[call], "%s: the array returned for one point changed when the function was "
                            "called at another point (outputs share a buffer)" % call, dict(kind="sequence", call=call, spec=spec,
                                                                                             z=z1.tolist(), z2=z2.tolist())))
                continue
            try:
                np.asarray(J2)[...] = np.asarray(J2) + 1.0          # the caller owns what it was given
            except Exception:       # noqa: B902
                pass
            J1b = np.asarray(jac(m, z1, 0.0), dtype=float)
            if J1b.shape != J1c.shape or not np.allclose(J1b, J1c, rtol=0, atol=1e-12):
                out.append(("aliased-output-" + CLS[call], "%s: editing a returned Jacobian changed what a later call returns "
                            "(max difference %.3g)" % (call, float(np.abs(J1b - J1c).max()) if J1b.shape == J1c.shape else -1),
                            dict(kind="sequence", call=call, spec=spec, z=z1.tolist(), z2=z2.tolist())))
                continue
        except Exception as e:      # noqa: B902
            out.append(("sequence-raises-" + CLS[call], "%s raised %s: %s in a two-call sequence" % (call, type(e).__name__, e),
                        dict(kind="sequence", call=call, spec=spec, z=z1.tolist(), z2=z2.tolist())))
            continue
        if nP:
            th2 = [round(float(v) * 1.3 + 0.1, 4) for v in spec["theta"]]
            spec2 = dict(spec, theta=th2)
            m.parameters = [("p%d" % k, v) for k, v in enumerate(th2)]
            cls, what, err = point_check(spec2, z1, call, m)
            m.parameters = [("p%d" % k, v) for k, v in enumerate(spec["theta"])]
            if cls:
                out.append(("after-parameter-change/" + cls, "evaluated at a point, parameters changed, evaluated at the same point: "
                            + what, dict(kind="sequence-params", call=call, spec=spec, theta2=th2, z=z1.tolist())))
    return out


def growth_check(spec, rng, calls):
    """the systems are those of the model AS IT NOW IS: everything evaluated once, an explicit ODE term added to the live model,
    the plain ODE evaluated, then — Jacobian FIRST, right-hand side second — the systems of the grown model.  -> violations"""
    import pg
    nS, nP = spec["nS"], spec["nP"]
    if not nP:
        return []
    m = build(spec)
    out = []
    x = np.round(rng.uniform(0.5, 1.5, nS), 4)
    for call in calls:
        layout, rhs, jac = CALLS[call]
        n = nS + nS * nP + (nS * nS if call == "iv" else 0)
        z = np.round(np.concatenate([x, rng.uniform(-1.0, 1.0, n - nS)]), 4)
        jac(m, z, 0.0); rhs(m, z, 0.0)
    term = "1/3*p0*x0*x%d" % (nS - 1)
    m.add_ode(pg.Transition(origin="x0", equation=term, transition_type=pg.TransitionType.ODE))
    spec2 = dict(spec, eqs=[spec["eqs"][0] + "+" + term] + list(spec["eqs"][1:]))
    theta = np.asarray(spec["theta"], dtype=float)
    m.ode(x, 0.0)
    for call in calls:
        layout, rhs, jac = CALLS[call]
        n = nS + nS * nP + (nS * nS if call == "iv" else 0)
        z = np.round(np.concatenate([x, rng.uniform(-1.0, 1.0, n - nS)]), 4)
        inp = dict(kind="growth", call=call, spec=spec, z=z.tolist())
        try:
            Jc = np.asarray(jac(m, z, 0.0), dtype=float)
            r = np.asarray(rhs(m, z, 0.0), dtype=float)
        except Exception as e:      # noqa: B902
            out.append(("after-add_ode/raises-" + CLS[call], "%s raised %s: %s after an ODE term was added to the live model" % (call, type(e).__name__, e), inp))
            continue
        want = spec_rhs(spec2, z, theta, layout)
        if r.shape != want.shape or not np.all(np.abs(r - want) <= RHS_RTOL * (1 + np.abs(want).max())):
            out.append(("after-add_ode/rhs-" + CLS[call], "%s right-hand side is not that of the grown model (max error %s)"
                        % (call, float(np.abs(r - want).max()) if r.shape == want.shape else None), inp))
            continue
        Jn = num_jac(lambda y: spec_rhs(spec2, y, theta, layout), z)
        if Jc.shape != Jn.shape or float(np.abs(Jc - Jn).max()) > JAC_RTOL * (1 + np.abs(Jn).max()):
            out.append(("after-add_ode/jacobian-" + CLS[call], "%s Jacobian (asked for before the right-hand side) is not the derivative of "
                        "the grown model's system: max |supplied - central difference of the reference| = %.3g"
                        % (call, float(np.abs(Jc - Jn).max()) if Jc.shape == Jn.shape else -1.0), inp))
    return out


def run_search(ck):
    rng = np.random.default_rng([ck.seed, 1313])
    specs = [dict(c) for c in CORPUS]
    shapes = list(SEARCH_SHAPES_QUICK)
    if not ck.quick:
        shapes += SEARCH_SHAPES_MORE + [(int(rng.integers(1, 6)), int(rng.integers(0, 6))) for _ in range(30)]
    specs += [gen_spec(rng, s, p) for (s, p) in shapes]
    if not ck.quick:
        # the default Cython back-end on a tiny subset (one compile costs 4-10 s): a one-state and a 2x3 model
        specs += [dict(CORPUS[2], backend="cython"), dict(gen_spec(rng, 2, 3), backend="cython")]
    worst = {"jacobian": 0.0, "integrated": 0.0}
    dist = {}
    n_int = 0
    n_growth = 0
    for spec in specs:
        nS, nP = spec["nS"], spec["nP"]
        try:
            m = build(spec)
        except Exception as e:      # noqa: B902
            ck.violation("model-build", "building a valid %d-state %d-parameter model raised %s: %s" % (nS, nP, type(e).__name__, e),
                         dict(kind="point", call="iv", spec=spec, z=[0.0] * (nS + nS * nP + nS * nS)))
            continue
        key = "%dx%d%s" % (nS, nP, "-cython" if spec.get("backend") == "cython" else "")
        dist[key] = dist.get(key, 0) + 1
        calls = ["default", "by_state", "iv"] if nP else ["iv"]
        for rep in range(ck.budget(2, 5)):
            for call in calls:
                n = nS + nS * nP + (nS * nS if call == "iv" else 0)
                z = np.round(np.concatenate([rng.uniform(0.5, 1.5, nS), rng.uniform(-1.0, 1.0, n - nS)]), 4)
                cls, what, err = point_check(spec, z, call, m)
                ck.case(dict(kind="point", call=call, nS=nS, nP=nP, eqs=spec["eqs"], z=z.tolist()),
                        nontrivial=(nS != nP and nS * max(nP, 1) > 1) or nS == 1)
                if cls:
                    ck.violation(cls, what, dict(kind="point", call=call, spec=spec, z=z.tolist()))
                elif err is not None:
                    worst["jacobian"] = max(worst["jacobian"], err)
        # the same systems at an integer-valued point handed over as Python ints / an int64 array / a tuple: the value of
        # the right-hand side does not depend on the number type of the point
        for call in calls:
            n = nS + nS * nP + (nS * nS if call == "iv" else 0)
            z = np.concatenate([rng.integers(1, 4, nS), rng.integers(-2, 3, n - nS)]).astype(float)
            zt = ["intlist", "intarray", "tuple"][int(rng.integers(0, 3))]
            cls, what, err = point_check(spec, z, call, m, ztype=zt)
            ck.case(dict(kind="point", call=call, nS=nS, nP=nP, eqs=spec["eqs"], z=z.tolist(), ztype=zt), nontrivial=True)
            if cls:
                ck.violation(cls + "-" + zt, what + " [point handed over as %s]" % zt, dict(kind="point", call=call, spec=spec, z=z.tolist(), ztype=zt))
        for cls, what, inp in sequence_check(spec, m, rng, calls):
            ck.violation(cls, what, inp)
        if spec.get("backend") != "cython" and n_growth < ck.budget(5, 30):
            n_growth += 1
            ck.case(dict(kind="growth", nS=nS, nP=nP, eqs=spec["eqs"]), nontrivial=True)
            for cls, what, inp in growth_check(spec, rng, calls):
                ck.violation(cls, what, inp)
        ck.case(dict(kind="sequence", nS=nS, nP=nP, eqs=spec["eqs"]), nontrivial=True)
        # integrated sensitivities: every lambda-back-end model in thorough, the first ones in quick
        if spec.get("backend") == "cython" or (ck.quick and n_int >= 8):
            continue
        n_int += 1
        for mode in calls:
            cls, what, err = integ_check(spec, mode, m)
            ck.case(dict(kind="integrated", mode=mode, nS=nS, nP=nP, eqs=spec["eqs"], theta=spec["theta"], x0=spec["x0"]),
                    nontrivial=True)
            if cls:
                ck.violation(cls, what, dict(kind="integrated", mode=mode, spec=spec))
            elif err is not None:
                worst["integrated"] = max(worst["integrated"], err)
    ck.notes["search_shape_distribution"] = dist
    ck.notes["search_observed_max_error"] = worst
    ck.notes["integrated_max_rhs_evaluations"] = NFEV[0]
    ck.notes["integrated_through_pygom_driver"] = dict(DRIVER, rtol=DRIVER_RTOL)


# ====================================================================== driver
BYSTATE_OBLIGATIONS = ("C13_bystate_facts", "C13_arrange_good", "C13_jac_entry_bystate")


def run(ck):
    import gen_sens
    ck.rule = ("K: integer stubs for ode/jacobian/grad/diff_jacobian/grad_jacobian (entries in [-3,3]), integer z in [-4,4], every "
               "(nS, nP) in [1,5]x[0,5] once plus random shapes; six calls per case (rhs, rhs by_state, rhs IV, and their Jacobians); "
               "non-trivial = nS >= 2, nP >= 2, nS != nP.  Search: generated models with rational saturating rates "
               "p*x_a*x_b/(1+x_b^2), parameter products and quadratic damping, shapes incl. one-state and nS != nP; "
               "non-trivial = nS != nP or one-state; distinct by canonical JSON hash")
    ok = ck.coq_build("C13", [("SensGen", gen_sens.generate())],
                 extra=("Util.vo", "Shapes.vo", "Sens.vo", "SensCases.vo", "Gen/SensGen.vo"))
    common.name_assumptions(ck, "C13")
    if ok and not ck.quick:
        # independent re-check of the compiled proofs (thorough tier only, ~1 min)
        cmd = "timeout 900 coqchk -silent -o -R . PV PV.Props.C13"
        ck.checker_cmds.append("cd /verif/coq && " + cmd)
        rc, out = common.sh(cmd, cwd=common.COQ, timeout=1000)
        ck.notes["coqchk"] = out[-600:]
        # the statements over R (C13_real_dx / C13_real_dS) rest on the standard library's real-number and classical axioms;
        # anything else in the list is not ours to use
        allowed = {"Coq.Logic.FunctionalExtensionality.functional_extensionality_dep", "Coq.Reals.ClassicalDedekindReals.sig_not_dec",
                   "Coq.Reals.ClassicalDedekindReals.sig_forall_dec", "Coq.Logic.Classical_Prop.classic"}
        listed, on = set(), False
        for line in out.splitlines():
            if line.startswith("* Axioms:"):
                on = "<none>" not in line
                continue
            if line.startswith("* "):
                on = False
            if on and line.strip():
                listed.add(line.strip())
        ck.notes["coqchk_axioms"] = sorted(listed)
        if rc != 0 or "* Axioms:" not in out or not listed <= allowed:
            ck.broken.append(dict(theorem="coqchk Props/C13.vo", file="Props/C13.vo", error=out[-1200:]))
    run_K(ck)
    run_search(ck)
    # by_state obligations that fail are explained by a recorded known finding only when (1) known_findings.json holds a
    # `known` entry for class jacobian-bystate and (2) the search reproduced that very class on this run
    known = [k for k in common.load_known() if k.get("property") == "C13" and k.get("status") == "known"
             and k.get("match", {}).get("cls") == "jacobian-bystate"]
    if known and any(v["cls"] == "jacobian-bystate" for v in ck.violations):
        keep = [b for b in ck.broken if b.get("theorem") not in BYSTATE_OBLIGATIONS]
        if len(keep) != len(ck.broken):
            ck.notes["broken_explained_by_known_finding"] = [b.get("theorem") for b in ck.broken if b not in keep]
            ck.broken[:] = keep
    ck.notes["tolerances"] = dict(
        K="exact (integers)",
        rhs_vs_oracle="%g relative to 1+max|rhs| (two float evaluations of the same rational functions)" % RHS_RTOL,
        jacobian_vs_central_difference="%g * (1 + max|J|), step 1e-6; observed <= 5e-10 on the unchanged tree, a wrong "
                                       "index/sign changes entries by O(0.1..1)" % JAC_RTOL,
        integrated_vs_finite_difference="%g * (1 + max|S|); reference DOP853 rtol 1e-12, FD step 1e-4; observed <= 3e-7" % INT_RTOL)
    ck.assumptions += [
        "numpy reshape/dot/kron/bmat/fancy-indexing semantics as transcribed in Shapes.v (validated by the exact K comparison on every run)",
        "second derivatives commute (DJ[i*nS+a][b] = DJ[i*nS+b][a]) in the Jacobian theorems; K itself uses arbitrary integer DJ",
        "the evaluators jacobian/grad/diff_jacobian/grad_jacobian/ode are the true derivatives of the model (property C03); "
        "here they are abstract tensors in Coq and checked end to end by the search",
        "search oracle: sympy differentiation of the rate strings written by the generator (not pygom's equations), scipy DOP853",
    ]


def replay(ck, data):
    inp = data.get("input")
    if not inp:
        return None
    spec = inp["spec"]
    if inp["kind"] == "point":
        cls, what, _ = point_check(spec, np.array(inp["z"], dtype=float), inp["call"], ztype=inp.get("ztype"))
    elif inp["kind"] == "growth":
        r = growth_check(spec, np.random.default_rng(0), [inp["call"]])
        return r[0][1] if r else None
    elif inp["kind"].startswith("sequence"):
        r = sequence_check(spec, build(spec), np.random.default_rng(0), [inp["call"]])
        return r[0][1] if r else None
    else:
        cls, what, _ = integ_check(spec, inp["mode"])
    return what if cls else None
