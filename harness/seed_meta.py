"""Folds seeded/RESULTS.txt (appended by the evaluation runs) into seeded/<id>/meta.json and prints the DESIGN.md table."""
import json, os, re, sys
V = os.path.dirname(os.path.dirname(os.path.abspath(__file__)))
rows = {}
for l in open(os.path.join(V, "seeded", "RESULTS.txt")):
    m = re.match(r"(\w+) demo_clean=(\d+) demo_patched=(\d+) checks:(.*)", l.strip())
    if m:
        rows.setdefault(m.group(1), []).append(dict(demo_clean=int(m.group(2)), demo_patched=int(m.group(3)),
                                                    checks={k: int(v) for k, v in (c.split(":") for c in m.group(4).split())}))
print("| seeded change | breaks | needs to manifest | first run | after strengthening |")
print("|---|---|---|---|---|")
for sid in sorted(rows):
    d = os.path.join(V, "seeded", sid)
    mp = os.path.join(d, "meta.json")
    meta = json.load(open(mp)) if os.path.exists(mp) else {}
    runs = rows[sid]
    meta["confirmed"] = dict(demo_exit_unchanged=runs[-1]["demo_clean"], demo_exit_with_change=runs[-1]["demo_patched"],
                             how="demo.py run in a scratch worktree of /repo HEAD without and with patch.diff; checks run with "
                                 "PYGOM_REPO pointing at that patched worktree (./check <id> --tier quick)",
                             check_runs=[r["checks"] for r in runs])
    json.dump(meta, open(mp, "w"), indent=1)
    def fmt(r):
        return ", ".join("%s %s" % (k, "caught" if v else "MISSED") for k, v in r["checks"].items())
    first, last = runs[0], runs[-1]
    what = str(meta.get("what_breaks", ""))[:110].replace("|", "/").replace("\n", " ")
    need = str(meta.get("needs_to_manifest", ""))[:110].replace("|", "/").replace("\n", " ")
    print("| %s | %s | %s | %s | %s |" % (sid, what, need, fmt(first), fmt(last) if len(runs) > 1 else "—"))
