"""C20 — curvature information matches the cost it is meant to describe.

proof  : coq/Curv.v, coq/FF.v (+Proofs): sens_to_jtj, the column selection, the Hessian assembly and the forward-forward
         right-hand side as coded, over functional arrays and an arbitrary commutative ring; Props/C20.v states them about the
         facts gen/gen_curv.py reads from the current source.
K      : (1) BaseLoss.sens_to_jtj on random INTEGER arrays (integer weights), (2) jtj(theta) and hessian(theta) with
         ode_utils.integrateFuncJac replaced by a stub returning an integer "solution" (so column selection, diff_loss, the
         residual-curvature loop and the 2*JTJ term run for real, exactly), (3) ode_and_forwardforward with the evaluators of a
         live model stubbed by integer arrays; all compared exactly with the Coq model at Z (vm_compute).
search : real models; jtj(theta) and hessian(theta) against a reference that shares no code with pygom (harness/c20ref.py:
         sympy derivatives of the rate strings, first AND second order sensitivity systems integrated with DOP853 1e-12),
         symmetry, PSD, Richardson-extrapolated differences of the real gradient and second differences of a reference cost.
         Models are CLASSIFIED symbolically: 'complete' when d2f/dxdtheta and d2f/dtheta2 vanish identically, else 'mixed'.
         The recorded known finding (hessian omits the mixed terms) is assigned, as class hessian-mixed-terms-omitted, only
         to a 'mixed' model whose returned Hessian equals the reference Hessian assembled from the INCOMPLETE second-order
         system; any other deviation gets another class and fails the check.
"""
import json, os, sys, time
import numpy as np
import common
sys.path.insert(0, os.path.join(common.VERIF, "gen"))
import c20ref

# ---- tolerances (float only where solver error enters).  pygom integrates with lsoda/vode at rtol=atol=1e-10; observed on the
# repaired tree: |jtj - ref| <= 4e-9*scale, |hessian - ref| <= 6e-9*scale, Richardson(real gradient) <= 2e-8*scale.
TOL = 2e-6            # |code - reference| <= TOL * scale, scale = 1 + max|reference matrix|
TOL_FD = 2e-5         # Richardson differences of the real gradient / second differences of the reference cost
SEP = 1e-3            # a case counts as non-trivial when the residual-curvature term (and, for mixed models, the omitted part) is >= SEP*scale
DECIDE = 20 * TOL     # the sign / weight classes are only named when the residual-curvature term is >= DECIDE*scale (else: hessian-mismatch)
SYM_TOL = 1e-12
PSD_TOL = 1e-9


# ====================================================================== models
def _coef(rng, pos=False):
    s = "" if pos or rng.random() < 0.6 else "-"
    return "%s%d/%d" % (s, int(rng.integers(1, 6)), int(rng.choice([2, 3, 5, 7])))


def gen_model(rng, nS, nP, kind):
    """kind 'complete': parameters enter additively with constant coefficients (all mixed second derivatives vanish);
       'xp': products parameter*state; 'pp': products/powers of parameters; 'both'.  State-only parts are non-linear so
       that the second-order sensitivities are non-zero in every class."""
    st = ["x%d" % i for i in range(nS)]
    pa = ["p%d" % k for k in range(nP)]
    eqs = []
    for i in range(nS):
        a, b = (i + 1) % nS, int(rng.integers(0, nS))
        terms = ["%s*x%d*x%d/(1+x%d**2)" % (_coef(rng), a, b, b), "-x%d**2/%d" % (i, 3 + i)]
        ks = [k for k in range(nP) if k % nS == i]
        if nP and rng.random() < 0.6:
            ks.append(int(rng.integers(0, nP)))
        for k in sorted(set(ks)):
            terms.append("%s*p%d" % (_coef(rng, pos=True), k))
        if kind in ("xp", "both") and nP:
            k = i % nP if i < nP else int(rng.integers(0, nP))
            terms.append("%s*p%d*x%d" % (_coef(rng), k, int(rng.integers(0, nS))))
            if rng.random() < 0.4:
                terms.append("%s*p%d*x%d*x%d" % (_coef(rng), int(rng.integers(0, nP)), i, (i + 1) % nS))
        if kind in ("pp", "both") and nP:
            k, l = int(rng.integers(0, nP)), int(rng.integers(0, nP))
            terms.append("%s*p%d*p%d" % (_coef(rng, pos=True), k, l))
        eqs.append("+".join(terms).replace("+-", "-"))
    return st, pa, eqs


def gen_spec(rng, nS, nP, kind, order_variant=None, weight_kind=None):
    """a model + observation set inside the property's domain: the reference solution (and its sensitivities) must exist and stay
    O(1) on the observation window at theta and at the data-generating parameter (generated rates may blow up in finite time)"""
    for _ in range(40):
        spec = _gen_spec(rng, nS, nP, kind, order_variant, weight_kind)
        if spec is not None:
            return spec
    raise common.InternalError("generator: no bounded model found for shape %dx%d kind %s" % (nS, nP, kind))


def _gen_spec(rng, nS, nP, kind, order_variant, weight_kind):
    st, pa, eqs = gen_model(rng, nS, nP, kind)
    n = int(rng.integers(3, 7))
    times = sorted(set(np.round(rng.uniform(0.2, 2.0, n), 2).tolist()))
    n = len(times)
    k_obs = int(rng.integers(1, nS + 1))
    obs_i = sorted(rng.choice(nS, size=k_obs, replace=False).tolist())
    if k_obs == 1 and rng.random() < 0.1:
        times, n = times[-1:], 1          # a single observation of a single state
    target = None
    if nP >= 2 and rng.random() < 0.4:
        q = int(rng.integers(1, nP + 1))
        target = [pa[k] for k in sorted(rng.choice(nP, size=q, replace=False).tolist())]
    if order_variant == "obs" and k_obs >= 2:
        obs_i = obs_i[::-1]
    if order_variant == "target" and nP >= 2:
        q = max(2, 0 if target is None else len(target))
        target = [pa[k] for k in sorted(rng.choice(nP, size=q, replace=False).tolist())][::-1]
    obs = [st[i] for i in obs_i]
    p = len(obs)
    wk = weight_kind or ["none", "scalar", "state", "matrix"][int(rng.integers(0, 4))]
    vals = [0.5, 1.0, 2.0, 3.0, 1.5]
    if wk == "none":
        w = None
    elif wk == "scalar":
        w = float(rng.choice(vals))
    elif wk == "state":
        w = [float(vals[(j + int(rng.integers(0, 2))) % 5]) for j in range(p)]
        if p >= 2 and len(set(w)) == 1:
            w[0] = 3.0 if w[0] != 3.0 else 0.5
    elif wk == "flat":          # per-observation weights of ONE observed state as a flat vector
        w = [float(rng.choice(vals)) for _ in range(n)]
    else:
        w = [[float(rng.choice(vals)) for _ in range(p)] for _ in range(n)]
    theta = np.round(rng.uniform(0.2, 0.9, nP), 3).tolist()
    x0 = np.round(rng.uniform(0.5, 1.5, nS), 3).tolist()
    spec = dict(states=st, params=pa, eqs=eqs, theta=theta, x0=x0, times=times, obs=obs, target=target, weights=w,
                weight_kind=wk)
    # data: the model at a shifted parameter plus noise of order 0.2, so that residuals (hence the residual-curvature term)
    # are not small
    th_data = np.clip(np.array(theta) + rng.uniform(-0.25, 0.25, nP), 0.05, 1.2)
    try:
        X = c20ref.integrate(dict(spec), th_data, times)[0]
        X0, S0, F0, _ = c20ref.integrate(dict(spec), theta, times)
    except RuntimeError:
        return None
    if max(np.abs(X).max(), np.abs(X0).max()) > 10 or np.abs(S0).max() > 50 or np.abs(F0).max() > 500:
        return None
    y = X[:, obs_i] + rng.uniform(-0.25, 0.25, (n, p))
    spec["y"] = np.round(y, 3).tolist()
    return spec


def build_loss(spec):
    import pg
    from pygom import SquareLoss
    odes = [pg.Transition(origin=s, equation=e, transition_type=pg.TransitionType.ODE) for s, e in zip(spec["states"], spec["eqs"])]
    m = pg.model(lambda_backend=(spec.get("backend", "lambda") != "cython"), state=spec["states"], param=spec["params"], ode=odes)
    m.parameters = [(p, v) for p, v in zip(spec["params"], spec["theta"])]
    y = np.array(spec["y"], dtype=float)
    if y.shape[1] == 1:
        y = y.ravel()
    w = spec.get("weights")
    if spec.get("weight_kind") == "flat":
        w = np.array(w, dtype=float)            # shape (n,)
    elif isinstance(w, list):
        w = np.array(w, dtype=float)
    _, pidx = c20ref.selection(spec)
    th = np.array(spec["theta"], dtype=float)[pidx]
    L = SquareLoss(th, m, spec["x0"], np.float64(0.0), np.array(spec["times"], dtype=float), y, list(spec["obs"]),
                   state_weight=w, target_param=spec.get("target"))
    return L, th


def ref_spec(spec):
    """the spec as the reference reads it ('flat' weights are one column)"""
    s = dict(spec)
    if spec.get("weight_kind") == "flat":
        s["weights"] = [[v] for v in spec["weights"]]
    return s


def input_class(spec):
    """which ordering class the selection belongs to"""
    sidx, pidx = c20ref.selection(spec)
    out = []
    if pidx != sorted(pidx):
        out.append("target-param-order")
    if sidx != sorted(sidx):
        out.append("observed-state-order")
    return out


def close(A, B, tol, scale):
    A, B = np.asarray(A, dtype=float), np.asarray(B, dtype=float)
    return A.shape == B.shape and bool(np.all(np.isfinite(A))) and float(np.abs(A - B).max()) <= tol * scale


_LAST_LOSS = [None]


def check_spec(spec, with_fd=True, loss=None):
    """returns (violations, info): violations = list of (cls, what); info has observed errors and the model class.
    loss: an existing loss object (built for the same spec at ANOTHER theta) to evaluate instead of a fresh one"""
    rs = ref_spec(spec)
    R = c20ref.curvature(rs)
    mclass = c20ref.classify(rs)
    oc = input_class(spec)
    nq = len(R["grad"])
    info = dict(model_class=mclass, order_class=oc, err={})
    V = []
    shape = "%d states, %d parameters, observed %s, target %s, weights %s" % (
        len(spec["states"]), len(spec["params"]), spec["obs"], spec.get("target"), spec.get("weight_kind"))
    try:
        if loss is None:
            L, th = build_loss(spec)
        else:
            L = loss
            th = np.array(spec["theta"], dtype=float)[c20ref.selection(spec)[1]]
        _LAST_LOSS[0] = L
    except Exception as e:      # noqa: B902
        return [("loss-construction", "SquareLoss construction raised %s: %s (%s)" % (type(e).__name__, e, shape))], info
    sc_j = 1 + float(np.abs(R["jtj"]).max())
    sc_h = 1 + float(np.abs(R["H_true"]).max())

    def order_cls(base):
        if "target-param-order" in oc:
            return base + "-target-param-order"
        if "observed-state-order" in oc:
            return base + "-observed-state-order"
        return None

    # ---------------------------------------------------------------- jtj
    J = None
    try:
        J = np.asarray(L.jtj(th), dtype=float)
        Jf, outJ = L.jtj(th, full_output=True)
    except Exception as e:      # noqa: B902
        cls = "raises-flat-weights-single-state" if spec.get("weight_kind") == "flat" else "jtj-raises"
        V.append((cls, "jtj(theta) raised %s: %s on a loss whose cost() evaluates (%s)" % (type(e).__name__, e, shape)))
    if J is not None:
        info["err"]["jtj"] = float(np.abs(J - R["jtj"]).max()) / sc_j if J.shape == R["jtj"].shape else None
        if not close(J, R["jtj"], TOL, sc_j):
            cls = order_cls("jtj") or "jtj-mismatch"
            V.append((cls, "jtj(theta) is not the sum over observations of the outer products of the weighted sensitivities of "
                      "the observed states: max deviation %.3g (scale %.3g; %s)" % (np.abs(J - R["jtj"]).max() if J.shape == R["jtj"].shape
                                                                                   else float("nan"), sc_j, shape)))
        if not close(Jf, J, TOL, sc_j):
            V.append(("jtj-full-output", "jtj(theta, full_output=True) returns another matrix than jtj(theta) (%s)" % shape))
        if J.shape == (nq, nq):
            if float(np.abs(J - J.T).max()) > SYM_TOL * sc_j:
                V.append(("jtj-asymmetric", "jtj(theta) is not symmetric: %.3g (%s)" % (np.abs(J - J.T).max(), shape)))
            ev = np.linalg.eigvalsh((J + J.T) / 2)
            if ev.min() < -PSD_TOL * sc_j:
                V.append(("jtj-not-psd", "jtj(theta) has eigenvalue %.3g < 0 (%s)" % (ev.min(), shape)))
    # ---------------------------------------------------------------- hessian
    H = None
    try:
        H = np.asarray(L.hessian(th), dtype=float)
        Hf, outH = L.hessian(th, full_output=True)
    except Exception as e:      # noqa: B902
        cls = "raises-flat-weights-single-state" if spec.get("weight_kind") == "flat" else "hessian-raises"
        V.append((cls, "hessian(theta) raised %s: %s on a loss whose cost() evaluates (%s)" % (type(e).__name__, e, shape)))
    if H is not None:
        c_gap = float(np.abs(R["c_true"] - R["c_inc"]).max())
        c_mag = float(np.abs(R["c_true"]).max())
        info["c_over_scale"] = c_mag / sc_h
        info["gap_over_scale"] = c_gap / sc_h
        ok_true = close(H, R["H_true"], TOL, sc_h)
        if H.shape == R["H_true"].shape:
            info["err"]["hessian"] = float(np.abs(H - R["H_true"]).max()) / sc_h
        if not ok_true:
            dev = float(np.abs(H - R["H_true"]).max()) if H.shape == R["H_true"].shape else float("nan")
            pinned = 2 * R["jtj"] - R["c_inc_unw"]            # residual term with flipped sign and without the weight factor
            flipped = 2 * R["jtj"] - R["c_inc"]
            # H deviates from the true Hessian by more than TOL (ok_true is false) and equals the incomplete prediction within TOL:
            # the numerical error of both is <= 1e-8*scale, so this attribution is unambiguous whatever the size of the gap
            if mclass == "mixed" and close(H, R["H_inc"], TOL, sc_h):
                cls = "hessian-mixed-terms-omitted"
                what = ("hessian(theta) equals the Hessian assembled from second-order sensitivities WITHOUT the mixed "
                        "state-parameter / parameter-parameter terms (model has non-vanishing d2f/dxdtheta or d2f/dtheta2)")
            elif c_mag >= DECIDE * sc_h and (close(H, flipped, TOL, sc_h) or close(H, pinned, TOL, sc_h)):
                cls = "hessian-residual-term-sign"
                what = ("the residual-curvature term sum_i L'_i d2x_i/dtheta2 enters hessian(theta) with the wrong sign%s: "
                        "returned 2JtJ - c, the second derivative of the cost is 2JtJ + c" %
                        ("" if close(H, flipped, TOL, sc_h) else " and without the second weight factor"))
            elif c_mag >= DECIDE * sc_h and close(H, 2 * R["jtj"] + R["c_inc_unw"], TOL, sc_h):
                cls = "hessian-residual-term-weight"
                what = "the residual-curvature term of hessian(theta) lacks the weight factor (diff_loss carries only one of the two)"
            elif order_cls("hessian"):
                cls = order_cls("hessian")
                what = "hessian(theta) mixes parameter/state orders"
            else:
                cls = "hessian-mismatch"
                what = "hessian(theta) is not the matrix of second derivatives of the cost"
            V.append((cls, "%s: max deviation from the reference Hessian %.3g (scale %.3g; model class %s; %s)"
                      % (what, dev, sc_h, mclass, shape)))
        if not close(Hf, H, TOL, sc_h):      # full_output=True picks the integrator by eigenvalues: another solver path
            V.append(("hessian-full-output", "hessian(theta, full_output=True) returns another matrix than hessian(theta) (%s)" % shape))
        if H.shape == (nq, nq) and float(np.abs(H - H.T).max()) > 1e-9 * sc_h:
            V.append(("hessian-asymmetric", "hessian(theta) is not symmetric: %.3g (%s)" % (np.abs(H - H.T).max(), shape)))
    # ---------------------------------------------------------------- independent confirmations of the reference itself
    if with_fd:
        try:
            Hc = c20ref.fd_hessian_of_cost(lambda t_: c20ref.ref_cost(rs, t_), th, 2e-3)
        except RuntimeError as e:           # the reference has no solution at a neighbouring theta
            info["ref_unconfirmed"] = str(e)[:120]
            return [], info
        info["err"]["ref_vs_fd_cost"] = float(np.abs(Hc - R["H_true"]).max()) / sc_h
        if not close(Hc, R["H_true"], 50 * TOL_FD, sc_h):
            # second differences carry an O(h^2) error of their own (large where the third derivatives are): halve the step and
            # extrapolate before concluding anything
            Hc2 = c20ref.fd_hessian_of_cost(lambda t_: c20ref.ref_cost(rs, t_), th, 1e-3)
            Hx = (4 * Hc2 - Hc) / 3
            info["err"]["ref_vs_fd_cost"] = float(np.abs(Hx - R["H_true"]).max()) / sc_h
            if not close(Hx, R["H_true"], 50 * TOL_FD, sc_h):
                # the reference could not be confirmed on this input: nothing is concluded from it (counted by the caller, which
                # stops with an internal error when this is more than an isolated case)
                info["ref_unconfirmed"] = "second differences of the reference cost: %g" % info["err"]["ref_vs_fd_cost"]
                return [], info
        # derivative of the REAL gradient (only meaningful when the real gradient is the gradient: that is property C07)
        try:
            g = np.asarray(L.gradient(th), dtype=float)
            g_ok = close(g, R["grad"], TOL, 1 + float(np.abs(R["grad"]).max()))
            info["real_gradient_ok"] = bool(g_ok)
            if g_ok:
                Hg = c20ref.richardson_jac(lambda t_: L.gradient(t_), th, 2e-3)
                info["err"]["richardson_real_gradient"] = float(np.abs(Hg - R["H_true"]).max()) / sc_h
                if not close(Hg, R["H_true"], TOL_FD, sc_h):
                    Hg = c20ref.richardson_jac(lambda t_: L.gradient(t_), th, 5e-4)
                    info["err"]["richardson_real_gradient"] = float(np.abs(Hg - R["H_true"]).max()) / sc_h
                    if not close(Hg, R["H_true"], TOL_FD, sc_h):
                        info["ref_unconfirmed"] = ("Richardson differences of the real gradient (which agrees with the reference gradient): %g"
                                                   % info["err"]["richardson_real_gradient"])
                        return [], info
        except common.InternalError:
            raise
        except Exception as e:      # noqa: B902
            info["real_gradient_ok"] = "raised %s" % type(e).__name__
    return V, info


def sequence_check(spec):
    """jtj(theta) evaluated, a parameter the loss object does NOT estimate changed on the shared model, jtj at the SAME theta
    again: the second answer is the Gauss-Newton matrix of the model as it now is.  -> list of (cls, what)"""
    tgt = spec.get("target")
    if not tgt or len(tgt) >= len(spec["params"]):
        return []
    other = [p for p in spec["params"] if p not in tgt][0]
    k = spec["params"].index(other)
    try:
        L, th = build_loss(spec)
        L.jtj(th)
        theta2 = list(spec["theta"])
        theta2[k] = theta2[k] * 1.15 + 0.05
        L._ode.parameters = {other: theta2[k]}
        J2 = np.asarray(L.jtj(th), dtype=float)
    except Exception as e:      # noqa: B902
        return [("jtj-sequence-raises", "jtj(theta); model.parameters = {%s: ...}; jtj(theta) raised %s: %s" % (other, type(e).__name__, e))]
    try:
        R2 = c20ref.curvature(ref_spec(dict(spec, theta=theta2)))
    except RuntimeError:
        return []           # the changed model has no solution over the observation window: nothing to compare with
    sc = 1 + float(np.abs(R2["jtj"]).max())
    if not close(J2, R2["jtj"], TOL, sc):
        return [("jtj-stale-after-model-change", "jtj(theta) evaluated, then parameter %s (not estimated by this loss object) changed on "
                 "the model from %r to %r, then jtj at the same theta: max deviation from the Gauss-Newton matrix of the changed "
                 "model %.3g (scale %.3g)" % (other, spec["theta"][k], theta2[k], float(np.abs(J2 - R2["jtj"]).max())
                                              if J2.shape == R2["jtj"].shape else float("nan"), sc))]
    return []


def omitted_theta_check(spec):
    """jtj(theta) evaluated; somebody else (a second loss object, the user) gives the shared model other values for the parameters
    this loss object estimates; jtj() with theta omitted: the Gauss-Newton matrix at the loss object's OWN theta (the last one it
    was given).  -> list of (cls, what)"""
    tgt = spec.get("target") or list(spec["params"])
    try:
        L, th = build_loss(spec)
        L.jtj(th)
        L._ode.parameters = {p: spec["theta"][spec["params"].index(p)] * 1.3 + 0.1 for p in tgt}
        J2 = np.asarray(L.jtj(), dtype=float)
    except Exception as e:      # noqa: B902
        return [("jtj-omitted-theta-raises", "jtj(theta); model.parameters = {...}; jtj() raised %s: %s" % (type(e).__name__, e))]
    try:
        R = c20ref.curvature(ref_spec(spec))
    except RuntimeError:
        return []
    sc = 1 + float(np.abs(R["jtj"]).max())
    if not close(J2, R["jtj"], TOL, sc):
        return [("jtj-omitted-theta-follows-shared-model", "jtj(theta) evaluated, the shared model given other values for %s, then jtj() with "
                 "theta omitted: max deviation from the Gauss-Newton matrix at the loss object's own theta %.3g (scale %.3g)"
                 % (tgt, float(np.abs(J2 - R["jtj"]).max()) if J2.shape == R["jtj"].shape else float("nan"), sc))]
    return []


# ====================================================================== search
# past failing inputs, always first.  x' = -x^2 + theta (complete: the second-order system is exact) shows the sign of
# the residual-curvature term; SIR-like p*x*y is the recorded mixed-terms finding.
CORPUS = [
    dict(states=["x"], params=["th"], eqs=["-x*x+th"], theta=[0.7], x0=[1.0], times=[0.5, 1.0, 1.5], obs=["x"],
         target=None, weights=None, weight_kind="none", y=[[0.9], [0.8], [0.85]]),
    dict(states=["x", "y"], params=["a", "b"], eqs=["-x*y+a", "x*x-y*y+b"], theta=[0.5, 0.3], x0=[0.9, 0.5],
         times=[0.5, 1.0, 1.5, 2.0], obs=["x", "y"], target=None, weights=[0.5, 2.0], weight_kind="state",
         y=[[1.01, 1.45], [0.64, 1.45], [0.81, 0.92], [1.33, 0.91]]),
    dict(states=["S", "I", "R"], params=["b", "g"], eqs=["-b*S*I", "b*S*I-g*I", "g*I"], theta=[0.5, 0.3], x0=[0.9, 0.1, 0.0],
         times=[0.5, 1.0, 1.5, 2.0], obs=["I", "R"], target=None, weights=None, weight_kind="none",
         y=[[0.3, 0.1], [0.25, 0.2], [0.4, 0.1], [0.35, 0.3]]),
    dict(states=["x"], params=["a", "b"], eqs=["-x*x+a+b*b"], theta=[0.5, 0.3], x0=[0.9], times=[0.5, 1.0, 1.5, 2.0], obs=["x"],
         target=None, weights=None, weight_kind="none", y=[[1.0], [0.6], [0.8], [1.3]]),
    # selection given out of declaration order (jtj came back in declaration order; per-state weights hit the wrong columns)
    dict(states=["x", "y"], params=["a", "b"], eqs=["-x*y+a", "x*x-y*y+b"], theta=[0.5, 0.3], x0=[0.9, 0.5],
         times=[0.5, 1.0, 1.5, 2.0], obs=["x", "y"], target=["b", "a"], weights=None, weight_kind="none",
         y=[[1.01, 1.45], [0.64, 1.45], [0.81, 0.92], [1.33, 0.91]]),
    dict(states=["x", "y"], params=["a", "b"], eqs=["-x*y+a", "x*x-y*y+b"], theta=[0.5, 0.3], x0=[0.9, 0.5],
         times=[0.5, 1.0, 1.5, 2.0], obs=["y", "x"], target=None, weights=[2.0, 0.5], weight_kind="state",
         y=[[1.45, 1.01], [1.45, 0.64], [0.92, 0.81], [0.91, 1.33]]),
    # the second state-derivative vanishes AT the initial state (x(0) sits on the inflection of -x^3) but not along the path
    dict(states=["x", "y"], params=["a", "b"], eqs=["a+y-x*x*x", "b-x-3*y/10"], theta=[0.5, 0.3], x0=[0.0, 0.4],
         times=[0.5, 1.0, 1.5, 2.0], obs=["x", "y"], target=None, weights=None, weight_kind="none",
         y=[[0.45, 0.35], [0.6, 0.2], [0.9, 0.1], [0.7, 0.05]]),
    # a non-linear core (x, y) feeding a chain of two linear compartments (z, w), declared downstream first; the far end observed
    dict(states=["w", "z", "x", "y"], params=["a", "b"], eqs=["z-w", "y-z", "a-x*y", "b+x*y-y"], theta=[0.5, 0.3], x0=[0.2, 0.4, 0.9, 0.5],
         times=[0.5, 1.0, 1.5, 2.0], obs=["w"], target=None, weights=None, weight_kind="none", y=[[0.5], [0.3], [0.6], [0.2]]),
    # one observed state, per-observation weights as a flat vector
    dict(states=["x", "y"], params=["a", "b"], eqs=["-x*y+a", "x*x-y*y+b"], theta=[0.5, 0.3], x0=[0.9, 0.5],
         times=[0.5, 1.0, 1.5, 2.0], obs=["y"], target=None, weights=[1.0, 2.0, 3.0, 0.5], weight_kind="flat",
         y=[[1.45], [1.45], [0.92], [0.91]]),
]
SHAPES_QUICK = [(1, 1), (1, 2), (2, 1), (2, 2), (2, 3), (3, 2), (3, 3), (3, 1)]
SHAPES_MORE = [(1, 3), (4, 2), (2, 4), (4, 3), (3, 4), (4, 1), (5, 2), (4, 4)]


def run_search(ck):
    rng = np.random.default_rng([ck.seed, 2020])
    specs = [dict(c) for c in CORPUS]
    shapes = list(SHAPES_QUICK) + ([] if ck.quick else SHAPES_MORE)
    kinds = ["complete", "xp", "complete", "both", "complete", "pp"]
    reps = ck.budget(2, 8)
    for r in range(reps):
        for n, (s, p) in enumerate(shapes):
            for kind in (kinds[(n + r) % 6], kinds[(n + r + 1) % 6]):
                specs.append(gen_spec(rng, s, p, kind))
    # ordering / weight-shape variants on complete and mixed models
    for r in range(ck.budget(2, 8)):
        specs.append(gen_spec(rng, int(rng.integers(2, 4)), int(rng.integers(2, 4)), ["complete", "xp"][r % 2], order_variant="target"))
        specs.append(gen_spec(rng, int(rng.integers(2, 4)), int(rng.integers(1, 4)), ["complete", "both"][r % 2], order_variant="obs",
                              weight_kind="state"))
    for r in range(ck.budget(1, 3)):
        s = gen_spec(rng, int(rng.integers(1, 4)), int(rng.integers(1, 3)), "complete", weight_kind="none")
        if len(s["obs"]) == 1:
            s["weights"] = [float(rng.choice([0.5, 1.0, 2.0, 3.0])) for _ in s["times"]]
            s["weight_kind"] = "flat"
        specs.append(s)
    if not ck.quick:
        # the default Cython back-end on a tiny subset (one evaluator compile costs 4-10 s): the two smallest corpus models
        specs += [dict(CORPUS[0], backend="cython"), dict(CORPUS[3], backend="cython")]
    dist, worst = {}, {}
    known_hits = 0
    seconds = []
    seq_specs = [dict(CORPUS[1], target=["b"]), dict(CORPUS[1], target=["a"], weights=None, weight_kind="none")] + \
        [sp for sp in specs if sp.get("target") and len(sp["target"]) < len(sp["params"])][:ck.budget(4, 20)]
    for spec in seq_specs:
        ck.case(dict(kind="jtj-sequence", spec=spec), nontrivial=True)
        for cls, what in sequence_check(spec):
            ck.violation(cls, what, dict(kind="jtj-sequence", spec=spec, cls=cls))
    for spec in specs[:ck.budget(8, 40)]:
        ck.case(dict(kind="jtj-omitted-theta", spec=spec), nontrivial=True)
        for cls, what in omitted_theta_check(spec):
            ck.violation(cls, what, dict(kind="jtj-omitted-theta", spec=spec, cls=cls))
    ck.notes["search_sequence_cases"] = len(seq_specs)
    unconfirmed = []
    for spec in specs:
        V, info = check_spec(spec, with_fd=True)
        if info.get("ref_unconfirmed"):
            unconfirmed.append(info["ref_unconfirmed"])
            ck.notes["reference_unconfirmed_inputs"] = unconfirmed[:5]
            if len(unconfirmed) > max(2, len(specs) // 50):
                raise common.InternalError("the reference could not be confirmed on %d inputs: %s" % (len(unconfirmed), unconfirmed[:3]))
            continue
        key = "%s/%dx%d/%s%s" % (info.get("model_class"), len(spec["states"]), len(spec["params"]), spec.get("weight_kind"),
                                 "/" + "+".join(info["order_class"]) if info.get("order_class") else "")
        dist[key] = dist.get(key, 0) + 1
        nontriv = info.get("c_over_scale", 0) >= SEP and (info.get("model_class") == "complete" or info.get("gap_over_scale", 0) >= SEP)
        ck.case(dict(kind="curvature", spec=spec), nontrivial=bool(nontriv))
        for k, v in info.get("err", {}).items():
            if v is not None and not V:
                worst[k] = max(worst.get(k, 0.0), v)
        for cls, what in V:
            if cls == "hessian-mixed-terms-omitted":
                known_hits += 1
            ck.violation(cls, what, dict(kind="curvature", spec=spec, cls=cls))
        # the same loss object at another theta (what an optimiser does): curvature of the cost at THAT theta
        if not [c for c, _ in V if c != "hessian-mixed-terms-omitted"] and _LAST_LOSS[0] is not None and len(seconds) < ck.budget(10, 60):
            pidx = c20ref.selection(spec)[1]
            theta2 = list(spec["theta"])
            for i in pidx:
                theta2[i] = round(theta2[i] * 1.08 + 0.02, 6)      # a nearby point (an optimiser's next iterate)
            spec2 = dict(spec, theta=theta2)
            seconds.append(1)
            try:
                V2, _ = check_spec(spec2, with_fd=False, loss=_LAST_LOSS[0])
            except RuntimeError as e:
                if "reference integration failed" in str(e):       # the shifted theta leaves the region where the model has a solution
                    ck.notes["second_evaluation_reference_failed"] = ck.notes.get("second_evaluation_reference_failed", 0) + 1
                    continue
                V2 = [("second-evaluation-raises", "%s: %s" % (type(e).__name__, str(e)[:200]))]
            except Exception as e:      # noqa: B902
                V2 = [("second-evaluation-raises", "%s: %s" % (type(e).__name__, str(e)[:200]))]
            for cls, what in V2:
                if cls == "hessian-mixed-terms-omitted":
                    known_hits += 1
                    ck.violation(cls, what, dict(kind="curvature", spec=spec2, cls=cls))
                else:
                    ck.violation(cls + "/second-evaluation", "evaluated at theta = %s first, then on the same loss object at %s: %s"
                                 % (spec["theta"], theta2, what), dict(kind="curvature-second", spec=spec, theta2=theta2, cls=cls))
    ck.notes["search_distribution"] = dist
    ck.notes["search_observed_max_relative_error_on_passing_cases"] = worst
    ck.notes["search_known_class_hits"] = known_hits


def replay(ck, data):
    inp = data.get("input")
    if not inp:
        return None
    if inp.get("kind") == "curvature":
        V, _ = check_spec(inp["spec"], with_fd=False)
        want = inp.get("cls")
        for cls, what in V:
            if want is None or cls == want:
                return "[%s] %s" % (cls, what)
        return ("[%s] %s" % V[0]) if V else None
    if inp.get("kind") == "curvature-second":
        check_spec(inp["spec"], with_fd=False)
        V, _ = check_spec(dict(inp["spec"], theta=inp["theta2"]), with_fd=False, loss=_LAST_LOSS[0])
        V = [v for v in V if v[0] != "hessian-mixed-terms-omitted"]
        return ("[%s/second-evaluation] %s" % V[0]) if V else None
    if inp.get("kind") == "jtj-sequence":
        V = sequence_check(inp["spec"])
        return ("[%s] %s" % V[0]) if V else None
    if inp.get("kind") == "jtj-omitted-theta":
        V = omitted_theta_check(inp["spec"])
        return ("[%s] %s" % V[0]) if V else None
    if inp.get("kind") == "jtj-direct":
        W = np.array(inp["W"]).reshape(inp["n"], inp["ns"])
        L = stub_loss(inp["ns"], 1, inp["n"], list(range(inp["ns"])), [0], W.tolist(), np.zeros((inp["n"], inp["ns"])).tolist())
        o = k_jtj_run(inp, L)
        if isinstance(o, tuple):
            return "[jtj-not-gauss-newton] sens_to_jtj raised: %s" % o[1]
        bad = jtj_spec_violation(inp, o)
        return ("[jtj-not-gauss-newton] " + bad) if bad else None
    return None


# ====================================================================== K: exact integer correspondence
def zl(xs):
    return "[" + "; ".join(str(int(x)) if int(x) >= 0 else "(%d)" % int(x) for x in xs) + "]"


def nl(xs):
    return "[" + "; ".join(str(int(x)) for x in xs) + "]%nat"


def as_ints(a):
    a = np.asarray(a, dtype=float)
    r = np.rint(a)
    if not np.array_equal(a, r):
        raise ValueError("non-integer output from integer inputs")
    return r.astype(np.int64)


_STUB = {}
MUTATED = []


def stub_loss(nS, nP, n, sidx, pidx, W, Y):
    """a live SquareLoss on a trivial nS-state nP-parameter model with integer observations/weights"""
    import pg
    from pygom import SquareLoss
    key = (nS, nP)
    if key not in _STUB:
        st = ["x%d" % i for i in range(nS)]
        pa = ["p%d" % k for k in range(nP)]
        odes = [pg.Transition(origin=s, equation="-" + s, transition_type=pg.TransitionType.ODE) for s in st]
        m = pg.model(state=st, param=pa, ode=odes)
        m.parameters = [(p, 1.0) for p in pa]
        _STUB[key] = (m, st, pa)
    m, st, pa = _STUB[key]
    y = np.array(Y, dtype=float).reshape(n, len(sidx))
    if len(sidx) == 1:
        y = y.ravel()
    target = None if pidx == list(range(nP)) else [pa[k] for k in pidx]
    L = SquareLoss(np.ones(len(pidx)), m, np.ones(nS), np.float64(0.0), np.arange(1, n + 1, dtype=float), y,
                   [st[i] for i in sidx], state_weight=np.array(W, dtype=float).reshape(n, len(sidx)), target_param=target)
    return L


def k_hess_run(c):
    """jtj(theta) and hessian(theta) with ode_utils.integrateFuncJac replaced by a stub that returns the integer solution"""
    from pygom.model import ode_utils
    nS, nP, n = c["nS"], c["nP"], c["n"]
    L = stub_loss(nS, nP, n, c["sidx"], c["pidx"], c["W"], c["Y"])
    Z = np.array(c["Z"], dtype=float).reshape(n, nS + nS * nP + nS * nP * nP)
    calls = []

    def stub(func, jac, x0, t0, t, args=(), includeOrigin=False, full_output=False, method=None, nsteps=10000):
        calls.append((getattr(func, "__name__", "?"), getattr(jac, "__name__", "?"), len(x0), len(t), bool(full_output)))
        sol = Z[:, :len(x0)].copy()
        return (sol, {}) if full_output else sol
    orig = ode_utils.integrateFuncJac
    ode_utils.integrateFuncJac = stub
    out = {}
    try:
        th = np.ones(len(c["pidx"]))
        for part, fn in (("jtj", L.jtj), ("hess", L.hessian)):
            try:
                out[part] = as_ints(fn(th))
            except Exception as e:      # noqa: B902
                out[part] = ("raised", "%s: %s" % (type(e).__name__, e))
    finally:
        ode_utils.integrateFuncJac = orig
    out["calls"] = calls
    return out


def k_jtj_run(c, L):
    sens = np.array(c["sens"], dtype=float).reshape(c["n"], c["ns"] * c["nout"])
    keep = sens.copy()
    try:
        r = as_ints(L.sens_to_jtj(sens))
    except Exception as e:      # noqa: B902
        return ("raised", "%s: %s" % (type(e).__name__, e))
    if not np.array_equal(sens, keep):
        # observation, not a disagreement: np.reshape(sens, (n, num_s, num_out), 'F') is a VIEW of a C-contiguous argument, so the
        # loop `sens[:, :, j] *= self._weight` scales the caller's array (BaseLoss itself always passes a fancy-indexed copy)
        MUTATED.append(1)
    return r


def jtj_spec_violation(c, got):
    """the property on sens_to_jtj, stated directly: with per-(time, state) weights W and sensitivities d x_s(t_n) / d theta_j
    (column s + ns*j), the Gauss-Newton matrix is  sum_{n,s} W[n,s]^2 * outer(d x_s(t_n), d x_s(t_n))  (integers here: exact)"""
    ns, nout, n = c["ns"], c["nout"], c["n"]
    W = np.array(c["W"], dtype=np.int64).reshape(n, ns)
    S = np.array(c["sens"], dtype=np.int64).reshape(n, ns * nout)
    want = np.zeros((nout, nout), dtype=np.int64)
    for i in range(n):
        for st in range(ns):
            g = np.array([S[i, st + ns * j] for j in range(nout)], dtype=np.int64)
            want += W[i, st] ** 2 * np.outer(g, g)
    got = np.asarray(got)
    if got.shape != want.shape or not np.array_equal(got, want):
        return ("sens_to_jtj on integer sensitivities (%d times, %d states, %d parameters) returns %s; the weighted Gauss-Newton "
                "matrix sum_n,s w^2 g g^T is %s" % (n, ns, nout, got.tolist(), want.tolist()))
    return None


def k_ff_run(c):
    """the real ode_and_forwardforward with integer stubs for the evaluators"""
    import c13
    nS, nP, t = c["nS"], c["nP"], 0.5
    m = c13.stub_model(nS, nP)
    bad = []
    z = np.array(c["z"], dtype=np.int64)

    def stub(name, arr, shape):
        Aa = np.array(arr, dtype=np.int64).reshape(shape)

        def fn(state, tt):
            if not (np.array_equal(np.asarray(state), z[:nS]) and tt == t):
                bad.append(name)
            return Aa.copy()
        return fn
    m.ode = stub("ode", c["f"], (nS,))
    m.jacobian = stub("jacobian", c["J"], (nS, nS))
    m.grad = stub("grad", c["G"], (nS, nP))
    m.diff_jacobian = stub("diff_jacobian", c["DJ"], (nS * nS, nS))

    def forbidden(name):
        def fn(*a, **k):
            bad.append("reads " + name)
            raise RuntimeError("unexpected evaluator " + name)
        return fn
    try:
        r = as_ints(m.ode_and_forwardforward(z.copy(), t))
        r2 = as_ints(m.ode_and_forwardforward_T(t, z.copy()))
        if not np.array_equal(r, r2):
            return ("raised", "ode_and_forwardforward_T differs"), bad
        return r, bad
    except Exception as e:      # noqa: B902
        return ("raised", "%s: %s" % (type(e).__name__, e)), bad


COQ_HEAD = """From Coq Require Import List ZArith Bool.
From PV Require Import Util Shapes Sens Curv FF CurvCases Gen.SensGen Gen.CurvGen.
Import ListNotations. Open Scope Z_scope.
"""


def run_K(ck):
    rng = np.random.default_rng([ck.seed, 20])
    disagree = []
    files = []
    iv = lambda lo, hi, *sh: rng.integers(lo, hi + 1, size=sh)
    # ---- K1: sens_to_jtj on integer arrays
    jc, jo = [], []
    shapes = [(s, o, n) for s in range(1, 5) for o in range(1, 5) for n in (1, 3)]
    shapes += [(int(rng.integers(1, 5)), int(rng.integers(1, 6)), int(rng.integers(1, 6))) for _ in range(ck.budget(60, 600))]
    for (ns, nout, n) in shapes:
        if ns >= 2:
            n = max(n, 2)       # one observation time with several observed states cannot be constructed (Square flattens the 1 x p weights)
        W = iv(0, 3, n, ns)
        if not W.any():
            W[0, 0] = 1
        L = stub_loss(ns, 1, n, list(range(ns)), [0], W.tolist(), iv(-3, 3, n, ns).tolist())
        c = dict(ns=ns, nout=nout, n=n, W=W.ravel().tolist(), sens=iv(-4, 4, n, ns * nout).ravel().tolist())
        o = k_jtj_run(c, L)
        jc.append(c); jo.append(o)
        ck.case(dict(kind="K-jtj", **c), nontrivial=(ns >= 2 and nout >= 2 and n >= 2))
        if isinstance(o, tuple):
            disagree.append(("sens_to_jtj", c, o[1]))
        else:
            bad = jtj_spec_violation(c, o)
            if bad:
                ck.violation("jtj-not-gauss-newton", bad, dict(kind="jtj-direct", **c))
    body = ";\n ".join("JC %d %d %d %s %s %s" % (c["ns"], c["n"], c["nout"], zl(c["W"]), zl(c["sens"]),
                                                 zl(o.ravel()) if not isinstance(o, tuple) else "[]") for c, o in zip(jc, jo))
    files.append(("c20_jtj", COQ_HEAD + "Definition cases : list jcase := [\n " + body +
                  "].\nEval vm_compute in failing (chk_j code_jfacts) cases.\n"))
    # ---- K2: jtj(theta) / hessian(theta) on a stubbed integer solution (selection in and out of order)
    hc, ho = [], []
    nh = ck.budget(70, 500)
    for q in range(nh):
        nS, nP, n = int(rng.integers(1, 4)), int(rng.integers(1, 5 if q % 5 == 0 else 4)), int(rng.integers(1, 5))
        p = int(rng.integers(1, nS + 1))
        if p >= 2:
            n = max(n, 2)
        sidx = rng.choice(nS, size=p, replace=False).tolist()
        if q % 3:
            sidx = sorted(sidx)
        k = int(rng.integers(1, nP + 1))
        pidx = rng.choice(nP, size=k, replace=False).tolist()
        if q % 4:
            pidx = sorted(pidx)
        if q % 2 == 0:
            pidx = list(range(nP))
        W = iv(0, 3, n, p)
        if not W.any():
            W[0, 0] = 2
        c = dict(nS=nS, nP=nP, n=n, sidx=sidx, pidx=pidx, W=W.ravel().tolist(), Y=iv(-3, 3, n, p).ravel().tolist(),
                 Z=iv(-3, 3, n, nS + nS * nP + nS * nP * nP).ravel().tolist())
        o = k_hess_run(c)
        hc.append(c); ho.append(o)
        ck.case(dict(kind="K-hessian", **c), nontrivial=(nS >= 2 and nP >= 2 and p >= 2))
        want = [("ode_and_sensitivity_T", "ode_and_sensitivity_jacobian_T", nS + nS * nP, n, True),
                ("ode_and_forwardforward_T", "ode_and_forwardforward_jacobian_T", nS + nS * nP + nS * nP * nP, n, False)]
        if o["calls"] != want:
            disagree.append(("integration route", c, "integrateFuncJac called as %s, expected %s" % (o["calls"], want)))
        for part in ("jtj", "hess"):
            if isinstance(o[part], tuple):
                disagree.append((part + "(theta)", c, o[part][1]))
    shard = max(5, -(-len(hc) // 8))
    for s0 in range(0, len(hc), shard):
        body = ";\n ".join("HC %d %d %s %s %d %s %s %s %s %s" % (
            c["nS"], c["nP"], nl(c["sidx"]), nl(c["pidx"]), c["n"], zl(c["W"]), zl(c["Y"]), zl(c["Z"]),
            zl(o["jtj"].ravel()) if not isinstance(o["jtj"], tuple) else "[]",
            zl(o["hess"].ravel()) if not isinstance(o["hess"], tuple) else "[]") for c, o in zip(hc[s0:s0 + shard], ho[s0:s0 + shard]))
        files.append(("c20_hess_%d" % (s0 // shard), COQ_HEAD + "Definition cases : list hcase := [\n " + body +
                      "].\nEval vm_compute in failing_h code_jfacts code_hfacts cases.\n"))
    # ---- K3: ode_and_forwardforward with integer-stubbed evaluators
    fc, fo = [], []
    fshapes = [(s, p) for s in range(1, 4) for p in range(1, 4)]
    fshapes += [(int(rng.integers(1, 5)), int(rng.integers(1, 4))) for _ in range(ck.budget(40, 400))]
    for (nS, nP) in fshapes:
        c = dict(nS=nS, nP=nP, f=iv(-3, 3, nS).tolist(), J=iv(-3, 3, nS * nS).tolist(), G=iv(-3, 3, nS * nP).tolist(),
                 DJ=iv(-3, 3, nS * nS * nS).tolist(), z=iv(-3, 3, nS + nS * nP + nS * nP * nP).tolist())
        o, bad = k_ff_run(c)
        fc.append(c); fo.append(o)
        ck.case(dict(kind="K-ff", **c), nontrivial=(nS >= 2 and nP >= 2))
        if bad:
            disagree.append(("ode_and_forwardforward", c, "evaluators called with another (state, t): %s" % sorted(set(bad))))
        if isinstance(o, tuple):
            disagree.append(("ode_and_forwardforward", c, o[1]))
    fshard = max(5, -(-len(fc) // 6))
    for s0 in range(0, len(fc), fshard):
        body = ";\n ".join("FC %d %d %s %s %s %s %s %s" % (c["nS"], c["nP"], zl(c["f"]), zl(c["J"]), zl(c["G"]), zl(c["DJ"]), zl(c["z"]),
                                                          zl(o) if not isinstance(o, tuple) else "[]")
                           for c, o in zip(fc[s0:s0 + fshard], fo[s0:s0 + fshard]))
        files.append(("c20_ff_%d" % (s0 // fshard), COQ_HEAD + "Definition cases : list fcase := [\n " + body +
                      "].\nEval vm_compute in failing (chk_f code_fffacts SensGen.code_facts) cases.\n"))
    t0 = time.time()
    res = ck.coq_eval_many(files)
    ck.notes["K_coq_wall_s"] = round(time.time() - t0, 1)
    for i in common.parse_int_list(res["c20_jtj"][0]):
        if not isinstance(jo[i], tuple):
            disagree.append(("sens_to_jtj", jc[i], "model and implementation differ"))
    for s0 in range(0, len(hc), shard):
        for code in common.parse_int_list(res["c20_hess_%d" % (s0 // shard)][0]):
            i, part = s0 + code // 10, {1: "jtj", 2: "hess"}[code % 10]
            if not isinstance(ho[i][part], tuple):
                disagree.append((part + "(theta) on a stubbed integer solution", hc[i], "model and implementation differ"))
    for s0 in range(0, len(fc), fshard):
        for i in common.parse_int_list(res["c20_ff_%d" % (s0 // fshard)][0]):
            if not isinstance(fo[s0 + i], tuple):
                disagree.append(("ode_and_forwardforward", fc[s0 + i], "model and implementation differ"))
    ck.notes["correspondence_cases"] = dict(sens_to_jtj=len(jc), jtj_hessian_stubbed=len(hc), ode_and_forwardforward=len(fc))
    ck.notes["correspondence_disagreements"] = len(disagree)
    if MUTATED:
        ck.notes["observation_sens_to_jtj_mutates_argument"] = (
            "%d of %d direct calls of the public sens_to_jtj(sens) left the caller's array multiplied by the weights (the 'F' reshape "
            "is a view; internal callers pass a fancy-indexed copy, so jtj/hessian are unaffected)" % (len(MUTATED), len(jc)))
    if disagree:
        what, c, why = disagree[0]
        ck.broken.append(dict(theorem="correspondence Curv/FF model vs pygom (%s: %s)" % (what, why), file="c20_cases",
                              error="%d disagreement(s); first on case %s" % (len(disagree), json.dumps(c))))


# ====================================================================== driver
# obligations of Props/C20.v that are about facts which the pinned tree gets wrong, by the search class that exhibits them
ORDER_OBLIGATIONS = ("C20_selection_facts", "C20_jtj_selected", "C20_hessian")
SIGN_OBLIGATIONS = ("C20_hessian_facts", "C20_hessian")


def run(ck):
    import gen_curv, gen_sens
    ck.rule = ("K: integer arrays in [-4,4], integer weights in [0,3]; sens_to_jtj for every (num_s, num_out) in [1,4]^2 and random "
               "shapes; jtj/hessian on a stubbed integer solution for random nS in [1,3], nP in [1,4], observed-state and target-parameter "
               "selections in and out of declaration order; ode_and_forwardforward on integer-stubbed evaluators, nS in [1,4], nP "
               "in [1,3]; non-trivial = at least 2 states/outputs and 2 parameters.  Search: generated ODE models with saturating "
               "state-only non-linearities and (a) additive parameters ('complete': all mixed second derivatives vanish) or (b) "
               "parameter*state / parameter*parameter products ('mixed'), 3-6 observation times, random observed-state subsets, "
               "target-parameter subsets, weights none/scalar/per-state/per-observation matrix, data = model at a shifted parameter "
               "+ noise 0.25; non-trivial = residual-curvature term >= 1e-3 of the Hessian scale (and, for mixed models, the omitted "
               "part too); distinct by canonical JSON hash")
    ok = ck.coq_build("C20", [("SensGen", gen_sens.generate()), ("CurvGen", gen_curv.generate())],
                      extra=("Util.vo", "Shapes.vo", "Sens.vo", "Curv.vo", "FF.vo", "CurvCases.vo", "Gen/SensGen.vo", "Gen/CurvGen.vo"))
    common.name_assumptions(ck, "C20")
    if ok and not ck.quick:
        # independent re-check of the compiled proofs (thorough tier only)
        cmd = "timeout 900 coqchk -silent -o -R . PV PV.Props.C20"
        ck.checker_cmds.append("cd /verif/coq && " + cmd)
        rc, out = common.sh(cmd, cwd=common.COQ, timeout=1000)
        ck.notes["coqchk"] = out[-600:]
        if rc != 0 or "* Axioms: <none>" not in out:
            ck.broken.append(dict(theorem="coqchk Props/C20.vo", file="Props/C20.vo", error=out[-1200:]))
    run_K(ck)
    run_search(ck)
    ck.notes["tolerances"] = dict(
        K="exact (integers)",
        jtj_hessian_vs_reference="%g * (1 + max|reference|); pygom integrates at rtol=atol=1e-10, the reference at 1e-12; observed "
                                 "<= 5e-10 on the repaired tree; a flipped sign / dropped term moves entries by >= 1e-3 of the scale on "
                                 "non-trivial cases" % TOL,
        finite_differences="%g * scale for Richardson differences (h = 2e-3, h/2) of the real gradient; second differences of the "
                           "reference cost only guard the reference itself (1e-3)" % TOL_FD,
        symmetry="%g * scale" % SYM_TOL, psd="eigenvalues >= -%g * scale" % PSD_TOL,
        class_decision="known class: model symbolically mixed AND |H - H_incomplete| <= tol AND |H - H_true| > tol; sign/weight classes are "
                       "named only when the residual-curvature term is >= %g * scale" % DECIDE)
    ck.assumptions += [
        "numpy reshape/dot/fancy-indexing and scipy.sparse.kron semantics as transcribed in Shapes.v/Curv.v/FF.v (validated by the exact "
        "K comparison on every run)",
        "the evaluators jacobian/grad/diff_jacobian are the true derivatives of the model (property C03) and the first-order system is "
        "the variational equation (C13); here they are abstract tensors in Coq and checked end to end by the search",
        "the integrators return the solution of the system they are given (C02); in K the integrator is replaced by a stub",
        "hess_spec is the second derivative of the square-loss cost by the chain rule, given that the columns of the solution are the "
        "state, its first and its second parameter derivatives; existence of these derivatives is not proved",
        "distinct observed states (state_name has no repeated name) in the Hessian theorem",
        "search oracle: sympy differentiation of the rate strings written by the generator (not pygom's equations), scipy DOP853",
    ]
