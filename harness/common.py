"""Shared machinery of the pygom verification checks (see DESIGN.md section 2).

Every check is a module harness/cNN.py exposing
    run(ck)            -- the check proper (translators, Coq build, correspondence, search)
    replay(ck, data)   -- re-run one recorded input against the real code
and is driven by harness/run_check.py through the Check object below.
"""
import fcntl
import hashlib
import json
import os
import re
import subprocess
import sys
import time
import traceback

VERIF = os.path.dirname(os.path.dirname(os.path.abspath(__file__)))
COQ = os.path.join(VERIF, "coq")
REPO = os.environ.get("PYGOM_REPO", "/repo")
SRC = os.path.join(REPO, "src", "pygom")
WORK = os.path.join(VERIF, ".work")

STD_AXIOMS = {
    "ClassicalDedekindReals.sig_forall_dec", "ClassicalDedekindReals.sig_not_dec",
    "FunctionalExtensionality.functional_extensionality_dep", "Classical_Prop.classic",
}

STATIC_TRUSTED = [
    "Coq 8.16.1 kernel and its bytecode VM (vm_compute); no native_compute; no extraction",
    "translators /verif/gen/*.py (Python ast -> Coq text, fail-closed) and the restricted-subset semantics they assume",
    "correspondence harness /verif/harness/*.py: pygom driver, case emitter, Coq output parser, differ, tolerances",
    "external engines modelled not verified: sympy (parse/diff/lambdify/autowrap), scipy integrators and stats, numpy RNG, L-BFGS-B, CPython",
]


class InternalError(Exception):
    pass


def sh(cmd, timeout=1800, cwd=None, env=None):
    p = subprocess.run(cmd, shell=isinstance(cmd, str), cwd=cwd, env=env, timeout=timeout,
                       stdout=subprocess.PIPE, stderr=subprocess.STDOUT, text=True)
    return p.returncode, p.stdout


def canon_hash(obj):
    return hashlib.sha1(json.dumps(obj, sort_keys=True, default=str).encode()).hexdigest()[:16]


class Check:
    def __init__(self, pid, tier, seed):
        self.pid, self.tier, self.seed = pid, tier, seed
        self.t0 = time.time()
        self.violations = []       # dicts: cls, what, input, broken
        self.known_hits = []
        self.obligations = []      # names (theorems + generated obligations)
        self.discharged = []
        self.axioms = {}           # theorem -> list of axioms / "closed"
        self.checker_cmds = []
        self.evaluations = 0
        self.nontrivial = set()
        self.samples = []
        self.notes = {}
        self.assumptions = []
        self.broken = []           # names of theorems / correspondences that no longer check
        self.rule = ""
        self.last_case = None
        self.work = os.path.join(WORK, pid)
        os.makedirs(self.work, exist_ok=True)
        self.quick = tier == "quick"

    # ------------------------------------------------------------------ bookkeeping
    def case(self, obj, nontrivial=True, sample_cap=6):
        """count one evaluated case; obj is a JSON-able description used for distinctness"""
        self.evaluations += 1
        self.last_case = obj
        if nontrivial:
            h = canon_hash(obj)
            if h not in self.nontrivial:
                self.nontrivial.add(h)
                if len(self.samples) < sample_cap:
                    self.samples.append(obj)

    def violation(self, cls, what, inp, broken=None):
        v = dict(cls=cls, what=what, input=inp)
        if broken:
            v["broken"] = broken
        # de-duplicate by class: one replay per class is enough
        for w in self.violations:
            if w["cls"] == cls:
                w.setdefault("more", 0)
                w["more"] += 1
                return
        self.violations.append(v)

    def budget(self, quick, thorough):
        return quick if self.quick else thorough

    # ------------------------------------------------------------------ Coq
    def write_gen(self, name, text):
        """write coq/Gen/<name>.v only when its content changed (keeps make incremental)"""
        path = os.path.join(COQ, "Gen", name + ".v")
        old = open(path).read() if os.path.exists(path) else None
        if old != text:
            tmp = path + ".tmp%d" % os.getpid()
            with open(tmp, "w") as f:
                f.write(text)
            os.replace(tmp, path)
        return path

    def coq_build(self, props_file, gens=(), extra=("Util.vo",)):
        """regenerate Gen files, rebuild coq/Props/<props_file>.vo with make (full .vo build).
        gens: list of (name, text).  Returns True when every obligation compiled."""
        theorems = parse_theorems(os.path.join(COQ, "Props", props_file + ".v"))
        self.obligations += theorems
        lock = open(os.path.join(VERIF, ".lock"), "w")
        fcntl.flock(lock, fcntl.LOCK_EX)
        try:
            for name, text in gens:
                self.write_gen(name, text)
            ensure_makefile()
            target = "Props/%s.vo" % props_file
            try:
                os.remove(os.path.join(COQ, target))
            except FileNotFoundError:
                pass
            cmd = "timeout 1500 make -k -j16 %s %s" % (" ".join(extra), target)
            self.checker_cmds.append("cd /verif/coq && " + cmd)
            rc, out = sh(cmd, cwd=COQ, timeout=1600)
        finally:
            fcntl.flock(lock, fcntl.LOCK_UN)
            lock.close()
        self.notes.setdefault("coq_log_tail", {})[props_file] = out[-1500:]
        ax = parse_assumptions(out)
        self.axioms.update(ax)
        if rc == 0:
            self.discharged += theorems
            return True
        # which obligation broke?
        m = re.search(r'File "\./(\S+?)", line (\d+)', out)
        err = out[-1200:]
        if m and m.group(1) == "Props/%s.v" % props_file:
            line = int(m.group(2))
            done = theorems_before(os.path.join(COQ, "Props", props_file + ".v"), line)
            self.discharged += done
            failed = [t for t in theorems if t not in done]
            self.broken.append(dict(theorem=failed[0] if failed else props_file, file=m.group(1), error=err))
        else:
            self.broken.append(dict(theorem="%s (dependency %s)" % (props_file, m.group(1) if m else "?"),
                                    file=m.group(1) if m else "?", error=err))
        return False

    def coq_eval(self, name, text, timeout=600):
        """compile a scratch file importing the models; returns the list of printed values
        (one per Eval/Compute), whitespace-normalised."""
        path = os.path.join(self.work, name + ".v")
        with open(path, "w") as f:
            f.write("Set Printing Width 1000000.\nSet Printing Depth 1000000.\n" + text)
        cmd = "timeout %d coqc -R %s PV %s" % (timeout, COQ, path)
        if "coqc -R /verif/coq PV <cases>.v" not in self.checker_cmds:
            self.checker_cmds.append("coqc -R /verif/coq PV <cases>.v")
        rc, out = sh(cmd, cwd=self.work, timeout=timeout + 30)
        if rc != 0:
            raise InternalError("coq_eval %s failed:\n%s" % (name, out[-2000:]))
        return parse_evals(out)

    def coq_eval_many(self, files, timeout=600):
        """files: list of (name, text); compiled in parallel; returns dict name -> values"""
        from concurrent.futures import ThreadPoolExecutor
        with ThreadPoolExecutor(max_workers=16) as ex:
            futs = {n: ex.submit(self.coq_eval, n, t, timeout) for n, t in files}
            return {n: f.result() for n, f in futs.items()}

    # ------------------------------------------------------------------ finish
    def finish(self):
        known = load_known()
        real = []
        for v in self.violations:
            k = match_known(self.pid, v, known)
            if k is not None:
                self.known_hits.append((k, v))
            else:
                real.append(v)
        # a broken obligation with no concrete failing input is still a violation
        if self.broken and not real:
            for b in self.broken:
                real.append(dict(cls="broken-obligation", what="proof obligation or correspondence no longer checks: %s"
                                 % b.get("theorem"), input=None, broken=b, nofail=True))
        lines = []
        for k, v in self.known_hits:
            lines.append("KNOWN-FINDING: property=%s %s" % (self.pid, k["what"]))
        os.makedirs(os.path.join(VERIF, "replays", self.pid), exist_ok=True)
        for v in real:
            if self.broken and "broken" not in v:
                v["broken"] = self.broken
            path = os.path.join(VERIF, "replays", self.pid, "%s.json" % canon_hash(v))
            with open(path, "w") as f:
                json.dump(dict(property=self.pid, **v), f, indent=1, default=str)
            tail = " no-failing-input-found" if v.get("nofail") else ""
            lines.append("VIOLATION property=%s replay=%s%s" % (self.pid, path, tail))
        self.write_evidence(len(real))
        for l in lines:
            print(l)
        for v in real:
            print("  -> [%s] %s" % (v["cls"], v["what"]))
        sys.stdout.flush()
        return 1 if real else 0

    def write_evidence(self, nviol):
        tb = list(STATIC_TRUSTED)
        axs = set()
        for t, a in sorted(self.axioms.items()):
            if a == "closed":
                tb.append("Print Assumptions %s: Closed under the global context" % t)
            else:
                tb.append("Print Assumptions %s: %s" % (t, ", ".join(a)))
                axs.update(a)
        own = [a for a in axs if a not in STD_AXIOMS and not a.startswith(("Coq.", "Reals.", "Rdefinitions", "Raxioms"))]
        cov = dict(
            obligations=len(self.obligations), discharged=len(self.discharged),
            obligation_names=self.obligations,
            checker_cmd=" ; ".join(self.checker_cmds) or "none",
            trusted_base=tb,
            evaluations=self.evaluations, distinct_nontrivial=len(self.nontrivial),
            rule=self.rule, samples=self.samples[:8],
            broken=self.broken,
            known_findings_hit=[k["what"] for k, _ in self.known_hits],
            non_stdlib_axioms=own,
        )
        cov.update(self.notes)
        ev = dict(property_id=self.pid, tier=self.tier, seed=self.seed, level="proof", coverage=cov,
                  assumptions=self.assumptions, wall_s=round(time.time() - self.t0, 2), violations=nviol)
        os.makedirs(os.path.join(VERIF, "evidence"), exist_ok=True)
        with open(os.path.join(VERIF, "evidence", self.pid + ".json"), "w") as f:
            json.dump(ev, f, indent=1, default=str)


# ---------------------------------------------------------------------- Coq helpers
def ensure_makefile():
    mk = os.path.join(COQ, "Makefile")
    cp = os.path.join(COQ, "_CoqProject")
    if not os.path.exists(mk) or os.path.getmtime(mk) < os.path.getmtime(cp):
        rc, out = sh("coq_makefile -f _CoqProject -o Makefile", cwd=COQ)
        if rc != 0:
            raise InternalError("coq_makefile failed: " + out)


def parse_theorems(path):
    return re.findall(r'^\s*Theorem\s+(\w+)', open(path).read(), flags=re.M)


def theorems_before(path, line):
    """theorems whose Qed lies strictly before `line`"""
    done, cur = [], None
    for i, l in enumerate(open(path).read().split("\n"), 1):
        if i >= line:
            break
        m = re.match(r'\s*Theorem\s+(\w+)', l)
        if m:
            cur = m.group(1)
        if re.search(r'\bQed\.', l) and cur:
            done.append(cur)
            cur = None
    return done


def parse_assumptions(out):
    """Print Assumptions output in order; we tag each with the name printed via
    a preceding `(*PA name*)` idiom: Props files use `Print Assumptions name.` so coqc prints
    either 'Closed under the global context' or 'Axioms:' followed by indented lines."""
    res = {}
    blocks = re.split(r'(?m)^(?=Closed under the global context|Axioms:)', out)
    idx = 0
    for b in blocks:
        if b.startswith("Closed under the global context"):
            res["#%d" % idx] = "closed"
            idx += 1
        elif b.startswith("Axioms:"):
            names = re.findall(r'(?m)^([A-Za-z_][\w.\']*)\s*$|^([A-Za-z_][\w.\']*)\s+:', b[len("Axioms:"):])
            res["#%d" % idx] = sorted(set(a or c for a, c in names))
            idx += 1
    return res


def name_assumptions(ck, props_file):
    """replace the positional keys '#k' by the theorem names in the order of Print Assumptions commands"""
    names = re.findall(r'Print Assumptions\s+(\w+)', open(os.path.join(COQ, "Props", props_file + ".v")).read())
    new = {}
    for k, v in list(ck.axioms.items()):
        if k.startswith("#"):
            i = int(k[1:])
            new[names[i] if i < len(names) else k] = v
            del ck.axioms[k]
    ck.axioms.update(new)


def parse_evals(out):
    vals = []
    for m in re.finditer(r'(?s)^\s*= (.*?)\n\s*: ', out, flags=re.M):
        vals.append(re.sub(r'\s+', ' ', m.group(1)).strip())
    return vals


# ---------------------------------------------------------------------- known findings
def load_known():
    p = os.path.join(VERIF, "known_findings.json")
    if not os.path.exists(p):
        return []
    return json.load(open(p)).get("findings", [])


def match_known(pid, v, known):
    for k in known:
        if k.get("property") == pid and k.get("status") == "known" and k.get("match", {}).get("cls") == v["cls"]:
            return k
    return None


# ---------------------------------------------------------------------- Coq literal emitters
def q_lit(fr):
    """fractions.Fraction -> Coq Q literal text (to be used under Q2Qc)"""
    return "(%d # %d)" % (fr.numerator, fr.denominator)


def z_lit(n):
    return "(%d)%%Z" % int(n)


def coq_list(items):
    return "[" + "; ".join(items) + "]"


def nat_list(xs):
    return coq_list(str(int(x)) for x in xs) + "%nat"


def z_list(xs):
    return "[" + "; ".join(str(int(x)) if int(x) >= 0 else "(%d)" % int(x) for x in xs) + "]%Z"


def pygom_env():
    """import pygom from the current /repo tree"""
    p = os.path.join(REPO, "src")
    if p not in sys.path:
        sys.path.insert(0, p)


def parse_int_list(v):
    """'[1; 2%nat; (-3)%Z]' -> [1, 2, -3]"""
    v = re.sub(r'%\w+', '', v).replace("(", "").replace(")", "")
    return [int(x) for x in v.strip().strip("[]").split(";") if x.strip()]
