"""C07 — the gradient handed to optimisers is the derivative of cost.

T      : gen/gen_grad.py regenerates Gen/GradGen.v (index loop nests, np.sort, index expressions, reshape order, the
         container _getTargetStateIndex builds, wiring of sensitivity/jac/sensitivityIV/jacIV, loss kernels over R);
         Props/C07.v is rebuilt against it.
K      : a live SquareLoss object on a stub model; ode_utils.integrateFuncJac is replaced by a stub returning a random
         INTEGER array, diff_loss by an integer affine kernel; the real _getTargetParamIndex, _getTargetStateIndex,
         _getTargetParamSensIndex, _getTargetStateSensIndex, sens_to_grad, sensitivity (both output modes), gradient,
         jac, sensitivityIV (both output modes), jacIV run on it; the Coq model (Grad.v at Z with the extracted
         facts) computes the same; exact comparison (exceptions included).
search : harness/c07_search.py — real models, five loss classes, orders / subsets / weights, against central
         finite differences of cost / costIV with Richardson extrapolation.
"""
import json, os, sys, time
import numpy as np
import common
sys.path.insert(0, os.path.join(common.VERIF, "gen"))
import c07_search as S

ORDER_OBLIGATIONS = ("C07_order_facts", "C07_chain", "C07_jac_layout", "C07_chain_IV", "C07_cost_derivative", "C07_costIV_derivative")
TSTATE_OBLIGATIONS = ("C07_target_state_facts",)
PARTS = {1: "_getTargetParamIndex", 2: "_getTargetStateIndex", 3: "_getTargetParamSensIndex", 4: "_getTargetStateSensIndex",
         5: "sens_to_grad", 6: "sensitivity(theta) / gradient(theta)", 7: "sensitivity(theta, full_output=True)", 8: "jac(theta)",
         9: "sensitivityIV(theta_x0)", 10: "jacIV(theta_x0)"}


# ====================================================================== K: integer stubs
def stub_model(nS, nP):
    import pg
    st = ["x%d" % i for i in range(nS)]
    pa = ["p%d" % k for k in range(nP)]
    odes = [pg.Transition(origin=s, equation="-" + s, transition_type=pg.TransitionType.ODE) for s in st]
    m = pg.model(state=st, param=pa, ode=odes)
    m.parameters = [(p, 1.0) for p in pa]
    return m


def k_inputs(rng, nS, nP):
    n = int(rng.integers(2, 5))     # a single observation time of several states is rejected by the loss_type constructors
    ns = int(rng.integers(1, nS + 1))
    st = [int(i) for i in rng.permutation(nS)[:ns]]
    if rng.random() < 0.25:
        st = sorted(st)
    tp = None if rng.random() < 0.3 else [int(i) for i in rng.permutation(nP)[:int(rng.integers(1, nP + 1))]]
    ts = None if rng.random() < 0.45 else [int(i) for i in rng.permutation(nS)[:int(rng.integers(1, nS + 1))]]
    if ts is None and tp is not None and len(tp) + nS == nP:
        tp = None           # a vector of that length is rejected by _setParamStateInput (explicit InputError)
    iv = lambda lo, hi, *sh: rng.integers(lo, hi, size=sh)
    q = int(rng.integers(1, 4))
    wform = str(rng.choice(["full", "full", "state", "scalar", "flat"]))
    if wform == "flat" and ns != 1:
        wform = "full"
    if wform == "full" or wform == "flat":
        w = iv(1, 4, n, ns)
    elif wform == "state":
        w = np.ones((n, 1), dtype=np.int64) * iv(1, 4, ns)
        if ns == 1:
            wform = "scalar"
    else:
        w = np.ones((n, ns), dtype=np.int64) * int(rng.integers(1, 4))
    return dict(nS=nS, nP=nP, n=n, st=st, tp=tp, ts=ts, wform=wform,
                sol=iv(-3, 4, n, nS + nS * nP + nS * nS).tolist(), w=w.tolist(),
                dA=iv(-2, 3, n, ns).tolist(), dB=iv(-2, 3, n, ns).tolist(),
                q=q, sens=iv(-3, 4, n, ns * q).tolist(), dl=iv(-3, 4, n, ns).tolist(),
                y=iv(1, 9, n, ns).tolist())


def as_ints(a):
    a = np.asarray(a, dtype=float)
    r = np.rint(a)
    if not np.array_equal(a, r):
        raise ValueError("non-integer output from integer inputs")
    return r.astype(np.int64)


def k_run(c):
    """the real methods on stubbed integrator / kernel; dict part -> observed value or ('raised', text)"""
    import pg, pygom
    from pygom.loss import base_loss
    nS, nP, n = c["nS"], c["nP"], c["n"]
    st, tp, ts = c["st"], c["tp"], c["ts"]
    ns = len(st)
    m = stub_model(nS, nP)
    sn = ["x%d" % i for i in st]
    W = np.array(c["w"], dtype=float)
    if c["wform"] == "state":
        wt = W[0].tolist()
    elif c["wform"] == "scalar":
        wt = float(W[0, 0])
    elif c["wform"] == "flat":
        wt = W[:, 0].tolist()
    else:
        wt = W.tolist()
    y = np.array(c["y"], dtype=float)
    out = {"bad_args": []}
    try:
        with pg.quiet():
            obj = pygom.SquareLoss([1.0] * (nP if tp is None else len(tp)), m, [1.0] * nS, 0.0, np.arange(1, n + 1, dtype=float),
                                   y[:, 0] if ns == 1 else y, sn[0] if ns == 1 else sn, state_weight=wt,
                                   target_param=None if tp is None else ["p%d" % k for k in tp],
                                   target_state=None if ts is None else ["x%d" % k for k in ts])
    except Exception as e:      # noqa: B902
        out["constructor"] = ("raised", "%s: %s" % (type(e).__name__, e))
        return out
    SOL = np.array(c["sol"], dtype=float)
    A, B = np.array(c["dA"], dtype=float), np.array(c["dB"], dtype=float)

    def stub_int(func, jac, x0, t0, t, args=(), includeOrigin=False, full_output=False, method=None, nsteps=10000):
        x0 = np.asarray(x0, dtype=float)
        x_now = np.asarray(obj._x0, dtype=float)
        if len(x0) == nS + nS * nP:
            want, sol = np.concatenate([x_now, np.zeros(nS * nP)]), SOL[:, :nS + nS * nP]
            okf = func == m.ode_and_sensitivity_T and jac == m.ode_and_sensitivity_jacobian_T
        elif len(x0) == nS + nS * nP + nS * nS:
            want, sol = np.concatenate([x_now, np.zeros(nS * nP), np.eye(nS).ravel(order="F")]), SOL
            okf = func == m.ode_and_sensitivityIV_T and jac == m.ode_and_sensitivityIV_jacobian_T
        else:
            want, sol, okf = None, SOL, False
        if want is None or not np.array_equal(x0, want) or not okf or t0 != 0.0 or not np.array_equal(np.asarray(t), np.arange(1, n + 1)):
            out["bad_args"].append("integrateFuncJac called with unexpected system / initial state / time grid")
        return (sol.copy(), {"in": "stub"}) if full_output else sol.copy()

    def stub_dl(yhat, apply_weighting=True):
        yhat = np.asarray(yhat, dtype=float)
        if yhat.shape != (n, ns):
            out["bad_args"].append("diff_loss called on shape %s, expected %s" % (yhat.shape, (n, ns)))
        r = A * yhat.reshape(n, ns) + B
        return r.ravel() if ns == 1 else r

    def call(part, fn):
        try:
            with pg.quiet():
                out[part] = as_ints(fn())
        except Exception as e:      # noqa: B902
            out[part] = ("raised", "%s: %s" % (type(e).__name__, e))

    def ident(fn):
        try:
            return fn()
        except Exception as e:      # noqa: B902
            return ("raised", "%s: %s" % (type(e).__name__, e))
    out["tpi"] = ident(lambda: [int(v) for v in obj._getTargetParamIndex()])
    tsi = ident(lambda: list(obj._getTargetStateIndex()))
    if isinstance(tsi, tuple):
        out["tsi"], out["tsi_nested"] = tsi, False
    else:
        nested = [isinstance(v, (list, tuple, np.ndarray)) for v in tsi]
        out["tsi_nested"] = bool(nested) and all(nested)
        try:
            out["tsi"] = [int(v[0]) if isinstance(v, (list, tuple, np.ndarray)) and len(v) == 1 else int(v) for v in tsi]
        except Exception as e:      # noqa: B902
            out["tsi"] = ("raised", "unexpected container: %r" % (tsi,))
    out["psi"] = ident(lambda: [int(v) for v in obj._getTargetParamSensIndex()])
    out["ssi"] = ident(lambda: [int(v) for v in obj._getTargetStateSensIndex()])
    dl = np.array(c["dl"], dtype=float)
    call("s2g", lambda: obj.sens_to_grad(np.array(c["sens"], dtype=float), dl[:, 0] if ns == 1 else dl))
    saved = base_loss.ode_utils.integrateFuncJac
    base_loss.ode_utils.integrateFuncJac = stub_int
    obj._lossObj.diff_loss = stub_dl
    try:
        th = [1.0] * (nP if tp is None else len(tp))
        call("sens", lambda: obj.sensitivity(th))
        call("grad", lambda: obj.gradient(th))
        call("sens_fo", lambda: obj.sensitivity(th, full_output=True)[0])
        call("jac", lambda: obj.jac(th))
        v = th + [1.0] * (nS if ts is None else len(ts))
        call("iv", lambda: obj.sensitivityIV(v))
        call("iv_fo", lambda: obj.sensitivityIV(v, full_output=True)[0])
        call("jaciv", lambda: obj.jacIV(v))
    finally:
        base_loss.ode_utils.integrateFuncJac = saved
    return out


def zl(xs):
    return "[" + "; ".join(str(int(x)) if int(x) >= 0 else "(%d)" % int(x) for x in xs) + "]"


def nl(xs):
    return "[" + "; ".join(str(int(x)) for x in xs) + "]%nat"


def flat(rows):
    return zl(np.asarray(rows).ravel())


def coq_case(c, o):
    def ok(p):
        return p in o and not isinstance(o[p], tuple)

    def vec(p):
        return flat(o[p]) if ok(p) else "[]"

    def ncols(p):
        return int(np.asarray(o[p]).shape[1]) if ok(p) and np.asarray(o[p]).ndim == 2 else 0
    b = lambda x: "true" if x else "false"
    iv_ok = ok("iv") and ok("iv_fo") and ok("jaciv")
    return ("KC %d %d %d %s %s %s %s %s %s %s %s %s %d %s %s  %s %s %s %s %s %s %s %s %s %d %s %s %s %s %d %s"
            % (c["nS"], c["nP"], c["n"], nl(c["st"]), b(c["tp"] is not None), nl(c["tp"] or []), b(c["ts"] is not None), nl(c["ts"] or []),
               flat(c["sol"]), flat(c["w"]), flat(c["dA"]), flat(c["dB"]), c["q"], flat(c["sens"]), flat(c["dl"]),
               vec("tpi"), b(o.get("tsi_nested", False)), vec("tsi"), vec("psi"), b(ok("ssi")), vec("ssi"), vec("s2g"),
               vec("sens"), vec("sens_fo"), ncols("jac"), vec("jac"), b(iv_ok), vec("iv"), vec("iv_fo"), ncols("jaciv"), vec("jaciv")))


COQ_HEAD = """From Coq Require Import List ZArith Bool.
From PV Require Import Util Shapes Grad GradCases Gen.GradGen.
Import ListNotations. Open Scope Z_scope.
"""


def run_K(ck):
    rng = np.random.default_rng([ck.seed, 7])
    shapes = [(s, p) for s in range(1, 5) for p in range(1, 5)]
    shapes += [(int(rng.integers(1, 5)), int(rng.integers(1, 5))) for _ in range(ck.budget(150, 1400))]
    cases, outs, dist = [], [], {}
    disagree = []
    # parts whose exception is modelled (None in the Coq model): the initial-value calls when target_state is given
    modelled_raise = {"ssi", "iv", "iv_fo", "jaciv"}
    for (s, p) in shapes:
        c = k_inputs(rng, s, p)
        o = k_run(c)
        cases.append(c); outs.append(o)
        unsorted = (c["st"] != sorted(c["st"])) or (c["tp"] is not None and c["tp"] != sorted(c["tp"])) or \
                   (c["ts"] is not None and c["ts"] != sorted(c["ts"]))
        ck.case(dict(kind="K", **c), nontrivial=unsorted)
        key = "%dx%d" % (s, p)
        dist[key] = dist.get(key, 0) + 1
        i = len(cases) - 1
        if "constructor" in o:
            disagree.append((i, "SquareLoss constructor raised %s" % o["constructor"][1]))
            continue
        if o["bad_args"]:
            disagree.append((i, sorted(set(o["bad_args"]))[0]))
        for part, v in list(o.items()):
            if isinstance(v, tuple) and not (part in modelled_raise and c["ts"] is not None and v[1].startswith("TypeError")):
                disagree.append((i, "%s raised %s" % (part, v[1])))
                o.setdefault("reported", set()).add(part)
        if not isinstance(o.get("grad"), tuple) and not isinstance(o.get("sens"), tuple):
            if not np.array_equal(o["grad"], o["sens"]):
                disagree.append((i, "gradient(theta) differs from sensitivity(theta)"))
    ck.notes["K_shape_distribution"] = dist
    ok_cases = [(c, o) for c, o in zip(cases, outs) if "constructor" not in o]
    files, shard = [], max(5, -(-len(ok_cases) // 16))
    for s0 in range(0, len(ok_cases), shard):
        body = ";\n ".join(coq_case(c, o) for c, o in ok_cases[s0:s0 + shard])
        files.append(("c07_cases_%d" % (s0 // shard),
                      COQ_HEAD + "Definition cases : list kcase := [\n " + body +
                      "].\nEval vm_compute in failing_parts code_facts psi_expr ssi_expr cases.\n"))
    t0 = time.time()
    res = ck.coq_eval_many(files)
    ck.notes["K_coq_wall_s"] = round(time.time() - t0, 1)
    KEY = {1: ("tpi",), 2: ("tsi",), 3: ("psi",), 4: ("ssi",), 5: ("s2g",), 6: ("sens",), 7: ("sens_fo",), 8: ("jac",),
           9: ("iv", "iv_fo"), 10: ("iv", "iv_fo", "jaciv")}
    for s0 in range(0, len(ok_cases), shard):
        for code in common.parse_int_list(res["c07_cases_%d" % (s0 // shard)][0]):
            c, o = ok_cases[s0 + code // 100]
            part = code % 100
            if set(KEY[part]) & o.get("reported", set()):
                continue        # already reported as "raised"
            disagree.append((cases.index(c), "model and implementation differ on %s" % PARTS[part]))
    ck.notes["correspondence_cases"] = len(cases)
    ck.notes["correspondence_disagreements"] = len(disagree)
    # the flat-weight-vector crash is a recorded input class: when known_findings.json holds it as `known`, the
    # disagreements of exactly that class (flat weight container, broadcast ValueError) are not counted as a broken tie
    flat_known = [k for k in common.load_known() if k.get("property") == "C07" and k.get("status") == "known"
                  and k.get("match", {}).get("cls") == "flat-weights-single-state-raises"]
    if flat_known:
        rest = [(i, w) for i, w in disagree if not (cases[i]["wform"] == "flat" and "non-broadcastable" in w)]
        ck.notes["correspondence_disagreements_explained_by_known_finding"] = len(disagree) - len(rest)
        disagree = rest
    if disagree:
        i, what = disagree[0]
        kinds = sorted(set(w for _, w in disagree))
        ck.broken.append(dict(theorem="correspondence Grad model vs BaseLoss (%s)" % what, file="c07_cases",
                              error="%d disagreement(s) of %d kind(s): %s; first on case %s"
                                    % (len(disagree), len(kinds), " | ".join(kinds)[:600], json.dumps(cases[i]))))
    return cases, outs


# ====================================================================== search
def corpus():
    """past failing inputs, always run first (one per defect seen on 76dc926 .. 8870a14 and the Gamma one fixed in 2d8bc80)"""
    rng = np.random.default_rng(20260930)
    base = dict(iv=False, method=None, target_state=None, weights=None)
    out = [
        S.gen_case(rng, "SIRS", "Square", dict(base, obs=["I", "R"], target_param=["gamma", "beta"])),
        S.gen_case(rng, "SIRS", "Normal", dict(base, obs=["R", "I"], target_param=None, spread=1.3)),
        S.gen_case(rng, "SIRS", "Poisson", dict(base, obs=["I"], target_param=["mu", "beta"])),
        S.gen_case(rng, "SIR", "Gamma", dict(base, obs=["I"], target_param=None, spread=2.0)),
        S.gen_case(rng, "SEIR", "NegBinom", dict(base, obs=["R", "E"], target_param=["gamma", "beta"], spread=3.0)),
        S.gen_case(rng, "SIRS", "Square", dict(base, obs=["I", "R"], target_param=None, iv=True, target_state=["I"])),
        S.gen_case(rng, "SIRS", "Square", dict(base, obs=["I", "R"], target_param=["beta"], iv=True, target_state=["R", "S"])),
        S.gen_case(rng, "SIRS", "Square", dict(base, obs=["I", "R"], target_param=None, iv=True)),
    ]
    for c in out:       # y must match the forced observed states
        fix_y(c, rng)
    c = S.gen_case(rng, "SIR", "Square", dict(base, obs=["I"], target_param=None))
    fix_y(c, rng)
    c["weights"] = [round(0.5 + 0.35 * i, 2) for i in range(len(c["t"]))]     # flat vector, one observed state
    out.append(c)
    return out


def fix_y(c, rng):
    md = c["md"]
    t = np.array(c["t"])
    truth = S.reference_traj(md, [v * 1.1 for v in md["theta"]], md["x0"], t)
    cols = [md["states"].index(s) for s in c["obs"]]
    y = truth[:, cols] * rng.uniform(0.75, 1.3, size=(len(t), len(cols)))
    c["y"] = (np.maximum(np.rint(y), 1.0) if c["loss"] in ("Poisson", "NegBinom") else np.round(y, 4)).tolist()
    if c["spread"] is not None and isinstance(c["spread"], list) and len(c["spread"]) != len(cols):
        c["spread"] = c["spread"][0]
    if c["weights"] is not None:
        c["weights"] = None


def run_search(ck):
    from concurrent.futures import ProcessPoolExecutor
    rng = np.random.default_rng([ck.seed, 707])
    cases = corpus()
    ncorp = len(cases)
    for _ in range(ck.budget(260, 2600)):
        cases.append(S.gen_case(rng))
    nw = 12
    chunks = [cases[i::nw] for i in range(nw)]
    t0 = time.time()
    with ProcessPoolExecutor(max_workers=nw) as ex:
        results = list(ex.map(S.worker, chunks))
    ck.notes["search_wall_s"] = round(time.time() - t0, 1)
    dist, worst, skipped, calls = {}, 0.0, 0, 0
    by_index = {}
    for w_i, res in enumerate(results):
        for j, r in enumerate(res):
            by_index[w_i + j * nw] = r
    for idx, c in enumerate(cases):
        for (viol, info) in [by_index[idx]]:
            key = "%s/%s/%s" % (c["model"], c["loss"], "IV" if c["iv"] else "theta")
            dist[key] = dist.get(key, 0) + 1
            light = {k: c.get(k) for k in ("model", "loss", "obs", "target_param", "target_state", "iv", "weights", "spread", "method", "theta", "x0", "t0", "t_int")}
            light["odes"] = c["md"]["odes"]
            ck.case(dict(kind="search", **light), nontrivial=S.nontrivial(c))
            worst = max(worst, info["max_err"])
            calls += info["calls"]
            if info["skipped"]:
                skipped += 1
            for cls, what in viol:
                if cls == "harness-error":
                    raise common.InternalError("search harness error: " + what)
                ck.violation(cls, what, dict(kind="search", case=c))
    ck.notes["search_cases"] = len(cases)
    ck.notes["search_corpus_cases"] = ncorp
    ck.notes["search_comparisons"] = calls
    ck.notes["search_case_distribution"] = dist
    ck.notes["search_observed_max_relative_error"] = worst
    ck.notes["search_skipped_unsettled_finite_differences"] = skipped


# ====================================================================== driver
def explain_by_known(ck, cls, obligations, also_corr=()):
    """obligations that fail are explained by a recorded known finding only when known_findings.json holds a `known`
    entry for that class AND the search reproduced that very class on this run"""
    known = [k for k in common.load_known() if k.get("property") == "C07" and k.get("status") == "known"
             and k.get("match", {}).get("cls") == cls]
    if known and any(v["cls"] == cls for v in ck.violations):
        keep = [b for b in ck.broken if b.get("theorem") not in obligations]
        if len(keep) != len(ck.broken):
            ck.notes.setdefault("broken_explained_by_known_finding", []).extend(
                b.get("theorem") for b in ck.broken if b not in keep)
            ck.broken[:] = keep


def run(ck):
    import gen_grad
    ck.rule = ("K: SquareLoss on a stub model, integrator and diff_loss stubbed with integer arrays (entries in [-3,3], weights in "
               "[1,3] as full array / per state / scalar / flat vector), every (nS, nP) in [1,4]^2 once plus random shapes, observed "
               "states a random subset in random order (sorted with prob. 1/4), target_param / target_state None or a random subset in "
               "random order; ten observables per case; non-trivial = some supplied list is not in declaration order.  Search: "
               "catalogue models SIR, SIRS, SEIR, Lotka-Volterra, FitzHugh, logistic (one state) and generated saturating-rate "
               "models; five loss classes (count losses with integer data and unit weights, spreads random); observed states, "
               "target_param, target_state random subsets in random order; weights none / n x p / per state / scalar / flat / with a "
               "zero; integrator method None/lsoda/vode/dopri5/dop853; data = perturbed trajectory x multiplicative noise; "
               "non-trivial = several observed states or a target subset or non-unit weights; distinct by canonical JSON hash")
    ok = ck.coq_build("C07", [("GradGen", gen_grad.generate())],
                      extra=("Util.vo", "Shapes.vo", "Grad.vo", "GradProofs.vo", "GradCases.vo", "GradReal.vo", "Gen/GradGen.vo"))
    common.name_assumptions(ck, "C07")
    if ok and not ck.quick:
        cmd = "timeout 900 coqchk -silent -o -R . PV PV.Props.C07"
        ck.checker_cmds.append("cd /verif/coq && " + cmd)
        rc, out = common.sh(cmd, cwd=common.COQ, timeout=1000)
        ck.notes["coqchk"] = out[-800:]
        if rc != 0:
            ck.broken.append(dict(theorem="coqchk Props/C07.vo", file="Props/C07.vo", error=out[-1200:]))
    run_K(ck)
    run_search(ck)
    explain_by_known(ck, "gradient-in-declaration-order", ORDER_OBLIGATIONS)
    explain_by_known(ck, "observed-states-out-of-index-order", ORDER_OBLIGATIONS)
    explain_by_known(ck, "iv-target-state-raises", TSTATE_OBLIGATIONS)
    ck.notes["tolerances"] = dict(
        K="exact (integers)",
        gradient_vs_finite_difference="%g * (1 + max|fd gradient|); fd = central differences at h, h/2, h/4 (h = 1.6e-2*|v|) with two "
                                      "Richardson steps; cases whose two first-level extrapolations differ by more than %g relative "
                                      "are skipped and counted; observed <= 8e-7 on the repaired tree (solver rtol = atol = 1e-10), "
                                      "a permuted / mis-paired gradient differs by O(0.1..1) relative" % (S.TOL, S.FD_AGREE))
    ck.assumptions += [
        "numpy reshape / fancy indexing / broadcasting semantics as transcribed in Shapes.v and Grad.v (validated by the exact K comparison on every run)",
        "the integrator output has the layout of Props/C13.v: column nS + j*nS + i = d x_i/d theta_j, column nS + nS*nP + j*nS + i = d x_i/d x0_j "
        "(C13 proves the right-hand sides; that the integrated columns are the derivatives is the contract Hsens of C07_cost_derivative, "
        "checked end to end by the search)",
        "weight * diff_loss is the derivative of the per-observation cost (proved here for Square and Normal with weights; for the three count "
        "losses it is C14's statement at unit weights)",
        "names are modelled by their declaration index (get_state_index / get_param_index are exercised by K with real names)",
        "search oracle: finite differences of pygom's own cost / costIV; closed-form dL/dyhat of the five densities for the jac-assembled gradient",
    ]


def replay(ck, data):
    inp = data.get("input")
    if not inp:
        return None
    viol, _ = S.eval_case(inp["case"])
    want = data.get("cls")
    for cls, what in viol:
        if want is None or cls == want:
            return what
    return viol[0][1] if viol else None
