"""C04 — every simulated path is a legal walk of the model's events (also drives C11)."""
import json, os, sys, time
from fractions import Fraction
import numpy as np
import common
import modelgen as mg

COQ_HEAD = """From Coq Require Import List Arith Bool ZArith QArith Qcanon.
From PV Require Import Util Stoch StochQc.
Import ListNotations.
Open Scope Q_scope.
"""


def fq(v):
    f = Fraction(float(v))
    return "(%d # %d)" % (f.numerator, f.denominator)


def ql(xs):
    return "[" + "; ".join(fq(x) for x in xs) + "]"


def zl(xs):
    return "[" + "; ".join(("%d" % x if x >= 0 else "(%d)" % x) for x in xs) + "]%Z"


def oq(v):
    return "None" if v is None else "(Some %s)" % fq(v)


# ------------------------------------------------------------------ generator
def gen_case(rng, limits=False, kinds=None):
    # C11 also covers models that mix events with explicit ODE terms (deterministic drift inside a tau leap)
    with_odes = bool(limits and rng.random() < 0.3)
    d = mg.gen_definition(rng, kinds=kinds or mg.JUMP_KINDS, sym_mag=False, odes=with_odes, min_events=1)
    nS = len(d["states"])
    x0 = [int(v) for v in rng.integers(0, 25, size=nS)]
    if limits:
        lims = []
        for i in range(nS):
            r = rng.random()
            if r < 0.25: lims.append(None)                          # default (0, None)
            elif r < 0.45: lims.append((int(rng.integers(0, 4)), None))
            elif r < 0.65: lims.append((None, int(rng.integers(5, 30))))
            elif r < 0.9:
                lo = int(rng.integers(0, 4)); lims.append((lo, lo + int(rng.integers(3, 25))))
            else: lims.append((None, None))
        losing = {tr["o"] for e in d["events"] for tr in e["trans"] if tr["ty"] in ("D", "T")}
        for i in range(nS):
            if i in losing and lims[i] is not None and lims[i][0] is None:
                # without a lower limit this state could go negative and make rates negative (outside the domain)
                lims[i] = (0, lims[i][1])
        d["lims"] = lims
        x0 = []
        for l in lims:
            lo, hi = (0, None) if l is None else l
            a = lo if lo is not None else 0
            b = hi if hi is not None else a + 12
            x0.append(int(rng.integers(a, b + 1)))
    theta = {p: float(rng.integers(1, 17)) / 8 for p in d["params"]}
    exact = bool(rng.random() < 0.5) and not d["odes"]
    pre_tau = None
    eps = 0.03
    if not exact:
        if rng.random() < 0.4:
            pre_tau = float(rng.integers(1, 9)) / 16
        eps = float(rng.choice([0.01, 0.03, 0.1]))
    seed = int(rng.integers(0, 2 ** 31 - 1))
    return dict(definition=d, x0=x0, theta=theta, exact=exact, pre_tau=pre_tau, epsilon=eps,
                seed=seed, T=None, x0_int=[None, None, "list", "array"][seed % 4])


def effective_lims(d):
    n = len(d["states"])
    ls = d.get("lims") or [None] * n
    return [(0, None) if l is None else tuple(l) for l in ls]


def horizon(m, c):
    x = np.array(c["x0"], float)
    try:
        tot = float(np.sum(m.eventRateVector(x, 0.0)))
    except Exception:
        tot = 1.0
    T = float(min(4.0, max(0.05, 30.0 / (tot + 1.0))))
    return T if c["exact"] else T / 4


# ------------------------------------------------------------------ run pygom
def run_path(c):
    import pg, stochlog
    d = c["definition"]
    m, order = mg.build(d, route="event")
    m.parameters = c["theta"]
    x0 = [float(v) for v in c["x0"]]
    if c.get("x0_int") == "list": x0 = [int(v) for v in c["x0"]]
    if c.get("x0_int") == "array": x0 = np.array([int(v) for v in c["x0"]], dtype=np.int64)
    m.initial_values = (x0, np.float64(0))
    m.pre_tau = c["pre_tau"]
    m._epsilon = c["epsilon"]
    if c.get("T") is None:
        c["T"] = horizon(m, c)
    np.random.seed(c["seed"])
    err = None
    with stochlog.Recorder() as rec, pg.quiet() as out:
        try:
            # the flag in the forms callers pass it in: a bool, the result of a numpy comparison, 1 / 0
            flag = [bool, np.bool_, int][int(c["seed"]) % 3](c["exact"])
            st, jumps, times = m.solve_stochast(c["T"], 1, exact=flag, full_output=True)
        except stochlog.Truncated:
            return dict(truncated=True, calls=[], printed="")
        except BaseException as e:
            err = "%s: %s" % (type(e).__name__, str(e)[:160])
    if err:
        return dict(error=err, calls=rec.calls, printed=out.getvalue())
    xs = np.asarray(st[0], float)
    ts = np.asarray(times[0], float).ravel()
    js = jumps[0]
    ns = [[int(np.asarray(v).ravel()[0]) for v in row] for row in js] if len(js) else []
    return dict(xs=xs.tolist(), ts=ts.tolist(), ns=ns, calls=rec.calls, printed=out.getvalue(), model=m)


# ------------------------------------------------------------------ the property, directly
def judge(c, r):
    d = c["definition"]
    if "error" in r:
        lims = d.get("lims") or []
        if "lam < 0" in r["error"] and any(l is not None and (l[0] is None or l[0] < 0) for l in lims):
            # a state declared without a lower limit of 0 (or with a negative one) may go negative, and a rate that is linear in it
            # with it: a negative rate is outside the property's domain (bounded NON-NEGATIVE rates); numpy says so. Not judged.
            return None
        return ("exception", "solve_stochast raised %s" % r["error"])
    xs, ts, ns = np.array(r["xs"]), r["ts"], r["ns"]
    nS, nE = len(d["states"]), len(d["events"])
    pt = {s: Fraction(1) for s in d["states"]}
    pt.update({p: Fraction(c["theta"][p]) for p in d["params"]}); pt["t"] = Fraction(0)
    V = np.array([[float(v) for v in row] for row in mg.spec_values(d, pt)["V"]]).reshape(nS, nE)
    if xs.shape[1] != nS or list(xs[0]) != [float(v) for v in c["x0"]] or ts[0] != 0.0:
        return ("start", "path does not start at (x0, t0): %s, %s" % (xs[0].tolist(), ts[0]))
    if len(ts) != len(xs) or len(ns) != len(xs) - 1:
        return ("lengths", "states %d, times %d, counts %d" % (len(xs), len(ts), len(ns)))
    lims = effective_lims(d)
    for k in range(len(xs)):
        for i, (lo, hi) in enumerate(lims):
            if (lo is not None and xs[k][i] < lo) or (hi is not None and xs[k][i] > hi):
                if k == 0:
                    continue
                return ("limit-violated", "row %d state %s = %s outside (%s, %s)" % (k, d["states"][i], xs[k][i], lo, hi))
    for k in range(len(ns)):
        if not ts[k + 1] > ts[k]:
            return ("times-not-increasing", "t[%d]=%r, t[%d]=%r" % (k, ts[k], k + 1, ts[k + 1]))
        n = ns[k]
        if len(n) != nE or any(v < 0 for v in n):
            return ("counts", "step %d counts %s" % (k, n))
        if c["exact"] and sorted(n) != [0] * (nE - 1) + [1]:
            return ("exact-not-one-event", "step %d counts %s" % (k, n))
        if not d["odes"] and not np.array_equal(xs[k + 1] - xs[k], V @ np.array(n, float)):
            return ("delta-not-V-times-counts", "step %d: dx=%s, V.n=%s" % (k, (xs[k + 1] - xs[k]).tolist(), (V @ np.array(n, float)).tolist()))
    if ts[-1] < c["T"]:
        m = r["model"]
        rates = np.asarray(m.eventRateVector(xs[-1], ts[-1]), float).ravel()
        if np.any(rates != 0) and "Illegal jump" not in r["printed"]:
            return ("stopped-early", "returned at t=%r < T=%r although rates %s and no illegal step" % (ts[-1], c["T"], rates.tolist()))
        # an exact path that stopped on an "illegal" step: the step the last first-reaction call chose must really leave the
        # limits (a state may sit exactly ON a declared limit)
        last = r["calls"][-1] if r.get("calls") else None
        if c["exact"] and not d["odes"] and last and last.get("kind") == "FR" and len(last.get("clocks", [])) == nE \
                and last.get("x") == [float(v) for v in xs[-1]]:
            i = int(np.argmin(last["clocks"]))
            if np.isfinite(last["clocks"][i]):
                xn = xs[-1] + V[:, i]
                inside = all((lo is None or xn[k] >= lo) and (hi is None or xn[k] <= hi) for k, (lo, hi) in enumerate(lims))
                if inside:
                    return ("legal-step-rejected", "the path stopped at t=%r in state %s: the event that was due (event %d, clocks %s) leads to "
                            "%s, which is within the limits %s" % (ts[-1], xs[-1].tolist(), i, [round(v, 4) for v in last["clocks"]],
                                                                   xn.tolist(), lims))
    return None


# ------------------------------------------------------------------ Coq replay case
def coq_case(c, r):
    """None when the run cannot be replayed (no calls / crash)"""
    import stochlog
    d = c["definition"]
    calls = r["calls"]
    if not calls or "error" in r:
        return None
    for cl in calls:
        for key in ("rates", "clocks", "pure"):
            if not all(np.isfinite(v) for v in cl.get(key, [])):
                return None
        if "tau" in cl and not np.isfinite(cl["tau"]):
            return None
    # loop guard `t < T` evaluated in floats by pygom and exactly by the model: a recorded time within 1e-9 of the
    # horizon can fall on different sides (accumulated rounding); such paths are not replayed (near-tie exclusion)
    if any(abs(t - c["T"]) <= 1e-9 * (1 + abs(c["T"])) for t in r["ts"]):
        return "near-tie"
    changes = None
    for cl in calls:
        if "changes" in cl:
            ch = np.asarray(cl["changes"], float)
            if ch.ndim != 2:
                return None
            if changes is None:
                changes = ch
            elif not np.array_equal(changes, ch):
                return None
    if changes is None:
        return None
    steps = []
    for it in stochlog.schedule(calls):
        if it[0] == "E":
            f = it[1]
            if "rates" not in f: return None
            steps.append("LExact %s %s" % (ql(f["rates"]), ql(f["clocks"])))
        else:
            tl, fb = it[1], it[2]
            if "rates" not in tl: return None
            if all(v == 0 for v in tl["rates"]):
                steps.append("LTau %s %s (1 # 1) []%%Z []" % (ql(tl["rates"]), ql(tl.get("pure", []))))
                continue
            if "tau" not in tl: return None
            steps.append("LTau %s %s %s %s %s" % (ql(tl["rates"]), ql(tl.get("pure", [])), fq(tl["tau"]), zl(tl["counts"]),
                                                   ql(fb["clocks"]) if fb else "[]"))
    cols = [changes[:, j].tolist() for j in range(changes.shape[1])]
    lims = calls[0]["lims"]
    exp = ["(%s, []%%Z, %s)" % (ql(r["xs"][0]), fq(r["ts"][0]))]
    for k in range(len(r["ns"])):
        exp.append("(%s, %s, %s)" % (ql(r["xs"][k + 1]), zl(r["ns"][k]), fq(r["ts"][k + 1])))
    return "([%s], [%s], %s, %s, %s, [%s], [%s])" % (
        "; ".join(ql(cl) for cl in cols), "; ".join("(%s, %s)" % (oq(lo), oq(hi)) for lo, hi in lims),
        fq(c["T"]), ql(c["x0"]), fq(0.0), "; ".join(steps), "; ".join(exp))


def nontrivial(c, r, pid):
    if "error" in r:
        return True
    if pid == "C11":
        return "Illegal jump" in r["printed"]
    d = c["definition"]
    return len(r["ns"]) >= 3 and (len(d["events"]) >= 2)


SHAPES = [  # one event / one state / both: the shapes that used to crash
    dict(states=["X"], params=["beta", "gamma"], derived=[], decl="list", odes=[],
         events=[dict(rate="beta", kind="const", trans=[dict(ty="B", o=None, d=0, mag="1")])]),
    dict(states=["S", "I"], params=["beta"], derived=[], decl="list", odes=[],
         events=[dict(rate="beta*S*I/(S+I)", kind="massaction", trans=[dict(ty="T", o=0, d=1, mag="1")])]),
    # range-style declaration 'y1:3' with constant-rate deaths: every expanded state has the default lower limit 0
    dict(states=["y1", "y2"], params=["beta", "gamma"], derived=[], decl="range", odes=[], _x0=[2, 2], _T=12.0,
         events=[dict(rate="beta", kind="const", trans=[dict(ty="D", o=1, d=None, mag="1")]),
                 dict(rate="gamma", kind="const", trans=[dict(ty="D", o=0, d=None, mag="2")])]),
    # a very slow process: rates of 1e-10 are positive rates, the path must go on until the horizon
    dict(states=["X"], params=["beta", "gamma"], derived=[], decl="list", odes=[], _x0=[5], _T=2e10, _theta=dict(beta=1e-10, gamma=1e-10),
         events=[dict(rate="beta*X", kind="linear", trans=[dict(ty="D", o=0, d=None, mag="1")])]),
    # an upper limit of exactly 0 (a falsy value) on a state that a birth tries to raise
    dict(states=["P", "D"], params=["beta", "gamma"], derived=[], decl="list", odes=[], lims=[(0, 6), (-4, 0)], _x0=[3, -2], _T=6.0,
         events=[dict(rate="beta", kind="const", trans=[dict(ty="B", o=None, d=1, mag="1")]),
                 dict(rate="gamma", kind="const", trans=[dict(ty="B", o=None, d=0, mag="1")])]),
    # deterministic drift (explicit ODE terms) pushing against an upper and a lower limit under tau leaping
    dict(states=["F", "E"], params=["beta", "gamma"], derived=[], decl="list", lims=[(0, 10), (0, None)], _x0=[9, 1], _T=4.0, _tau_only=True,
         odes=[dict(state=0, eqn="beta"), dict(state=1, eqn="-gamma")],
         events=[dict(rate="beta/100", kind="const", trans=[dict(ty="B", o=None, d=1, mag="1")])]),
    dict(states=["X"], params=["beta", "gamma"], derived=[], decl="list", odes=[],
         events=[dict(rate="beta", kind="const", trans=[dict(ty="B", o=None, d=0, mag="2")]),
                 dict(rate="gamma*X", kind="linear", trans=[dict(ty="D", o=0, d=None, mag="1")])]),
    # fixed step 0.25, leaps that are rejected at the boundary and long first-reaction waits in between: recorded times increase
    *[dict(states=["X"], params=["beta", "gamma"], derived=[], decl="list", odes=[], _x0=[4], _T=14.0, _tau_only=True, _seed=sd,
           _theta=dict(beta=0.3, gamma=0.4),
           events=[dict(rate="beta*X", kind="linear", trans=[dict(ty="D", o=0, d=None, mag="3")]),
                   dict(rate="gamma", kind="const", trans=[dict(ty="B", o=None, d=0, mag="1")])]) for sd in (5, 6, 7, 8)],
    # a fixed step of 0.1 whose multiples reach the horizon from below up to rounding (0.1 * 10 -> 0.9999999999999999; 0.1 * 8 -> 0.7999999999999999)
    *[dict(states=["X"], params=["beta", "gamma"], derived=[], decl="list", odes=[], _x0=[4], _T=T_, _tau_only=True, _pre_tau=0.1, _seed=3,
           _theta=dict(beta=6.0, gamma=0.4),
           events=[dict(rate="beta", kind="const", trans=[dict(ty="B", o=None, d=0, mag="1")])]) for T_ in (1.0, 0.8)],
    # non-integer jump sizes from an initial state given as integers (Python ints / an int64 array): the state is a float vector
    dict(states=["A", "B", "C"], params=["beta", "gamma"], derived=[], decl="list", odes=[], _x0=[40, 0, 0], _x0_int="list", _T=2.0,
         events=[dict(rate="beta*A/8", kind="linear", trans=[dict(ty="T", o=0, d=1, mag="2.5")]),
                 dict(rate="gamma*B", kind="linear", trans=[dict(ty="T", o=1, d=2, mag="0.5")])]),
    dict(states=["A", "B"], params=["beta", "gamma"], derived=[], decl="list", odes=[], _x0=[30, 1], _x0_int="array", _T=2.0,
         events=[dict(rate="beta*A/8", kind="linear", trans=[dict(ty="T", o=0, d=1, mag="1.5")]),
                 dict(rate="gamma", kind="const", trans=[dict(ty="B", o=None, d=0, mag="0.25")])]),
]


def drive(ck, pid, limits):
    import gen_stoch
    ck.coq_build(pid, [("StochGen", gen_stoch.generate())], extra=("Util.vo", "StochQc.vo"))
    common.name_assumptions(ck, pid)
    rng = np.random.default_rng(ck.seed + (11 if limits else 0))
    N = ck.budget(140, 1500)
    cases = []
    for d in SHAPES:
        for exact in (True, False):
            dd = {k: v for k, v in d.items() if not k.startswith("_")}
            if exact and d.get("_tau_only"):
                continue
            cases.append(dict(definition=dd, x0=d.get("_x0", [6] * len(d["states"])),
                              theta=d.get("_theta", {p: 0.75 for p in d["params"]}),
                              exact=exact, pre_tau=(d.get("_pre_tau", 0.25) if d.get("_tau_only") else None), epsilon=0.03, seed=d.get("_seed", 5), T=d.get("_T", 1.5),
                              x0_int=d.get("_x0_int")))
    cases += [gen_case(rng, limits=limits) for _ in range(N)]
    coq_cases, dist = [], {}
    t_end = time.time() + ck.budget(110, 700)
    excluded = 0
    for c in cases:
        if time.time() > t_end:
            break
        r = run_path(c)
        if r.get("truncated"):
            dist["truncated_too_many_steps"] = dist.get("truncated_too_many_steps", 0) + 1
            continue
        if "error" not in r and len(r["ns"]) > 80:
            excluded += 1       # too long to replay cheaply: still judged directly
        ck.case({k: v for k, v in c.items()}, nontrivial=nontrivial(c, r, pid))
        key = ("exact" if c["exact"] else ("tau-fixed" if c["pre_tau"] else "tau-adaptive"))
        dist[key] = dist.get(key, 0) + 1
        dist["steps"] = dist.get("steps", 0) + (len(r["ns"]) if "ns" in r else 0)
        if "Illegal jump" in r.get("printed", ""):
            dist["paths_with_rejected_step"] = dist.get("paths_with_rejected_step", 0) + 1
        j = judge(c, r)
        if j:
            ck.violation(j[0], j[1], {k: v for k, v in c.items()})
        if "error" not in r and len(r["ns"]) <= 80:
            cc = coq_case(c, r)
            if cc == "near-tie":
                dist["excluded_time_near_horizon"] = dist.get("excluded_time_near_horizon", 0) + 1
            elif cc:
                coq_cases.append((cc, c))
    ck.notes["input_distribution"] = dist
    ck.notes["paths_too_long_for_replay"] = excluded
    files = []
    shard = 12
    for s in range(0, len(coq_cases), shard):
        files.append(("%s_cases_%d" % (pid.lower(), s // shard), COQ_HEAD + "Definition cases : list pcase := [\n " +
                      ";\n ".join(x for x, _ in coq_cases[s:s + shard]) + "].\nEval vm_compute in failing chk cases.\n"))
    outs = ck.coq_eval_many(files, timeout=900) if files else {}
    bad = []
    for s in range(0, len(coq_cases), shard):
        bad += [s + i for i in common.parse_int_list(outs["%s_cases_%d" % (pid.lower(), s // shard)][0])]
    ck.notes["replayed_paths"] = len(coq_cases)
    ck.notes["replay_disagreements"] = len(bad)
    if bad:
        ck.broken.append(dict(theorem="correspondence: jump-loop model (Coq, Qc, regenerated kernel facts) vs recorded pygom path",
                              file=pid.lower() + "_cases", error=json.dumps(coq_cases[bad[0]][1])[:1500]))
    ck.assumptions += ["times compared at 1e-9 relative (pygom accumulates t + dt in floats, Coq exactly); states and counts exactly",
                       "clock values, Poisson counts, tau and rate vectors are logged by wrapping module globals; rates are an oracle for the model"]


def late_start_check(exact, seed, t0=5.0):
    """a model whose initial time is not 0: the raw path starts at (x0, t0), its times increase from t0 on, and it reaches the
    horizon unless it is absorbed.  -> None or what fails"""
    import pg
    m = pg.model(state=["S", "I", "R"], param=["b", "g"],
                 event=[pg.Event(rate="b*S*I/(S+I+R)", transition_list=[pg.Transition(origin="S", destination="I", transition_type="T")]),
                        pg.Event(rate="g*I", transition_list=[pg.Transition(origin="I", destination="R", transition_type="T")])])
    m.parameters = {"b": 1.5, "g": 0.5}
    m.initial_values = ([30.0, 3.0, 0.0], np.float64(t0))
    T = t0 + 1.5
    np.random.seed(seed)
    with pg.quiet():
        X, J, TT = m.solve_stochast(T, 2, exact=exact, full_output=True)
    for r, (x, tt) in enumerate(zip(X, TT)):
        x, tt = np.asarray(x, dtype=float), np.asarray(tt, dtype=float).ravel()
        if tt[0] != t0 or list(x[0]) != [30.0, 3.0, 0.0]:
            return "run %d (exact=%s): the path starts at time %r in state %s, the model's initial values are (%s, %r)" % (r, exact, tt[0], x[0].tolist(), [30.0, 3.0, 0.0], t0)
        if len(tt) > 1 and not np.all(np.diff(tt) > 0):
            return "run %d (exact=%s): recorded times are not increasing: %s" % (r, exact, tt[:6].tolist())
        if tt[-1] < T and x[-1][1] > 0:
            return "run %d (exact=%s): the path ends at t=%r before the horizon %r with %g infectives left" % (r, exact, tt[-1], T, x[-1][1])
    return None


def run(ck):
    for exact in (True, False):
        for sd, t0 in ((1, 5.0), (2, 5.0), (3, 738000.0)):        # (738000: a calendar clock, day numbers)
            inp = dict(kind="late-start", exact=exact, seed=sd, t0=t0)
            ck.case(inp, nontrivial=True)
            bad = late_start_check(exact, sd, t0)
            if bad:
                ck.violation("start", bad, inp)
    ck.rule = ("bounded-rate event models (1-5 states, 1-5 events of 1-3 T/B/D transitions, magnitudes 1-3) incl. fixed "
               "one-event / one-state shapes, integer x0, exact / adaptive tau (eps 0.01,0.03,0.1) / fixed tau, one seed each; "
               "each path judged directly and replayed step by step in Coq; non-trivial = >= 3 steps and >= 2 events")
    drive(ck, "C04", limits=False)


def replay(ck, data):
    c = data["input"]
    if c.get("kind") == "late-start":
        return late_start_check(c["exact"], c["seed"], c.get("t0", 5.0))
    r = run_path(c)
    j = judge(c, r)
    return j[1] if j else None
