"""C20 — independent reference for the curvature of the square-loss cost of an ODE model.

Nothing here imports pygom.  From the rate STRINGS of a spec sympy derives f, df/dx, df/dtheta and all second derivatives
(d2f/dxdx, d2f/dxdtheta, d2f/dtheta2); scipy DOP853 (rtol 1e-12) integrates, in one system,
    x,  S = dx/dtheta,  F = d2x/dtheta2 (TRUE second-order sensitivities),
    Fi = the same system with the mixed state-parameter and pure parameter terms dropped (what the property text records
         that pygom integrates: dFi/dt = J Fi + S' (d2f/dxdx) S)
and the cost, gradient, JtJ and Hessian of  sum_i sum_k (w_ik (y_ik - x_{s_k}(t_i)))^2  are assembled by explicit formulas.
"""
import json
import numpy as np

_CACHE = {}


def tensors(spec):
    """lambdified (f, J, G, Hxx, Hxp, Hpp) of (x, theta) and the symbolic classification of the model"""
    key = json.dumps([spec["states"], spec["params"], spec["eqs"]])
    if key in _CACHE:
        return _CACHE[key]
    import sympy
    xs = [sympy.Symbol(s) for s in spec["states"]]
    ps = [sympy.Symbol(p) for p in spec["params"]]
    loc = {str(s): s for s in xs + ps}
    f = [sympy.sympify(e, locals=loc) for e in spec["eqs"]]
    nS, nP = len(xs), len(ps)
    J = [[sympy.diff(f[s], xs[l]) for l in range(nS)] for s in range(nS)]
    G = [[sympy.diff(f[s], ps[a]) for a in range(nP)] for s in range(nS)]
    Hxx = [[[sympy.diff(f[s], xs[i], xs[j]) for j in range(nS)] for i in range(nS)] for s in range(nS)]
    Hxp = [[[sympy.diff(f[s], xs[l], ps[b]) for b in range(nP)] for l in range(nS)] for s in range(nS)]
    Hpp = [[[sympy.diff(f[s], ps[a], ps[b]) for b in range(nP)] for a in range(nP)] for s in range(nS)]
    flat = lambda T: [e for e in np.array(T, dtype=object).ravel()]
    mixed_zero = all(sympy.simplify(e) == 0 for e in flat(Hxp)) if nP else True
    pp_zero = all(sympy.simplify(e) == 0 for e in flat(Hpp)) if nP else True
    allexpr = f + flat(J) + flat(G) + flat(Hxx) + flat(Hxp) + flat(Hpp)
    lam = sympy.lambdify([xs, ps], allexpr, "math", cse=True)
    sizes = [nS, nS * nS, nS * nP, nS ** 3, nS * nS * nP, nS * nP * nP]
    shapes = [(nS,), (nS, nS), (nS, nP), (nS, nS, nS), (nS, nS, nP), (nS, nP, nP)]

    def ev(x, th):
        v = np.array(lam(list(x), list(th)), dtype=float)
        out, o = [], 0
        for n, sh in zip(sizes, shapes):
            out.append(v[o:o + n].reshape(sh)); o += n
        return out
    _CACHE[key] = (ev, dict(mixed_vanish=bool(mixed_zero), pp_vanish=bool(pp_zero)))
    return _CACHE[key]


def classify(spec):
    """'complete' when d2f/dxdtheta and d2f/dtheta2 vanish identically (sympy), else 'mixed'"""
    c = tensors(spec)[1]
    return "complete" if (c["mixed_vanish"] and c["pp_vanish"]) else "mixed"


MAX_REF_EVALS = 200000


def integrate(spec, theta, ts, rtol=1e-12, atol=1e-14):
    """(X, S, F, Fi) at the times ts:  X[n,nS], S[n,nS,nP], F[n,nS,nP,nP], Fi[n,nS,nP,nP]"""
    from scipy.integrate import solve_ivp
    ev, _ = tensors(spec)
    nS, nP = len(spec["states"]), len(spec["params"])
    nF = nS * nP * nP
    theta = np.asarray(theta, dtype=float)

    count = [0]

    def rhs(t, u):
        # a generated model may blow up in finite time: the step size then shrinks for ever.  No solution over the window = not
        # an input of the property (callers treat the RuntimeError as "no reference")
        count[0] += 1
        if count[0] > MAX_REF_EVALS:
            raise RuntimeError("reference integration failed: more than %d evaluations of the right-hand side" % MAX_REF_EVALS)
        x = u[:nS]
        S = u[nS:nS + nS * nP].reshape(nS, nP)
        F = u[nS + nS * nP:nS + nS * nP + nF].reshape(nS, nP, nP)
        Fi = u[nS + nS * nP + nF:].reshape(nS, nP, nP)
        f, J, G, Hxx, Hxp, Hpp = ev(x, theta)
        dS = J @ S + G
        quad = np.einsum("sij,ia,jb->sab", Hxx, S, S)
        mix = np.einsum("slb,la->sab", Hxp, S)
        dF = np.einsum("sl,lab->sab", J, F) + quad + mix + mix.transpose(0, 2, 1) + Hpp
        dFi = np.einsum("sl,lab->sab", J, Fi) + quad
        return np.concatenate([f, dS.ravel(), dF.ravel(), dFi.ravel()])
    u0 = np.concatenate([np.asarray(spec["x0"], dtype=float), np.zeros(nS * nP + 2 * nF)])
    sol = solve_ivp(rhs, (0.0, float(ts[-1])), u0, method="DOP853", t_eval=np.asarray(ts, dtype=float), rtol=rtol, atol=atol)
    if not sol.success:
        raise RuntimeError("reference integration failed: " + sol.message)
    U = sol.y.T
    n = len(ts)
    return (U[:, :nS], U[:, nS:nS + nS * nP].reshape(n, nS, nP),
            U[:, nS + nS * nP:nS + nS * nP + nF].reshape(n, nS, nP, nP),
            U[:, nS + nS * nP + nF:].reshape(n, nS, nP, nP))


def weights_matrix(spec):
    n, p = len(spec["times"]), len(spec["obs"])
    w = spec.get("weights")
    if w is None:
        return np.ones((n, p))
    w = np.asarray(w, dtype=float)
    if w.ndim == 0:
        return np.ones((n, p)) * w
    if w.ndim == 1:                 # one weight per observed state
        return np.ones((n, p)) * w.reshape(1, p)
    return w.reshape(n, p)


def selection(spec):
    sidx = [spec["states"].index(s) for s in spec["obs"]]
    tp = spec.get("target")
    pidx = list(range(len(spec["params"]))) if tp is None else [spec["params"].index(p) for p in tp]
    return sidx, pidx


def full_theta(spec, theta_t):
    """the full parameter vector when the target parameters take the values theta_t"""
    th = np.array(spec["theta"], dtype=float)
    _, pidx = selection(spec)
    th[pidx] = theta_t
    return th


def curvature(spec, theta_t=None):
    """reference cost, gradient, JtJ, Hessian (true), Hessian with the incomplete second-order sensitivities, and the
    residual-curvature terms, all in the order of the target parameters"""
    sidx, pidx = selection(spec)
    th = np.array(spec["theta"], dtype=float) if theta_t is None else full_theta(spec, theta_t)
    X, S, F, Fi = integrate(spec, th, spec["times"])
    W = weights_matrix(spec)
    y = np.asarray(spec["y"], dtype=float).reshape(len(spec["times"]), len(sidx))
    r = y - X[:, sidx]                                  # n x p
    Ss = S[:, sidx][:, :, pidx]                         # n x p x q
    Fs = F[:, sidx][:, :, pidx][:, :, :, pidx]          # n x p x q x q
    Fis = Fi[:, sidx][:, :, pidx][:, :, :, pidx]
    W2 = W ** 2
    cost = float(((W * r) ** 2).sum())
    grad = np.einsum("nk,nka->a", -2 * W2 * r, Ss)
    jtj = np.einsum("nk,nka,nkb->ab", W2, Ss, Ss)
    c_true = np.einsum("nk,nkab->ab", -2 * W2 * r, Fs)
    c_inc = np.einsum("nk,nkab->ab", -2 * W2 * r, Fis)
    c_inc_unw = np.einsum("nk,nkab->ab", -2 * W * r, Fis)      # diff_loss without the second weight factor
    return dict(cost=cost, grad=grad, jtj=jtj, c_true=c_true, c_inc=c_inc, c_inc_unw=c_inc_unw,
                H_true=2 * jtj + c_true, H_inc=2 * jtj + c_inc, resid=r, X=X, S=S)


def ref_cost(spec, theta_t):
    sidx, _ = selection(spec)
    from scipy.integrate import solve_ivp
    ev, _ = tensors(spec)
    th = full_theta(spec, theta_t)
    sol = solve_ivp(lambda t, x: ev(x, th)[0], (0.0, float(spec["times"][-1])), np.asarray(spec["x0"], dtype=float),
                    method="DOP853", t_eval=np.asarray(spec["times"], dtype=float), rtol=1e-13, atol=1e-15)
    if not sol.success:
        raise RuntimeError("reference integration failed: " + sol.message)
    W = weights_matrix(spec)
    y = np.asarray(spec["y"], dtype=float).reshape(len(spec["times"]), len(sidx))
    return float(((W * (y - sol.y.T[:, sidx])) ** 2).sum())


def richardson_jac(g, theta, h):
    """d g / d theta by central differences with one Richardson step: (4 D(h/2) - D(h)) / 3"""
    theta = np.asarray(theta, dtype=float)
    n = len(theta)

    def D(hh):
        cols = []
        for k in range(n):
            e = np.zeros(n); e[k] = hh
            cols.append((np.asarray(g(theta + e), dtype=float) - np.asarray(g(theta - e), dtype=float)) / (2 * hh))
        return np.array(cols).T
    return (4 * D(h / 2) - D(h)) / 3


def fd_hessian_of_cost(c, theta, h):
    """second differences of a scalar function (4-point cross formula, central second difference on the diagonal)"""
    theta = np.asarray(theta, dtype=float)
    n = len(theta)
    H = np.zeros((n, n))
    c0 = c(theta)
    for a in range(n):
        ea = np.zeros(n); ea[a] = h
        H[a, a] = (c(theta + ea) - 2 * c0 + c(theta - ea)) / (h * h)
        for b in range(a):
            eb = np.zeros(n); eb[b] = h
            H[a, b] = H[b, a] = (c(theta + ea + eb) - c(theta + ea - eb) - c(theta - ea + eb) + c(theta - ea - eb)) / (4 * h * h)
    return H
