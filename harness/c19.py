"""C19 — R-style distribution helpers are the distributions they name (pygom.utilR.distn).

T  gen/gen_distn.py extracts, for every d/p/q/r wrapper, flag value, prob/mu alternative and kind of seed,
   what is called and with which parameter map -> Gen/DistnGen.v; Props/C19.v proves the extracted tables equal
   R's parameterisation (finite), and composes them with closed forms / log / nbinom / seeding theorems.
K  Coq normalises the extracted tables (positional -> keyword, defaults dropped) and prints them; this module
   interprets each printed entry by calling scipy / numpy DIRECTLY and compares with the real wrapper, bit for
   bit (values, exceptions, None, which random state was consumed).  That ties translator + normaliser to the
   running code.
S  search: every wrapper against mpmath (40 digits) on random arguments in the support, p/q inverses, seeded
   generator pairs under different global states, moments of seeded draws.
"""
import inspect
import json
import math
import os
import re
import sys

import numpy as np

import common

sys.path.insert(0, os.path.join(common.VERIF, "gen"))

FAMS = ["exp", "gamma", "norm", "chisq", "unif", "beta", "pois", "binom", "nbinom"]
DISCRETE = {"pois", "binom", "nbinom"}
SEEDED = ["rexp", "rgamma", "rnorm", "rchisq", "runif", "rpois", "rbinom"]
RTOL, ATOL = 1e-9, 1e-12          # wrapper value vs mpmath (see REPORT: observed <= 4e-13 relative)
QTOL = 1e-9                       # |F(q(u)) - u| on the probability scale
ZMEAN, ZVAR = 7.0, 8.0            # moment tests of seeded draws (normal-approx alpha < 1e-11 each)


def D():
    common.pygom_env()
    from pygom.utilR import distn
    return distn


# ====================================================================== Coq term parser (printed values)
TOK = re.compile(r'\s*("(?:[^"]|"")*"|\(|\)|\[|\]|;|,|-?\d+|[A-Za-z_][\w\']*)')


def parse_coq(text):
    text = re.sub(r'%\w+', '', text)
    toks, pos = [], 0
    while pos < len(text):
        m = TOK.match(text, pos)
        if not m:
            if text[pos:].strip() == "":
                break
            raise common.InternalError("cannot tokenise Coq value at: " + text[pos:pos + 40])
        toks.append(m.group(1))
        pos = m.end()
    i = [0]

    def atom():
        t = toks[i[0]]
        i[0] += 1
        if t == "(":
            items = [term()]
            while toks[i[0]] == ",":
                i[0] += 1
                items.append(term())
            assert toks[i[0]] == ")", toks[i[0]]
            i[0] += 1
            return items[0] if len(items) == 1 else tuple(items)
        if t == "[":
            items = []
            if toks[i[0]] != "]":
                items.append(term())
                while toks[i[0]] == ";":
                    i[0] += 1
                    items.append(term())
            assert toks[i[0]] == "]", toks[i[0]]
            i[0] += 1
            return items
        if t.startswith('"'):
            return ("str", t[1:-1])
        if re.fullmatch(r'-?\d+', t):
            return int(t)
        if t in ("true", "false"):
            return t == "true"
        return ("id", t)

    def term():
        head = atom()
        args = []
        while i[0] < len(toks) and toks[i[0]] not in (")", "]", ";", ","):
            args.append(atom())
        if not args:
            return head
        return ("app", head[1], args)

    v = term()
    if i[0] != len(toks):
        raise common.InternalError("trailing tokens in Coq value")
    return v


def ident(v):
    return v[1] if isinstance(v, tuple) and v[0] == "id" else (v[1] if v[0] == "app" and not v[2] else None)


def sval(v):
    assert v[0] == "str", v
    return v[1]


def ev_expr(e, env):
    """evaluate a printed expr over floats exactly as the Python source would (same float operations)"""
    from scipy.special import gammaln
    if e[0] == "id":
        raise common.InternalError("bare identifier in expr: %r" % (e,))
    h, a = e[1], e[2]
    if h == "Arg":
        return env[sval(a[0])]
    if h == "Cst":
        return a[0] if a[1] == 1 else a[0] / a[1]
    if h == "ENeg":
        return -ev_expr(a[0], env)
    if h in ("ELn", "EExp", "ELGamma"):
        f = {"ELn": np.log, "EExp": np.exp, "ELGamma": gammaln}[h]
        return f(ev_expr(a[0], env))
    x, y = ev_expr(a[0], env), ev_expr(a[1], env)
    return {"EAdd": lambda: x + y, "ESub": lambda: x - y, "EMul": lambda: x * y, "EDiv": lambda: x / y}[h]()


SCIPY_NAME = {"Expon": "expon", "Gamma": "gamma", "Norm": "norm", "Chi2": "chi2", "Uniform": "uniform",
              "Beta": "beta", "Poisson": "poisson", "Binom": "binom", "NBinom": "nbinom"}
NP_NAME = {"NpExponential": "exponential", "NpGamma": "gamma", "NpNormal": "normal", "NpChisquare": "chisquare",
           "NpUniform": "uniform", "NpPoisson": "poisson", "NpBinomial": "binomial",
           "NpNegBinomial": "negative_binomial", "NpBeta": "beta"}


def kwargs_of(lst, env):
    return {sval(k): ev_expr(e, env) for k, e in lst}


# ====================================================================== parameter / argument generators
def away_from_one(rng, lo, hi):
    while True:
        v = 10 ** rng.uniform(lo, hi)
        if abs(math.log10(v)) > 0.08:
            return float(v)


def gen_param(name, rng):
    if name == "rate": return away_from_one(rng, -1.3, 1.3)
    if name == "shape": return away_from_one(rng, -0.3, 1.2)
    if name == "mean": return float(rng.uniform(-5, 5))
    if name == "sd": return away_from_one(rng, -1, 1)
    if name == "df": return float(rng.integers(1, 31)) if rng.random() < 0.5 else float(rng.uniform(0.6, 30))
    if name == "min": return float(rng.uniform(-5, 5))
    if name == "max": return None          # drawn after min
    if name in ("shape1", "shape2"): return away_from_one(rng, -0.3, 1.2)
    if name == "mu": return away_from_one(rng, -1, 1.7)
    if name == "size": return None         # family dependent
    if name == "prob": return float(rng.uniform(0.05, 0.95))
    raise KeyError(name)


def gen_params(fam, rng):
    """R-named parameters of one family (valid, away from the defaults so that the parameterisation matters)"""
    if fam == "exp": return dict(rate=gen_param("rate", rng))
    if fam == "gamma": return dict(shape=gen_param("shape", rng), rate=gen_param("rate", rng))
    if fam == "norm": return dict(mean=gen_param("mean", rng), sd=gen_param("sd", rng))
    if fam == "chisq": return dict(df=gen_param("df", rng))
    if fam == "unif":
        lo = gen_param("min", rng)
        return dict(min=lo, max=lo + away_from_one(rng, -1, 1.3))
    if fam == "beta": return dict(shape1=gen_param("shape1", rng), shape2=gen_param("shape2", rng))
    if fam == "pois": return dict(mu=gen_param("mu", rng))
    if fam == "binom": return dict(size=int(rng.integers(1, 61)), prob=float(rng.uniform(0.02, 0.98)))
    if fam == "nbinom":
        size = float(rng.integers(1, 21)) if rng.random() < 0.4 else away_from_one(rng, -0.5, 1.3)
        return dict(size=size, prob=float(rng.uniform(0.05, 0.95)))
    raise KeyError(fam)


def moments(fam, P):
    if fam == "exp": return 1 / P["rate"], 1 / P["rate"] ** 2
    if fam == "gamma": return P["shape"] / P["rate"], P["shape"] / P["rate"] ** 2
    if fam == "norm": return P["mean"], P["sd"] ** 2
    if fam == "chisq": return P["df"], 2 * P["df"]
    if fam == "unif": return (P["min"] + P["max"]) / 2, (P["max"] - P["min"]) ** 2 / 12
    if fam == "beta":
        a, b = P["shape1"], P["shape2"]
        return a / (a + b), a * b / ((a + b) ** 2 * (a + b + 1))
    if fam == "pois": return P["mu"], P["mu"]
    if fam == "binom": return P["size"] * P["prob"], P["size"] * P["prob"] * (1 - P["prob"])
    if fam == "nbinom":
        n, p = P["size"], P["prob"]
        return n * (1 - p) / p, n * (1 - p) / p ** 2
    raise KeyError(fam)


def gen_arg(fam, P, rng):
    """an argument strictly inside the support, in the bulk of the distribution"""
    if fam == "exp": return float(-math.log(1 - rng.uniform(0.002, 0.998)) / P["rate"])
    if fam == "gamma": return float(P["shape"] / P["rate"] * 10 ** rng.uniform(-1.5, 0.7))
    if fam == "norm": return float(P["mean"] + P["sd"] * rng.uniform(-4, 4))
    if fam == "chisq": return float(P["df"] * 10 ** rng.uniform(-1.5, 0.7))
    if fam == "unif": return float(P["min"] + (P["max"] - P["min"]) * rng.uniform(0.001, 0.999))
    if fam == "beta": return float(rng.uniform(0.01, 0.99))
    if fam == "binom": return int(rng.integers(0, P["size"] + 1))
    m, v = moments(fam, P)
    return int(rng.integers(0, int(m + 6 * math.sqrt(v) + 5)))


RDEF = dict(exp=dict(rate=1.0), gamma=dict(rate=1.0), norm=dict(mean=0.0, sd=1.0), unif=dict(min=0.0, max=1.0))


def full(fam, P):
    """parameters as R sees them: the ones not passed take R's documented defaults"""
    return dict(RDEF.get(fam, {}), **P)


def nontrivial_params(fam, P):
    dflt = dict(rate=1.0, mean=0.0, sd=1.0, min=0.0, max=1.0, mu=1.0)
    return all(abs(v - dflt[k]) > 0.05 for k, v in P.items() if k in dflt)


# ====================================================================== independent oracle (mpmath, 40 digits)
def mpctx():
    import mpmath
    mpmath.mp.dps = 40
    return mpmath


def o_pmf(fam, k, P, mp):
    k = int(k)
    if fam == "pois":
        mu = mp.mpf(P["mu"])
        return mp.exp(-mu) * mu ** k / mp.factorial(k)
    if fam == "binom":
        n, p = int(P["size"]), mp.mpf(P["prob"])
        return mp.binomial(n, k) * p ** k * (1 - p) ** (n - k)
    n, p = mp.mpf(P["size"]), P["_p"]
    return mp.gamma(n + k) / (mp.gamma(n) * mp.factorial(k)) * p ** n * (1 - p) ** k


def o_plain(fam, fn, x, P, mp):
    """density / mass (fn='d') or cdf (fn='p') of R's family at x; P holds R-named float parameters"""
    if fam in DISCRETE:
        if fam == "nbinom":
            P = dict(P)
            P["_p"] = mp.mpf(P["prob"]) if P.get("prob") is not None else \
                mp.mpf(P["size"]) / (mp.mpf(P["size"]) + mp.mpf(P["mu"]))
        if fn == "d":
            return o_pmf(fam, x, P, mp)
        return mp.fsum(o_pmf(fam, j, P, mp) for j in range(int(x) + 1))
    x = mp.mpf(x)
    # outside the support: density 0, cdf 0 below / 1 above
    lo, hi = {"exp": (0, None), "gamma": (0, None), "chisq": (0, None), "norm": (None, None), "beta": (0, 1),
              "unif": (P.get("min"), P.get("max"))}[fam]
    if lo is not None and x < lo:
        return mp.mpf(0)
    if hi is not None and x > hi:
        return mp.mpf(0) if fn == "d" else mp.mpf(1)
    if fam == "exp":
        r = mp.mpf(P["rate"])
        return r * mp.exp(-r * x) if fn == "d" else -mp.expm1(-r * x)
    if fam in ("gamma", "chisq"):
        a, r = (mp.mpf(P["shape"]), mp.mpf(P["rate"])) if fam == "gamma" else (mp.mpf(P["df"]) / 2, mp.mpf(1) / 2)
        if fn == "d":
            return r ** a * x ** (a - 1) * mp.exp(-r * x) / mp.gamma(a)
        return mp.gammainc(a, 0, r * x, regularized=True)
    if fam == "norm":
        m, s = mp.mpf(P["mean"]), mp.mpf(P["sd"])
        return mp.npdf(x, m, s) if fn == "d" else mp.ncdf(x, m, s)
    if fam == "unif":
        a, b = mp.mpf(P["min"]), mp.mpf(P["max"])
        return 1 / (b - a) if fn == "d" else (x - a) / (b - a)
    if fam == "beta":
        a, b = mp.mpf(P["shape1"]), mp.mpf(P["shape2"])
        if fn == "d":
            return x ** (a - 1) * (1 - x) ** (b - 1) / mp.beta(a, b)
        return mp.betainc(a, b, 0, x, regularized=True)
    raise KeyError(fam)


# ====================================================================== judges (shared by search and replay)
def call(fname, args, kwargs):
    f = getattr(D(), fname, None)
    if f is None:
        return ("missing", None)
    if fname[1:] == "nbinom":               # the alternative that is not given is passed as None (R: missing)
        kwargs = dict(kwargs)
        kwargs.setdefault("prob", None)
        kwargs.setdefault("mu", None)
    try:
        return ("ok", f(*args, **kwargs))
    except Exception as e:            # noqa: BLE001
        return ("raise", "%s: %s" % (type(e).__name__, str(e)[:120]))


def close(got, want, rtol=RTOL, atol=ATOL):
    try:
        g = float(got)
    except (TypeError, ValueError):
        return False, float("inf")
    w = float(want)
    if math.isinf(w):
        return g == w, 0.0
    err = abs(g - w)
    return (err <= rtol * abs(w) + atol and not math.isnan(g)), (err / abs(w) if w else err)


STATS = {"max_rel_err": 0.0, "max_q_err": 0.0}


POSITIONAL = {"dchisq": ["df"], "pchisq": ["df"], "dexp": ["rate"], "pexp": ["rate"], "dgamma": ["shape", "rate"],
              "pgamma": ["shape", "rate"], "dnorm": ["mean", "sd"], "pnorm": ["mean", "sd"], "dunif": ["min", "max"],
              "punif": ["min", "max"], "dpois": ["mu"], "ppois": ["mu"], "dbinom": ["size", "prob"], "pbinom": ["size", "prob"],
              "dbeta": ["shape1", "shape2"]}


QPOSITIONAL = {"qexp": ["rate"], "qchisq": ["df"], "qgamma": ["shape", "rate"], "qnorm": ["mean", "sd"], "qunif": ["min", "max"],
               "qbeta": ["shape1", "shape2"], "qpois": ["mu"]}


def judge_dp(inp):
    """inp: fn (dexp...), fam, x, params (R-named; nbinom: size + prob|mu), flags (log, lower_tail)"""
    mp = mpctx()
    fn, fam = inp["fn"], inp["fam"]
    if inp.get("positional"):
        # every argument by position, in the order of pygom's published signatures (pinned here: the order is part of the API)
        args = [inp["x"]] + [inp["params"][k] for k in POSITIONAL[fn]] + [bool(inp["flags"].get("log", False))]
        st, got = call(fn, args, {})
        desc = "%s(%s)" % (fn, ", ".join(repr(a) for a in args))
    else:
        st, got = call(fn, [inp["x"]], dict(inp["params"], **inp["flags"]))
        desc = "%s(%r, %s)" % (fn, inp["x"], ", ".join("%s=%r" % kv for kv in list(inp["params"].items()) + list(inp["flags"].items())))
    if st == "missing":
        return None
    if st == "raise":
        return (fn + "-raises", "%s raised %s" % (desc, got))
    if got is None:
        return (fn + "-returns-none", "%s returned None" % desc)
    plain = o_plain(fam, fn[0], inp["x"], full(fam, inp["params"]), mp)
    if inp["flags"].get("lower_tail") is False:
        plain = 1 - plain
    want = (mp.log(plain) if plain != 0 else mp.mpf("-inf")) if inp["flags"].get("log") else plain
    ok, rel = close(got, want)
    if ok:
        STATS["max_rel_err"] = max(STATS["max_rel_err"], rel if abs(float(want)) > 1e-3 else 0.0)
        return None
    kind = "-wrong-log-value" if inp["flags"].get("log") else "-wrong-value"
    what = "density/mass" if fn[0] == "d" else "cdf"
    return (fn + kind, "%s = %r but the %s%s of R's %s family there is %s"
            % (desc, got, "log " if inp["flags"].get("log") else "", what, fam, mp.nstr(want, 17)))


def judge_q(inp):
    """inp: fn (qexp...), fam, params, flags, and either u (continuous) or k (discrete: u is put in the middle
    of the k-th jump of the cdf so that the quantile must be exactly k)"""
    mp = mpctx()
    fn, fam, Pc, flags = inp["fn"], inp["fam"], inp["params"], inp["flags"]
    P = full(fam, Pc)
    if fam in DISCRETE:
        k = inp["k"]
        lo = o_plain(fam, "p", k - 1, P, mp) if k > 0 else mp.mpf(0)
        jump = o_plain(fam, "d", k, P, mp)
        if jump < 1e-6:
            return None                      # near-tie: excluded (counted by the caller)
        u = lo + jump / 2
    else:
        u = mp.mpf(inp["u"])
    arg = 1 - u if flags.get("lower_tail") is False else u
    arg = float(mp.log(arg)) if flags.get("log") else float(arg)
    if inp.get("positional"):
        # every argument by position (pinned order): two families called with the same numbers are still two families
        args = [arg] + [Pc[k] for k in QPOSITIONAL[fn]]
        st, got = call(fn, args, {})
        desc = "%s(%s)" % (fn, ", ".join(repr(a) for a in args))
    else:
        st, got = call(fn, [arg], dict(Pc, **flags))
        desc = "%s(%r, %s)" % (fn, arg, ", ".join("%s=%r" % kv for kv in list(Pc.items()) + list(flags.items())))
    if st == "missing":
        return None
    if st == "raise":
        return (fn + "-raises", "%s raised %s" % (desc, got))
    if got is None:
        return (fn + "-returns-none", "%s returned None" % desc)
    if fam in DISCRETE:
        if float(got) == k:
            return None
        return (fn + "-not-inverse", "%s = %r but the smallest k with cdf(k) >= p is %d" % (desc, got, k))
    back = o_plain(fam, "p", float(got), P, mp)
    err = abs(float(back - u))
    if err <= QTOL:
        STATS["max_q_err"] = max(STATS["max_q_err"], err)
        return None
    return (fn + "-not-inverse", "%s = %r but the cdf of R's %s family there is %s, not %s"
            % (desc, got, fam, mp.nstr(back, 15), mp.nstr(u, 15)))


def judge_roundtrip(inp):
    """module-internal: q(p(x)) = x for a continuous family (only meaningful when p and q pass their own judges)"""
    fam, P, x = inp["fam"], inp["params"], inp["x"]
    s1, p = call("p" + fam, [x], P)
    if s1 != "ok" or p is None:
        return None
    if not (1e-3 < float(p) < 1 - 1e-3):
        return None
    s2, xq = call("q" + fam, [float(p)], P)
    if s2 != "ok" or xq is None:
        return None
    if abs(float(xq) - x) <= 1e-7 * max(1.0, abs(x)):
        return None
    return ("q%s-roundtrip" % fam, "q%s(p%s(%r)) = %r with %r" % (fam, fam, x, xq, P))


def judge_seed(inp):
    """two calls with the same integer seed; the global numpy state is reseeded differently (g1, g2) before each,
    or left to evolve (g2 = None)"""
    fn, P, n, seed = inp["fn"], inp["params"], inp["n"], inp["seed"]
    np.random.seed(inp["g1"])
    s1, a = call(fn, [n], dict(P, seed=seed))
    if inp.get("g2") is not None:
        np.random.seed(inp["g2"])
    s2, b = call(fn, [n], dict(P, seed=seed))
    desc = "%s(%d, %s, seed=%d)" % (fn, n, ", ".join("%s=%r" % kv for kv in P.items()), seed)
    if s1 == "raise" or s2 == "raise":
        return (fn + "-raises", "%s raised %s" % (desc, a if s1 == "raise" else b))
    if a is None or b is None:
        return (fn + "-returns-none", "%s returned None" % desc)
    if np.array_equal(np.asarray(a), np.asarray(b)):
        return None
    return (fn + "-seed-not-reproducible", "%s called twice gave %s then %s"
            % (desc, np.asarray(a).ravel()[:3].tolist(), np.asarray(b).ravel()[:3].tolist()))


def judge_dist(inp):
    """mean and variance of n seeded draws against the moments of R's family"""
    fn, fam, P, n, seed = inp["fn"], inp["fam"], inp["params"], inp["n"], inp["seed"]
    np.random.seed(inp["g1"])
    kw = dict(P)
    if "seed" in inspect.signature(getattr(D(), fn)).parameters:
        kw["seed"] = seed
    if inp.get("single"):                      # the n = 1 branch: n calls of f(1, ..., seed = seed + i)
        vals, st = [], "ok"
        for i in range(n):
            if "seed" in kw:
                kw["seed"] = seed + i
            st, a = call(fn, [1], kw)
            if st != "ok" or a is None:
                break
            vals.append(a)
        desc = "%d calls of %s(1, %s) with seed=%d+i" % (n, fn, ", ".join("%s=%r" % kv for kv in P.items()), seed)
        if st == "ok" and a is not None:
            a = np.asarray(vals, dtype=float).ravel()     # scalar or length-1 array: the property is silent on shape
    else:
        st, a = call(fn, [n], kw)
        desc = "%s(%d, %s)" % (fn, n, ", ".join("%s=%r" % kv for kv in kw.items()))
    if st == "raise":
        return (fn + "-raises", "%s raised %s" % (desc, a))
    if a is None:
        return (fn + "-returns-none", "%s returned None" % desc)
    a = np.asarray(a, dtype=float)
    if a.shape != (n,):
        return (fn + "-wrong-shape", "%s returned shape %r" % (desc, a.shape))
    Pm = dict(P)
    if fam == "nbinom" and Pm.get("prob") is None:
        Pm["prob"] = Pm["size"] / (Pm["size"] + Pm["mu"])
    m, v = moments(fam, Pm)
    sm, sv = a.mean(), a.var(ddof=1)
    m4 = ((a - sm) ** 4).mean()
    se_m = math.sqrt(v / n)
    se_v = math.sqrt(max(m4 - sv ** 2, 1e-300) / n)
    if abs(sm - m) > ZMEAN * se_m:
        return (fn + "-wrong-distribution", "%s: sample mean %.6g, R's %s family has mean %.6g (%.1f standard errors)"
                % (desc, sm, fam, m, abs(sm - m) / se_m))
    if abs(sv - v) > ZVAR * se_v + 1e-12:
        return (fn + "-wrong-distribution", "%s: sample variance %.6g, R's %s family has variance %.6g (%.1f standard errors)"
                % (desc, sv, fam, v, abs(sv - v) / se_v))
    return None


def judge_q_cross(inp):
    """quantile helpers of different families called one after the other with literally the same numbers (all by
    position, parameters that are left out take R's defaults): each answer is still its own family's quantile"""
    mp = mpctx()
    for u, nums in inp["rounds"]:
        for fn in sorted(QPOSITIONAL):
            names, fam = QPOSITIONAL[fn], fn[1:]
            if len(nums) > len(names) or not all(k in RDEF.get(fam, {}) for k in names[len(nums):]):
                continue
            P = full(fam, dict(zip(names, nums)))
            if fam == "unif" and not P["min"] < P["max"]:
                continue
            st, got = call(fn, [u] + list(nums), {})
            desc = "%s(%s) [after the other quantile helpers were called with the same numbers]" % (fn, ", ".join(repr(a) for a in [u] + list(nums)))
            if st == "missing":
                continue
            if st == "raise":
                return (fn + "-raises", "%s raised %s" % (desc, got))
            if fam in DISCRETE:
                k = 0
                while o_plain(fam, "p", k, P, mp) < u and k < 10000:
                    k += 1
                if min(abs(float(o_plain(fam, "p", j, P, mp)) - u) for j in (max(k - 1, 0), k)) < 1e-6:
                    continue                    # near-tie
                if float(got) != k:
                    return (fn + "-not-inverse", "%s = %r but the smallest k with cdf(k) >= p is %d" % (desc, got, k))
                continue
            back = o_plain(fam, "p", float(got), P, mp)
            if abs(float(back - mp.mpf(u))) > QTOL:
                return (fn + "-not-inverse", "%s = %r but the cdf of R's %s family there is %s, not %r"
                        % (desc, got, fam, mp.nstr(back, 15), u))
    return None


JUDGES = {"dp": judge_dp, "q": judge_q, "roundtrip": judge_roundtrip, "seed": judge_seed, "dist": judge_dist, "q_cross": judge_q_cross}


def judge(inp):
    return JUDGES[inp["kind"]](inp)


# ====================================================================== K: printed tables vs the running code
SEED_ARGS = {"SNone": lambda: None, "SInt": lambda: 7, "SInt0": lambda: 0,
             "SRS": lambda: np.random.RandomState(11), "STrue": lambda: True, "SFalse": lambda: False}


def mode_kwargs(mode, env):
    if mode == "NoMode":
        return {}
    given = {"ByProb": ("prob",), "ByMu": ("mu",), "Neither": (), "Both": ("prob", "mu")}[mode]
    return {p: (env[p] if p in given else None) for p in ("prob", "mu")}


def env_for(fname, rng, first):
    """float environment for the wrapper's parameters (by their R names)"""
    f = getattr(D(), fname)
    names = list(inspect.signature(f).parameters)
    fam = fname[1:]
    P = gen_params(fam, rng)
    if fam == "nbinom":
        P["mu"] = P["size"] * (1 - P["prob"]) / P["prob"]
    env = {}
    for nm in names[1:]:
        if nm in ("log", "lower_tail", "seed"):
            continue
        if nm not in P:
            return None, None
        env[nm] = P[nm]
    env[first] = None
    return env, names


def same(a, b):
    if a is None or b is None:
        return a is None and b is None
    a, b = np.asarray(a), np.asarray(b)
    return a.shape == b.shape and np.array_equal(a, b, equal_nan=True)


def run_catch(f):
    try:
        return ("ok", f())
    except Exception as e:            # noqa: BLE001
        return ("raise", type(e).__name__)


def k_dpq(ck, ntable, rng, reps):
    import scipy.stats as st
    bad, n = [], 0
    for key in ntable:
        fname, flags, mode, nimpl = sval(key[0]), {sval(k): v for k, v in key[1]}, key[2][1], key[3]
        fam = fname[1:]
        for _ in range(reps):
            env, names = env_for(fname, rng, "x")
            if env is None:
                ck.notes.setdefault("k_skipped", []).append(fname)
                break
            Pm = {k: v for k, v in env.items() if k != "x" and v is not None}
            if fam == "nbinom":
                Pm = dict(size=env["size"], prob=env["prob"])
            if fname[0] == "q":
                x = float(rng.uniform(0.02, 0.98))
                if flags.get("log"):
                    x = math.log(x)
            else:
                x = gen_arg(fam, Pm, rng)
            env["x"] = x
            kw = {k: v for k, v in env.items() if k not in ("x", "prob", "mu")}
            kw.update(mode_kwargs(mode, env) if mode != "NoMode" else
                      {k: env[k] for k in ("prob", "mu") if k in env})
            kw.update(flags)
            real = run_catch(lambda: getattr(D(), fname)(x, **kw))
            tag = ident(nimpl)
            if tag == "NStub":
                model = ("ok", None)
            elif tag == "NRaises":
                model = ("raise", "?")
            elif nimpl[1] == "NScipy":
                famc, meth, kws = nimpl[2][0][1], nimpl[2][1][1], nimpl[2][2]
                def m():
                    k = kwargs_of(kws, env)
                    xx = k.pop("x")
                    return getattr(getattr(st, SCIPY_NAME[famc]), meth.lower())(xx, **k)
                model = run_catch(m)
            else:
                model = run_catch(lambda: ev_expr(nimpl[2][0], env))
            n += 1
            inline = nimpl[0] == "app" and nimpl[1] == "NInline"
            if real[0] != model[0]:
                agree = False
            elif real[0] == "raise":
                agree = True
            elif inline:
                agree = real[1] is not None and bool(np.isclose(real[1], model[1], rtol=1e-12, atol=0))
            else:
                agree = same(real[1], model[1])
            ck.case(dict(k="table", fn=fname, flags=flags, mode=mode, x=x, params=Pm),
                    nontrivial=nontrivial_params(fam, Pm))
            if not agree:
                bad.append(dict(fn=fname, flags=flags, mode=mode, env={k: v for k, v in env.items()},
                                real=str(real), model=str(model)))
    return n, bad


def k_r(ck, nrtable, rng):
    import scipy.stats as st
    bad, n = [], 0
    for key in nrtable:
        fname, kind, nb, mode, nimpl = sval(key[0]), key[1][1], key[2][1], key[3][1], key[4]
        env, names = env_for(fname, rng, "n")
        if env is None:
            ck.notes.setdefault("k_skipped", []).append(fname)
            continue
        cnt = 3 if nb == "Many" else 1
        env["n"] = cnt
        kw = {k: v for k, v in env.items() if k not in ("n", "prob", "mu")}
        kw.update(mode_kwargs(mode, env) if mode != "NoMode" else {k: env[k] for k in ("prob", "mu") if k in env})
        has_seed = "seed" in names
        G = int(rng.integers(1, 2 ** 31 - 1))
        np.random.seed(G)
        s0 = np.random.get_state()
        if has_seed:
            kw["seed"] = SEED_ARGS[kind]()
        real = run_catch(lambda: getattr(D(), fname)(cnt, **kw))
        s1 = np.random.get_state()
        advanced = not (np.array_equal(s0[1], s1[1]) and s0[2] == s1[2])
        tag = ident(nimpl)
        n += 1
        ck.case(dict(k="rtable", fn=fname, kind=kind, nb=nb, mode=mode), nontrivial=kind != "SNone")
        if tag == "NRStub":
            agree = real == ("ok", None)
        elif tag == "NRRaises":
            agree = real[0] == "raise"
        else:
            src = nimpl[2][0][1]
            which, kws, first = nimpl[2][1][1], nimpl[2][2], nimpl[2][3]
            k = kwargs_of(kws, env)
            np.random.seed(G)
            if src in ("Global", "GlobalCopy"):
                rs = np.random if src == "Global" else None
                if src == "GlobalCopy":
                    rs = np.random.RandomState()
                    rs.set_state(np.random.get_state())
            elif src == "FromSeed":
                rs = np.random.RandomState(SEED_ARGS[kind]())
            elif src == "Passed":
                rs = SEED_ARGS[kind]()
            else:
                rs = None
            if rs is None:                                  # FreshUnseeded: values cannot be predicted
                agree = real[0] == "ok" and real[1] is not None and not advanced and \
                    np.ndim(real[1]) == (0 if first else 1)
            else:
                if nimpl[1] == "NRNp":
                    model = run_catch(lambda: getattr(rs, NP_NAME[which])(**k))
                else:
                    model = run_catch(lambda: getattr(st, SCIPY_NAME[which]).rvs(
                        random_state=(None if rs is np.random else rs), **k))
                if model[0] == "ok" and first:
                    model = ("ok", model[1][0])
                agree = real[0] == model[0] and (real[0] == "raise" or same(real[1], model[1])) and \
                    advanced == (src == "Global")
        if not agree:
            bad.append(dict(fn=fname, kind=kind, nb=nb, mode=mode, real=str(real)[:200], table=str(nimpl)[:300],
                            global_state_advanced=advanced))
    return n, bad


# ====================================================================== inputs
CORPUS = [
    dict(kind="q_cross", fam="cross", fn="qexp", params={}, flags={},
         rounds=[[0.3, []], [0.75, [2.0]], [0.6, [2.0, 3.0]], [0.6, [4, 0.5]], [0.3, []], [0.75, [2.0]]]),
    dict(kind="dp", fn="pchisq", fam="chisq", x=2.0, params=dict(df=3.0), flags=dict(log=False)),
    dict(kind="dp", fn="dchisq", fam="chisq", x=2.0, params=dict(df=3.0), flags=dict(log=False)),
    dict(kind="dp", fn="dbeta", fam="beta", x=0.3, params=dict(shape1=2.0, shape2=3.0), flags=dict(log=True)),
    dict(kind="dp", fn="pnbinom", fam="nbinom", x=1, params=dict(size=2.0, prob=0.5), flags=dict(log=False)),
    dict(kind="q", fn="qnbinom", fam="nbinom", k=1, params=dict(size=2.0, prob=0.5), flags={}),
    dict(kind="seed", fn="runif", fam="unif", n=3, seed=5, params=dict(min=-1.0, max=2.5), g1=1, g2=2),
    dict(kind="dist", fn="rnbinom", fam="nbinom", n=4000, seed=5, params=dict(size=2.5, mu=1.7), g1=1),
    dict(kind="dp", fn="dnbinom", fam="nbinom", x=3, params=dict(size=2.5, mu=1.7), flags=dict(log=True)),
    dict(kind="dp", fn="dexp", fam="exp", x=0.4, params=dict(rate=2.5), flags=dict(log=False)),
    # large arguments: closed forms written with gamma/binomial coefficients overflow here, log-gamma forms do not
    dict(kind="dp", fn="dnbinom", fam="nbinom", x=600, params=dict(size=600.0, mu=600.0), flags=dict(log=False)),
    dict(kind="dp", fn="dnbinom", fam="nbinom", x=600, params=dict(size=600.0, mu=600.0), flags=dict(log=True)),
    dict(kind="dp", fn="dnbinom", fam="nbinom", x=900, params=dict(size=750.5, mu=820.0), flags=dict(log=True)),
    dict(kind="dp", fn="dpois", fam="pois", x=790, params=dict(mu=800.0), flags=dict(log=True)),
    dict(kind="dp", fn="dbinom", fam="binom", x=1010, params=dict(size=2000, prob=0.5), flags=dict(log=False)),
    dict(kind="dp", fn="dgamma", fam="gamma", x=148.0, params=dict(shape=300.0, rate=2.0), flags=dict(log=True)),
    # different families asked for the same probability with the same numbers, one after the other
    dict(kind="q", fn="qexp", fam="exp", u=0.3, params={}, flags={}),
    dict(kind="q", fn="qnorm", fam="norm", u=0.3, params={}, flags={}),
    dict(kind="q", fn="qunif", fam="unif", u=0.3, params={}, flags={}),
    dict(kind="q", fn="qchisq", fam="chisq", u=0.75, params=dict(df=2.0), flags={}, positional=True),
    dict(kind="q", fn="qexp", fam="exp", u=0.75, params=dict(rate=2.0), flags={}, positional=True),
    dict(kind="q", fn="qgamma", fam="gamma", u=0.75, params=dict(shape=2.0, rate=3.0), flags={}, positional=True),
    dict(kind="q", fn="qnorm", fam="norm", u=0.75, params=dict(mean=2.0, sd=3.0), flags={}, positional=True),
    dict(kind="q", fn="qunif", fam="unif", u=0.75, params=dict(min=2.0, max=3.0), flags={}, positional=True),
    dict(kind="q", fn="qbeta", fam="beta", u=0.75, params=dict(shape1=2.0, shape2=3.0), flags={}, positional=True),
    # arguments so small that 1 - exp(-x) loses every digit unless it is computed as -expm1(-x); both tail flags together
    dict(kind="dp", fn="pexp", fam="exp", x=1e-12, params=dict(rate=2.5), flags=dict(log=False)),
    dict(kind="dp", fn="pexp", fam="exp", x=3e-18, params=dict(rate=0.5), flags=dict(log=True)),
    dict(kind="dp", fn="pgamma", fam="gamma", x=1e-9, params=dict(shape=1.0, rate=2.0), flags=dict(log=False)),
    dict(kind="roundtrip", fam="exp", x=1e-17, params=dict(rate=2.5)),
    dict(kind="dp", fn="pnbinom", fam="nbinom", x=3, params=dict(size=2.5, prob=0.4), flags=dict(log=True, lower_tail=False)),
    dict(kind="q", fn="qnbinom", fam="nbinom", k=3, params=dict(size=2.5, prob=0.4), flags=dict(lower_tail=False, log=True)),
    dict(kind="q", fn="qnbinom", fam="nbinom", k=2, params=dict(size=4.0, mu=3.0), flags=dict(lower_tail=False)),
    # arguments by position (the log flag last), end points of the support
    dict(kind="dp", fn="dchisq", fam="chisq", x=3.0, params=dict(df=4.0), flags=dict(log=True), positional=True),
    dict(kind="dp", fn="pchisq", fam="chisq", x=3.0, params=dict(df=4.0), flags=dict(log=True), positional=True),
    dict(kind="dp", fn="dgamma", fam="gamma", x=1.3, params=dict(shape=2.5, rate=1.5), flags=dict(log=True), positional=True),
    dict(kind="dp", fn="pnorm", fam="norm", x=0.3, params=dict(mean=1.0, sd=2.0), flags=dict(log=True), positional=True),
    dict(kind="dp", fn="dunif", fam="unif", x=2.0, params=dict(min=-1.0, max=2.0), flags=dict(log=False)),
    dict(kind="dp", fn="dunif", fam="unif", x=-1.0, params=dict(min=-1.0, max=2.0), flags=dict(log=True)),
    dict(kind="dp", fn="punif", fam="unif", x=2.0, params=dict(min=-1.0, max=2.0), flags=dict(log=False)),
    dict(kind="dp", fn="punif", fam="unif", x=-1.0, params=dict(min=-1.0, max=2.0), flags=dict(log=False)),
    dict(kind="dp", fn="dbinom", fam="binom", x=5, params=dict(size=5, prob=0.3), flags=dict(log=False)),
    dict(kind="dp", fn="dbeta", fam="beta", x=1.0, params=dict(shape1=2.0, shape2=1.0), flags=dict(log=False)),
    # boundary of the parameter space, arguments outside the support, parameters given as integers
    dict(kind="dp", fn="dpois", fam="pois", x=0, params=dict(mu=0.0), flags=dict(log=False)),
    dict(kind="dp", fn="dpois", fam="pois", x=0, params=dict(mu=0.0), flags=dict(log=True)),
    dict(kind="dp", fn="dgamma", fam="gamma", x=-1.0, params=dict(shape=1.0, rate=2.0), flags=dict(log=False)),
    dict(kind="dp", fn="dgamma", fam="gamma", x=-0.02, params=dict(shape=2.5, rate=20.0), flags=dict(log=False)),
    dict(kind="dp", fn="dexp", fam="exp", x=-0.5, params=dict(rate=2.0), flags=dict(log=False)),
    dict(kind="dp", fn="pexp", fam="exp", x=-0.5, params=dict(rate=2.0), flags=dict(log=False)),
    dict(kind="dp", fn="dunif", fam="unif", x=5.0, params=dict(min=0.0, max=2.0), flags=dict(log=False)),
    dict(kind="dp", fn="dbeta", fam="beta", x=1.5, params=dict(shape1=2.0, shape2=3.0), flags=dict(log=False)),
    dict(kind="dp", fn="dexp", fam="exp", x=0.4, params=dict(rate=2), flags=dict(log=False)),
    dict(kind="dp", fn="pexp", fam="exp", x=0.4, params=dict(rate=3), flags=dict(log=True)),
    dict(kind="dp", fn="dgamma", fam="gamma", x=1.4, params=dict(shape=2, rate=3), flags=dict(log=False)),
    dict(kind="dp", fn="pgamma", fam="gamma", x=1.4, params=dict(shape=2.5, rate=2), flags=dict(log=False)),
    dict(kind="q", fn="qexp", fam="exp", u=0.3, params=dict(rate=2), flags={}),
    dict(kind="q", fn="qgamma", fam="gamma", u=0.3, params=dict(shape=2.0, rate=4), flags={}),
    dict(kind="dp", fn="dnorm", fam="norm", x=1, params=dict(mean=0, sd=2), flags=dict(log=False)),
    dict(kind="seed", fn="rexp", fam="exp", n=3, seed=5, params=dict(rate=4), g1=1, g2=2),
    dict(kind="dist", fn="rgamma", fam="gamma", n=4000, seed=7, params=dict(shape=3, rate=2), g1=1),
    # far tails in log form: the plain value underflows to 0 there, the log density / log cdf is finite
    dict(kind="dp", fn="dnorm", fam="norm", x=41.0, params=dict(mean=1.0, sd=1.0), flags=dict(log=True)),
    dict(kind="dp", fn="pnorm", fam="norm", x=-40.0, params=dict(mean=0.5, sd=1.0), flags=dict(log=True)),
    dict(kind="dp", fn="dexp", fam="exp", x=400.0, params=dict(rate=2.5), flags=dict(log=True)),
    dict(kind="dp", fn="dgamma", fam="gamma", x=900.0, params=dict(shape=2.5, rate=1.5), flags=dict(log=True)),
    dict(kind="dp", fn="dchisq", fam="chisq", x=1800.0, params=dict(df=3.0), flags=dict(log=True)),
    dict(kind="dp", fn="dbeta", fam="beta", x=0.001, params=dict(shape1=250.0, shape2=3.0), flags=dict(log=True)),
    dict(kind="dp", fn="pexp", fam="exp", x=1e-20, params=dict(rate=2.5), flags=dict(log=True)),
    dict(kind="dp", fn="dpois", fam="pois", x=400, params=dict(mu=2.5), flags=dict(log=True)),
    dict(kind="dp", fn="dbinom", fam="binom", x=1990, params=dict(size=2000, prob=0.25), flags=dict(log=True)),
]


def has_param(fn, name):
    f = getattr(D(), fn, None)
    return f is not None and name in inspect.signature(f).parameters


def gen_inputs(rng, ndp, nq, nseed, ndist):
    out = []
    for fam in FAMS:
        for _ in range(ndp):
            P = gen_params(fam, rng)
            x = gen_arg(fam, P, rng)
            forms = [P]
            if fam == "nbinom":
                forms.append(dict(size=P["size"], mu=P["size"] * (1 - P["prob"]) / P["prob"]))
            for Pf in forms:
                for fn in ("d", "p"):
                    out.append(dict(kind="dp", fn=fn + fam, fam=fam, x=x, params=Pf, flags={}))   # log defaulted
                    for lg in (False, True):
                        out.append(dict(kind="dp", fn=fn + fam, fam=fam, x=x, params=Pf, flags=dict(log=lg)))
                        if fn == "p" and has_param("p" + fam, "lower_tail"):
                            out.append(dict(kind="dp", fn=fn + fam, fam=fam, x=x, params=Pf,
                                            flags=dict(log=lg, lower_tail=False)))
        for _ in range(nq):
            P = gen_params(fam, rng)
            forms = [P]
            if fam == "nbinom":
                forms.append(dict(size=P["size"], mu=P["size"] * (1 - P["prob"]) / P["prob"]))
            for Pf in forms:
                if fam in DISCRETE:
                    Pm = dict(P)
                    base = dict(kind="q", fn="q" + fam, fam=fam, k=gen_arg(fam, Pm, rng), params=Pf)
                else:
                    base = dict(kind="q", fn="q" + fam, fam=fam, u=float(rng.uniform(0.01, 0.99)), params=Pf)
                    out.append(dict(kind="roundtrip", fam=fam, x=gen_arg(fam, P, rng), params=Pf))
                out.append(dict(base, flags={}))
                if has_param("q" + fam, "lower_tail"):
                    out.append(dict(base, flags=dict(lower_tail=False)))
                    if fam == "nbinom":
                        out.append(dict(base, flags=dict(log=True)))
                        out.append(dict(base, flags=dict(log=True, lower_tail=False)))
    for _ in range(max(2, ndp // 4)):                 # far tails, log form (the plain value underflows there)
        P = gen_params("norm", rng)
        z = float(rng.uniform(39.0, 60.0))
        out.append(dict(kind="dp", fn="dnorm", fam="norm", x=P["mean"] + [-z, z][int(rng.integers(0, 2))] * P["sd"], params=P,
                        flags=dict(log=True)))
        out.append(dict(kind="dp", fn="pnorm", fam="norm", x=P["mean"] - z * P["sd"], params=P, flags=dict(log=True)))
        P = gen_params("exp", rng)
        out.append(dict(kind="dp", fn="dexp", fam="exp", x=float(rng.uniform(760.0, 3000.0)) / P["rate"], params=P,
                        flags=dict(log=True)))
        P = gen_params("gamma", rng)
        out.append(dict(kind="dp", fn="dgamma", fam="gamma", x=float(rng.uniform(900.0, 3000.0)) / P["rate"], params=P,
                        flags=dict(log=True)))
    for _ in range(max(2, ndp // 4)):                 # every argument by position; an end point of the support
        fam = ["chisq", "exp", "gamma", "norm", "unif", "pois", "binom", "beta"][int(rng.integers(0, 8))]
        P = gen_params(fam, rng)
        fn = "dp"[int(rng.integers(0, 2))] + fam
        if fn in POSITIONAL:
            out.append(dict(kind="dp", fn=fn, fam=fam, x=gen_arg(fam, P, rng), params=P, flags=dict(log=bool(rng.random() < 0.7)), positional=True))
        P = gen_params("unif", rng)
        out.append(dict(kind="dp", fn="dp"[int(rng.integers(0, 2))] + "unif", fam="unif", x=P[["min", "max"][int(rng.integers(0, 2))]],
                        params=P, flags={}))
    for _ in range(max(2, ndp // 4)):                 # parameters given as Python ints; arguments outside the support
        r = int(rng.integers(2, 9))
        x = float(rng.uniform(0.05, 2.0))
        out.append(dict(kind="dp", fn="dexp", fam="exp", x=x, params=dict(rate=r), flags=dict(log=bool(rng.random() < 0.5))))
        out.append(dict(kind="dp", fn="pgamma", fam="gamma", x=x, params=dict(shape=int(rng.integers(1, 6)), rate=r), flags={}))
        out.append(dict(kind="q", fn="qexp", fam="exp", u=float(rng.uniform(0.05, 0.95)), params=dict(rate=r), flags={}))
        out.append(dict(kind="dp", fn="dnorm", fam="norm", x=x, params=dict(mean=int(rng.integers(-3, 4)), sd=int(rng.integers(2, 5))), flags={}))
        P = gen_params("gamma", rng)
        out.append(dict(kind="dp", fn="dgamma", fam="gamma", x=-float(rng.uniform(0.01, 3.0)), params=P, flags={}))
        P = gen_params("beta", rng)
        out.append(dict(kind="dp", fn="dbeta", fam="beta", x=float(rng.uniform(1.01, 3.0)), params=P, flags={}))
    for fam in RDEF:                                  # parameters left to their defaults
        for _ in range(max(2, ndp // 4)):
            keep = {k: v for k, v in gen_params(fam, rng).items() if k not in RDEF[fam]}
            x = gen_arg(fam, full(fam, keep), rng)
            out.append(dict(kind="dp", fn="d" + fam, fam=fam, x=x, params=keep, flags={}))
            out.append(dict(kind="dp", fn="p" + fam, fam=fam, x=x, params=keep, flags=dict(log=True)))
            out.append(dict(kind="q", fn="q" + fam, fam=fam, u=float(rng.uniform(0.01, 0.99)), params=keep, flags={}))
    for fn in SEEDED:
        fam = fn[1:]
        for j in range(nseed):
            P = gen_params(fam, rng)
            seed = [0, 1, int(rng.integers(2, 2 ** 31 - 1))][j % 3]
            out.append(dict(kind="seed", fn=fn, fam=fam, n=[1, 3, 10][int(rng.integers(0, 3))], seed=seed, params=P,
                            g1=int(rng.integers(1, 10 ** 6)), g2=[None, int(rng.integers(1, 10 ** 6))][j % 2]))
    for fn in SEEDED + ["rbeta", "rnbinom"]:
        fam = fn[1:]
        for j in range(ndist):
            P = gen_params(fam, rng)
            if fam == "nbinom" and j % 2:
                P = dict(size=P["size"], mu=P["size"] * (1 - P["prob"]) / P["prob"])
            out.append(dict(kind="dist", fn=fn, fam=fam, n=4000, seed=int(rng.integers(0, 2 ** 31 - 1)), params=P,
                            g1=int(rng.integers(1, 10 ** 6))))
            out.append(dict(kind="dist", fn=fn, fam=fam, n=1500, seed=int(rng.integers(0, 2 ** 30)), params=P,
                            g1=int(rng.integers(1, 10 ** 6)), single=True))
    return out


def is_nontrivial(inp):
    P = {k: v for k, v in inp["params"].items()}
    if inp["kind"] == "q_cross":
        return True
    if inp["kind"] == "seed":
        return inp["n"] > 1 or inp.get("g2") is not None
    return nontrivial_params(inp["fam"], P) or len(P) < len(full(inp["fam"], P))


COQ_DIAG = """From Coq Require Import String List ZArith.
From PV Require Import Distn Gen.DistnGen.
Import ListNotations. Open Scope string_scope.
Eval vm_compute in translator_ok.
Eval vm_compute in map (fun ki => (fst ki, nimpl_of (snd ki))) table.
Eval vm_compute in map (fun ki => (fst ki, nrimpl_of (snd ki))) rtable.
Eval vm_compute in test_seed_table.
Eval vm_compute in bad_entries table.
Eval vm_compute in bad_rentries rtable.
Eval vm_compute in bad_log_pairs table.
Eval vm_compute in (present, shadowed, other_fns).
Eval vm_compute in bad_defaults defaults.
"""


def keystr(k):
    parts = [sval(k[0])]
    for x in k[1:]:
        if isinstance(x, list):
            parts.append(",".join("%s=%s" % (sval(a), b) for a, b in x))
        else:
            parts.append(x[1])
    return ":".join(p for p in parts if p not in ("", "NoMode"))


def run(ck):
    import gen_distn
    ck.rule = ("K: every entry of the extracted tables (wrapper x flag values x prob/mu alternative; generator x kind "
               "of seed x n-branch) is interpreted by a direct scipy/numpy call on random valid parameters and compared "
               "bit-for-bit with the real wrapper.  Search: per family random valid R parameters (away from the defaults) "
               "and arguments in the bulk of the support, d/p in plain and log form (and upper tail where offered) "
               "against mpmath at 40 digits; quantiles against the mpmath cdf (continuous) or the exact jump (discrete); "
               "generators called twice with the same int seed under different global states; moments of 4000 draws.  "
               "non-trivial = parameters differ from the defaults (rate/sd/max 1, mean/min 0) so that the "
               "parameterisation matters; seed cases: n>1 or global state reseeded in between; distinct by JSON hash")
    text = gen_distn.generate()
    ck.coq_build("C19", [("DistnGen", text)], extra=("Util.vo", "Distn.vo", "DistnProofs.vo"))
    common.name_assumptions(ck, "C19")
    rng = np.random.default_rng(ck.seed)
    if not ck.quick and not ck.broken:
        cmd = "timeout 900 coqchk -silent -o -R . PV PV.Props.C19"
        ck.checker_cmds.append("cd /verif/coq && " + cmd)
        rc, out = common.sh(cmd, cwd=common.COQ, timeout=1000)
        ck.notes["coqchk"] = "ok" if rc == 0 else out[-800:]
        if rc != 0:
            raise common.InternalError("coqchk failed: " + out[-400:])

    # ------------------------------------------------------------ what Coq makes of the extracted tables
    vals = ck.coq_eval("c19_diag", COQ_DIAG)
    tr_ok = vals[0] == "true"
    ck.notes["translator_ok"] = tr_ok
    if not tr_ok:
        ck.notes["translator_reason"] = text.split("\n")[0]
    ntable, nrtable = parse_coq(vals[1]), parse_coq(vals[2])
    ck.notes["test_seed_table"] = vals[3]
    bad_e, bad_r, bad_l = parse_coq(vals[4]), parse_coq(vals[5]), parse_coq(vals[6])
    ck.notes["table_entries"] = dict(dpq=len(ntable), r=len(nrtable))
    ck.notes["table_bad_entries"] = sorted({keystr(k) for k in bad_e})
    ck.notes["rtable_bad_entries"] = sorted({keystr(k) for k in bad_r})
    ck.notes["log_bad_pairs"] = sorted({keystr(k) for k in bad_l})
    ck.notes["functions"] = vals[7]
    ck.notes["bad_defaults"] = vals[8]

    # ------------------------------------------------------------ K
    reps = ck.budget(3, 12)
    n1, bad1 = k_dpq(ck, ntable, rng, reps)
    n2, bad2 = k_r(ck, nrtable, rng)
    ck.notes["correspondence_cases"] = n1 + n2
    ck.notes["correspondence_disagreements"] = len(bad1) + len(bad2)
    if bad1 or bad2:
        ck.broken.append(dict(theorem="correspondence extracted table vs utilR.distn", file="c19 K",
                              error=json.dumps((bad1 + bad2)[:3], default=str)[:1500]))

    # ------------------------------------------------------------ search
    inputs = list(CORPUS) + gen_inputs(rng, ck.budget(12, 500), ck.budget(8, 250), ck.budget(6, 100), ck.budget(1, 10))
    dist, excluded, missing = {}, 0, set()
    rt_fail = []
    for inp in inputs:
        fn = inp.get("fn", "q" + inp["fam"])
        if getattr(D(), fn, None) is None:
            missing.add(fn)
            continue
        j = judge(inp)
        ck.case(inp, nontrivial=is_nontrivial(inp))
        dist[inp["kind"] + ":" + inp["fam"]] = dist.get(inp["kind"] + ":" + inp["fam"], 0) + 1
        if j is None:
            continue
        if inp["kind"] == "roundtrip":
            rt_fail.append((j, inp))
            continue
        ck.violation(j[0], j[1], inp)
    flagged = {v["cls"].split("-")[0][1:] for v in ck.violations}
    for j, inp in rt_fail:
        if inp["fam"] not in flagged:
            ck.violation(j[0], j[1], inp)
    ck.notes["input_distribution"] = dist
    ck.notes["absent_functions"] = sorted(missing)
    ck.notes["tolerances"] = dict(value_rtol=RTOL, value_atol=ATOL, quantile_prob_abs=QTOL, z_mean=ZMEAN, z_var=ZVAR,
                                  table_vs_code="exact (bitwise) except inlined kernels rtol 1e-12")
    ck.notes["observed_max_rel_err_vs_mpmath"] = STATS["max_rel_err"]
    ck.notes["observed_max_quantile_prob_err"] = STATS["max_q_err"]
    ck.assumptions += [
        "scipy.stats follows its documented location-scale / shape conventions (Section hypotheses sp_ls_contract, "
        "sp_log_contract, sp_nb_contract; shown jointly satisfiable by C19_contracts_satisfiable; every wrapper is "
        "additionally compared with mpmath on each run)",
        "numpy RandomState(seed) is a deterministic function of the seed; samplers are functions state -> value * state",
        "translator semantics: later def wins, isinstance(bool, int) is True, truthiness of 0/None/False is False",
        "pbeta does not exist in utilR (nothing to check); q*(log=True) is not constrained by the property; numpy integer "
        "seeds (np.int64) are rejected by test_seed with RuntimeError: observed, not counted as a violation",
    ]


def replay(ck, data):
    j = judge(data["input"])
    return j[1] if j else None
