"""Writes /verif/MANIFEST.json from the table below (kept in one place so it is always valid)."""
import json, os

VERIF = os.path.dirname(os.path.dirname(os.path.abspath(__file__)))
ALL = ["C%02d" % i for i in range(1, 21)]

BASE_NOTE = ("Trusted: Coq 8.16.1 kernel + vm_compute; the fail-closed Python-ast translators in /verif/gen; the "
             "correspondence harness (/verif/harness) and its tolerances; external engines (sympy, scipy, numpy RNG) are "
             "modelled as oracles, not verified. Axioms per theorem are printed by Print Assumptions on every run into the "
             "evidence file. ")

CLAIMED = {
    "C01": dict(
        technique="Coq proof by reflection over accumulation tables regenerated from the source (ast translator) + generic-ring "
                  "algebra (decomposition theorem) + exact Qc correspondence against pygom's symbolic objects",
        text="table_sound (proved once, any commutative ring, any model size): if the table extracted from get_ode_eqn / "
             "get_StateChangeMatrix / get_EventRateVector / get_pureOdeVector passes the boolean check then the loop computes "
             "exactly sum over events of rate x net signed magnitude + explicit terms; C01_decomposition: ODE = V x rates + "
             "pure for every model. Per run: the tables are re-extracted and checked by vm_compute; the table interpreter "
             "instantiated at Qc is compared exactly with pygom's reported ODE/V/rates/pure on random definitions through all "
             "API routes; numeric evaluators (lambda and a measured Cython subset) at 1e-9.",
        ref="DESIGN.md section 4 C01",
        note="Modelled: the four assembly loops and simplifyEquation's identity. Tied by correspondence only: checkEquation "
             "(sympy parsing, derived-parameter substitution), add_* normalisation, compiled argument order. Theorems closed "
             "under the global context."),
    "C10": dict(
        technique="Coq proof (generic ring, induction over events/transitions: columns of V and the assembled RHS of a "
                  "transition-only model sum to zero) over the regenerated tables + Qc correspondence + direct runs",
        text="C10_cols and C10_rhs hold for every transition-only model of any size with arbitrary rates and magnitudes, "
             "stated over the code's extracted tables; the stochastic-path half (C10_path) is proved in the jump-loop model "
             "(Props/C04.v). Per run: Coq evaluates the closedness hypothesis and the zero sums on the same literals pygom "
             "built; sum(get_ode_eqn()) is checked exactly at rational points; integrate() and solve_stochast totals directly.",
        ref="DESIGN.md section 4 C10",
        note="Deterministic conservation 'within solver tolerance' is a runtime fact of odeint, judged at 1e-6 relative. "
             "Theorems closed under the global context."),
    "C12": dict(
        technique="Coq proof (permutation invariance, event splitting, explicit-ODE route, birth-by-origin; route normal form "
                  "route_sound over a table obtained by running the current source of the constructors / add_* methods / list "
                  "setters on symbolic processes) over the regenerated tables + correspondence on the event lists pygom holds "
                  "after each API route and of the source interpreter with the running code",
        text="C12_perm / C12_split_event / C12_explicit_route / C12_birth_origin hold for all models over any commutative ring; "
             "C12_routes_table / C12_routes: every (route, process kind) row of Gen/RoutesGen.v stores one event whose rate and "
             "per-state contribution are, for every instantiation of the symbols, those of the process described. "
             "Per run: the same random process set is entered through Event objects, legacy lists, per-process mixes and "
             "incremental add_* in random orders and declaration styles; the normalised event lists are read back and must be "
             "equal as multisets; Coq (Qc) evaluates both read-backs under the extracted tables and compares with pygom's ODEs.",
        ref="DESIGN.md section 4 C12",
        note="Route normalisation code (add_transition, add_event, add_birth_death, add_ode, list setters, Event/Transition "
             "constructors) is translated by running it in gen/minipy.py (trusted subset interpreter, itself compared with the "
             "running code on every run); declaration splitting is tied by correspondence. Theorems closed under the global context."),
    "C04": dict(
        technique="Coq proof by induction over an arbitrary oracle schedule of the jump-loop model (firstReaction, tauLeap with "
                  "first-reaction fallback, _checkJump, _updateStateWithJump, _newJumpTimes) instantiated with kernel "
                  "functions/facts regenerated from the source + exact step-by-step replay of recorded pygom paths in Qc",
        text="C04_walk: for every configuration (any V, limits), horizon, start and every schedule with positive clocks/tau "
             "and non-negative counts (= all seeds and rate functions) each consecutive pair of recorded rows has t<T, "
             "strictly increasing time, non-negative counts, x' = x + V n' and x' within limits; Horizon stop implies last "
             "t >= T; C04_exact_one_event: unit count vectors in exact mode; C04_start. Per run: _checkJump's per-state test "
             "is translated to Gallina and proved to imply the declared range; recorded paths (clock values, Poisson counts, "
             "tau, rates logged by wrapping module globals) are replayed through the model and must reproduce states and "
             "counts exactly, times at 1e-9; the property is also judged directly on every path incl. 1-event/1-state shapes.",
        ref="DESIGN.md section 4 C04",
        note="Oracle: rate evaluation, numpy samplers (clocks positive, counts >= 0 are hypotheses). Not modelled: float rounding "
             "of t+dt; the adaptive tau formula (tau is logged); the inert Cython safety kernel. Theorems closed under the "
             "global context."),
    "C11": dict(
        technique="Coq proof (limit test translated from _checkJump implies the declared range; induction over all schedules: "
                  "every recorded state within limits; rejected step leaves state and time unchanged) + replay correspondence",
        text="C11_limit_test, C11_reject, C11_accept, C11_path hold for all limits (lower/upper/two-sided/absent), all "
             "schedules, both algorithms incl. the tau->first-reaction fallback, any magnitudes. Per run: translator + "
             "replay of boundary-hitting recorded paths (non-trivial = a rejected step occurred) + direct check of every row.",
        ref="DESIGN.md section 4 C11",
        note="Same trusted base as C04. The initial state is assumed inside the limits (the code never checks it). Theorems closed "
             "under the global context."),
    "C09": dict(
        technique="Coq refinement proof (ordered-dict model of the parameters setter -> name->value map, induction over "
                  "all assignment histories) + source fact translator + vm_compute correspondence on random histories",
        text="Theorems C09_bind / C09_reject_unchanged / C09_unknown_rejected / C09_wrong_length_rejected / "
             "C09_wrong_shape_rejected hold for every declared list and every history of list/pairs/dict assignments (accepted "
             "or rejected); C09_commit_atomic: names that are model symbols but not parameters (t, states) are refused without "
             "effect because the extracted commit order is atomic; the alias fact of the dict branch and the commit order are "
             "regenerated from the source each run and the executable model (trace_f) is compared op-by-op with "
             "the real setter on random mixed-format histories.",
        ref="DESIGN.md section 4 C09",
        note="Modelled: the parameters setter, _extractParamSymbol, get_param_index. Not modelled: stochastic (rv_frozen / "
             "sampler tuple) dict values, scalar one-parameter forms. Theorems closed under the global context."),
}

PENDING_REASON = "not claimed yet: the Coq model and tie for this property are not built at this commit (see DESIGN.md build order)"


def load_claimed():
    """entries contributed per property as harness/claimed/<ID>.json (same keys as CLAIMED values)"""
    d = os.path.join(VERIF, "harness", "claimed")
    if os.path.isdir(d):
        for f in sorted(os.listdir(d)):
            if f.endswith(".json"):
                CLAIMED[f[:-5]] = json.load(open(os.path.join(d, f)))


def main():
    load_claimed()
    checks = []
    for pid in ALL:
        if pid not in CLAIMED:
            continue
        c = CLAIMED[pid]
        checks.append(dict(
            property_id=pid,
            quick_cmd="./check %s --tier quick" % pid,
            thorough_cmd="./check %s --tier thorough" % pid,
            evidence_file="/verif/evidence/%s.json" % pid,
            replay_cmd_template="./check %s --replay {path}" % pid,
            engine="coq",
            level_claimed=dict(category="proof", text=c["text"], design_ref=c["ref"]),
            level_note=BASE_NOTE + c["note"],
            technique=c["technique"],
        ))
    man = dict(
        version=1,
        setup_cmd="./setup.sh",
        hooks=dict(guard="PYGOM_VERIF", enable="no source hooks are needed: every observation point is wrapped from the harness",
                   baseline_off_cmd="cd /repo && /venv/bin/python -m pytest -ra -q -p no:cacheprovider --timeout=900 --continue-on-collection-errors",
                   source_commits=[], add_only=True),
        engines=[dict(name="coq", path="/verif/coq", serves_properties=sorted(CLAIMED),
                      kind_free_text="Coq 8.16.1 development (models, proofs, regenerated Gen/*.v) + Python translators and correspondence harness")],
        checks=checks,
        notes="Checks are ./check <id>; exit 0 held, 1 violation (VIOLATION line), 2 internal error. known_findings.json lists recorded/fixed defects.",
        not_applicable=[dict(property_id=p, reason=PENDING_REASON) for p in ALL if p not in CLAIMED],
    )
    with open(os.path.join(VERIF, "MANIFEST.json"), "w") as f:
        json.dump(man, f, indent=1)


if __name__ == "__main__":
    main()
