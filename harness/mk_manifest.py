"""Writes /verif/MANIFEST.json from the table below (kept in one place so it is always valid)."""
import json, os

VERIF = os.path.dirname(os.path.dirname(os.path.abspath(__file__)))
ALL = ["C%02d" % i for i in range(1, 21)]

BASE_NOTE = ("Trusted: Coq 8.16.1 kernel + vm_compute; the fail-closed Python-ast translators in /verif/gen; the "
             "correspondence harness (/verif/harness) and its tolerances; external engines (sympy, scipy, numpy RNG) are "
             "modelled as oracles, not verified. Axioms per theorem are printed by Print Assumptions on every run into the "
             "evidence file. ")

CLAIMED = {
    "C09": dict(
        technique="Coq refinement proof (ordered-dict model of the parameters setter -> name->value map, induction over "
                  "all assignment histories) + source fact translator + vm_compute correspondence on random histories",
        text="Theorems C09_bind / C09_reject_unchanged / C09_unknown_rejected / C09_wrong_length_rejected hold for every "
             "declared list and every history of list/pairs/dict assignments (accepted or rejected); the alias fact of "
             "the dict branch is regenerated from the source each run and the executable model is compared op-by-op with "
             "the real setter on random mixed-format histories.",
        ref="DESIGN.md section 4 C09",
        note="Modelled: the parameters setter, _extractParamSymbol, get_param_index. Not modelled: stochastic (rv_frozen / "
             "sampler tuple) dict values, scalar one-parameter forms. Theorems closed under the global context."),
}

PENDING_REASON = "not claimed yet: the Coq model and tie for this property are not built at this commit (see DESIGN.md build order)"


def main():
    checks = []
    for pid in ALL:
        if pid not in CLAIMED:
            continue
        c = CLAIMED[pid]
        checks.append(dict(
            property_id=pid,
            quick_cmd="./check %s --tier quick" % pid,
            thorough_cmd="./check %s --tier thorough" % pid,
            evidence_file="/verif/evidence/%s.json" % pid,
            replay_cmd_template="./check %s --replay {path}" % pid,
            engine="coq",
            level_claimed=dict(category="proof", text=c["text"], design_ref=c["ref"]),
            level_note=BASE_NOTE + c["note"],
            technique=c["technique"],
        ))
    man = dict(
        version=1,
        setup_cmd="./setup.sh",
        hooks=dict(guard="PYGOM_VERIF", enable="no source hooks are needed: every observation point is wrapped from the harness",
                   baseline_off_cmd="cd /repo && /venv/bin/python -m pytest -ra -q -p no:cacheprovider --timeout=900 --continue-on-collection-errors",
                   source_commits=[], add_only=True),
        engines=[dict(name="coq", path="/verif/coq", serves_properties=sorted(CLAIMED),
                      kind_free_text="Coq 8.16.1 development (models, proofs, regenerated Gen/*.v) + Python translators and correspondence harness")],
        checks=checks,
        notes="Checks are ./check <id>; exit 0 held, 1 violation (VIOLATION line), 2 internal error. known_findings.json lists recorded/fixed defects.",
        not_applicable=[dict(property_id=p, reason=PENDING_REASON) for p in ALL if p not in CLAIMED],
    )
    with open(os.path.join(VERIF, "MANIFEST.json"), "w") as f:
        json.dump(man, f, indent=1)


if __name__ == "__main__":
    main()
