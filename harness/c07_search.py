"""C07 search: the property stated directly on the implementation.

For catalogue and generated models (lambda back-end), the five loss classes, one or several observed states in any
order, target_param subsets in any order, target_state subsets in any order, non-unit weights (Square / Normal):
    sensitivity(theta), gradient(theta), sensitivity(theta, full_output=True)[0], the gradient assembled from
    jac(theta) (column s + nObs*k <-> s-th supplied state, k-th supplied parameter), sensitivityIV(theta_x0)
are compared with central finite differences of cost / costIV (two step sizes + one Richardson step, computed
here), entry k <-> k-th supplied free variable.  The observations are generic (a perturbed trajectory with
multiplicative noise), never the noise-free truth.
"""
import json
import numpy as np

LOSSES = ["Square", "Normal", "Poisson", "Gamma", "NegBinom"]
TOL = 1e-4            # |g - fd| <= TOL * (1 + |fd|_inf)   (DESIGN.md C07; observed <= 3e-7 on the repaired tree)
FD_AGREE = 2e-5       # the two finite-difference levels must agree to this (relative) or the case is skipped

# ---------------------------------------------------------------------------------------------- models
# states, params, odes (rate strings with integer / ratio constants), theta, x0, positive (all trajectories > 0)
CATALOGUE = {
    "SIR": dict(states=["S", "I", "R"], params=["beta", "gamma"],
                odes=["-beta*S*I/100", "beta*S*I/100-gamma*I", "gamma*I"],
                theta=[0.9, 0.3], x0=[80.0, 15.0, 5.0], positive=True, T=6.0),
    "SIRS": dict(states=["S", "I", "R"], params=["beta", "gamma", "mu"],
                 odes=["-beta*S*I/100+mu*R", "beta*S*I/100-gamma*I", "gamma*I-mu*R"],
                 theta=[1.1, 0.4, 0.15], x0=[75.0, 15.0, 10.0], positive=True, T=6.0),
    "SEIR": dict(states=["S", "E", "I", "R"], params=["beta", "alpha", "gamma"],
                 odes=["-beta*S*I/100", "beta*S*I/100-alpha*E", "alpha*E-gamma*I", "gamma*I"],
                 theta=[1.4, 0.6, 0.35], x0=[70.0, 12.0, 10.0, 8.0], positive=True, T=6.0),
    "LV": dict(states=["x", "y"], params=["a", "b", "c", "d"],
               odes=["a*x-b*x*y/10", "-c*y+d*x*y/10"],
               theta=[0.8, 0.5, 0.6, 0.3], x0=[12.0, 9.0], positive=True, T=5.0),
    "FH": dict(states=["V", "R"], params=["a", "b", "c"],
               odes=["c*(V-V**3/3+R)", "-(V-a+b*R)/c"],
               theta=[0.2, 0.2, 3.0], x0=[-1.0, 1.0], positive=False, T=4.0),
    "LOG1": dict(states=["N"], params=["r", "K"],
                 odes=["r*N*(1-N/K)"], theta=[0.7, 60.0], x0=[8.0], positive=True, T=6.0),
    # a seasonally forced model: time enters through a derived parameter (the observation window often starts at t0 != 0)
    "SISF": dict(states=["S", "I"], params=["beta", "gamma"], derived=[["bt", "beta*(1+cos(t)/2)"]],
                 odes=["-bt*S*I/100+gamma*I", "bt*S*I/100-gamma*I"], theta=[1.2, 0.5], x0=[85.0, 15.0], positive=True, T=6.0),
}


def gen_model(rng, nS, nP):
    """asymmetric saturating rates, every parameter and state enters non-linearly somewhere; states stay O(1)"""
    def c():
        return "%s%d/%d" % ("-" if rng.random() < 0.4 else "", int(rng.integers(1, 6)), int(rng.choice([2, 3, 5, 7])))
    eqs = []
    for i in range(nS):
        terms = []
        ks = [k for k in range(nP) if k % nS == i] + [int(rng.integers(0, nP))]
        for k in ks:
            a, b = (i + k + 1) % nS, int(rng.integers(0, nS))
            terms.append("%s*p%d*x%d*x%d/(1+x%d**2)" % (c(), k, a, b, b))
        terms.append("%s*p%d*p%d*x%d" % (c(), int(rng.integers(0, nP)), int(rng.integers(0, nP)), int(rng.integers(0, nS))))
        terms.append("-x%d**3/%d" % (i, 3 + i))
        eqs.append("+".join(terms).replace("+-", "-"))
    return dict(states=["x%d" % i for i in range(nS)], params=["p%d" % k for k in range(nP)], odes=eqs,
                theta=[round(float(v), 3) for v in rng.uniform(0.3, 0.9, nP)],
                x0=[round(float(v), 3) for v in rng.uniform(0.6, 1.4, nS)], positive=False, T=2.0)


def build(md):
    import pg
    odes = [pg.Transition(origin=s, equation=e, transition_type=pg.TransitionType.ODE) for s, e in zip(md["states"], md["odes"])]
    kw = dict(derived_param=[(k, v) for k, v in md["derived"]]) if md.get("derived") else {}
    m = pg.model(state=list(md["states"]), param=list(md["params"]), ode=odes, **kw)
    m.parameters = [(p, v) for p, v in zip(md["params"], md["theta"])]
    return m


def reference_traj(md, theta, x0, ts):
    """independent trajectory (sympy on the rate strings + DOP853), used only to synthesise observations"""
    import sympy
    from scipy.integrate import solve_ivp
    xs = [sympy.Symbol(s) for s in md["states"]]
    ps = [sympy.Symbol(p) for p in md["params"]]
    tsym = sympy.Symbol("t")
    loc = {str(s): s for s in xs + ps}
    loc["t"] = tsym
    for k, v in md.get("derived") or []:
        loc[k] = sympy.sympify(v, locals=loc)
    f = sympy.lambdify([tsym, xs, ps], [sympy.sympify(e, locals=loc) for e in md["odes"]], "math")
    sol = solve_ivp(lambda t, x: f(t, list(x), list(theta)), (0.0, ts[-1]), x0, method="DOP853", t_eval=ts, rtol=1e-9, atol=1e-11)
    return sol.y.T


# ---------------------------------------------------------------------------------------------- cases
def gen_case(rng, model_key=None, loss=None, force=None):
    """a JSON-able case; `force` is a dict of overrides (used by the corpus)"""
    force = force or {}
    if model_key is None:
        model_key = str(rng.choice(list(CATALOGUE) + ["GEN"], p=[0.15, 0.18, 0.15, 0.1, 0.1, 0.08, 0.1, 0.14]))
    if model_key == "GEN":
        md = gen_model(rng, int(rng.integers(2, 4)), int(rng.integers(2, 5)))
    else:
        md = dict(CATALOGUE[model_key])
    nS, nP = len(md["states"]), len(md["params"])
    if loss is None:
        loss = str(rng.choice(LOSSES if md["positive"] else LOSSES[:2]))
    # observed states: one or several, in any order
    nobs = int(rng.integers(1, nS + 1))
    obs = [md["states"][i] for i in rng.permutation(nS)[:nobs]]
    if nobs >= 2 and rng.random() < 0.15:
        obs[-1] = obs[0]              # two data series (replicate measurements) of one and the same compartment
    # target parameters: all, or a subset in any order
    if rng.random() < 0.3:
        tp = None
    else:
        k = int(rng.integers(1, nP + 1))
        tp = [md["params"][i] for i in rng.permutation(nP)[:k]]
    iv = bool(rng.random() < 0.4)
    if iv and tp is not None and len(tp) + nS == nP:
        # _setParamStateInput rejects a vector whose length equals the number of parameters (explicit InputError:
        # it cannot tell "parameters only" from "subset of parameters + all states"); outside the accepted inputs
        tp = None
    ts = None
    if iv and rng.random() < 0.6:
        k = int(rng.integers(1, nS + 1))
        ts = [md["states"][i] for i in rng.permutation(nS)[:k]]
    n = int(rng.integers(4, 8))
    if nobs == 1 and rng.random() < 0.1:
        n = 1                 # a single observation of a single state
    t = np.round(np.linspace(md["T"] / n, md["T"], n) + rng.uniform(-0.05, 0.05, n), 3)
    t0, t_int = 0.0, False
    if rng.random() < (0.6 if md.get("derived") else 0.25):
        # a fractional initial time; and, when the horizon allows, an integer-typed observation grid
        t0 = float(rng.choice([0.5, 0.25]))
        if md["T"] >= 4:
            ints = np.unique(np.rint(np.linspace(1, np.floor(md["T"]), n)).astype(int))
            if len(ints) >= 3:
                t, n, t_int = ints.astype(float), len(ints), True
        t = np.array([v for v in t if v > t0 + 1e-6]); n = len(t)
    # evaluation point: away from the parameters that generated the data
    theta = [round(float(v * rng.uniform(0.85, 1.15)), 4) for v in md["theta"]]
    x0 = [round(float(v * rng.uniform(0.93, 1.07)), 4) for v in md["x0"]]
    truth = reference_traj(md, [v * rng.uniform(0.8, 1.2) for v in md["theta"]], md["x0"], t)
    cols = [md["states"].index(s) for s in obs]
    y = truth[:, cols] * rng.uniform(0.75, 1.3, size=(n, nobs)) + (0.0 if md["positive"] else rng.uniform(-0.3, 0.3, size=(n, nobs)))
    if loss in ("Poisson", "NegBinom"):
        y = np.maximum(np.rint(y), 1.0)
    else:
        y = np.round(y, 4)
    weights = None
    if loss in ("Square", "Normal") and rng.random() < 0.6:
        kind = int(rng.integers(0, 3))
        if kind == 0:
            weights = np.round(rng.uniform(0.3, 2.5, size=(n, nobs)), 3).tolist()
            if nobs == 1 and rng.random() < 0.5:
                weights = [v[0] for v in weights]           # one weight per observation as a flat vector
        elif kind == 1 and nobs == 2 and rng.random() < 0.5:
            weights = [0.5, 1.5]                                    # not unit weights, although they average to exactly one
        elif kind == 1:
            weights = np.round(rng.uniform(0.3, 2.5, size=nobs), 3).tolist() if nobs > 1 else round(float(rng.uniform(0.3, 2.5)), 3)
        else:
            weights = np.round(rng.uniform(0.3, 2.5, size=(n, nobs)), 3)
            if n * nobs > 1:
                weights[int(rng.integers(0, n)), int(rng.integers(0, nobs))] = 0.0      # a masked observation
            weights = weights.tolist()
    spread = None
    if loss in ("Normal", "Gamma", "NegBinom"):
        lo, hi = {"Normal": (0.5, 3.0), "Gamma": (1.5, 6.0), "NegBinom": (1.5, 8.0)}[loss]
        spread = round(float(rng.uniform(lo, hi)), 3)
        if nobs > 1 and rng.random() < 0.4:
            spread = np.round(rng.uniform(lo, hi, size=nobs), 3).tolist()
    method = None
    if rng.random() < 0.35:
        method = str(rng.choice(["lsoda", "vode", "dopri5", "dop853"]))
    c = dict(model=model_key, md=md, loss=loss, obs=obs, target_param=tp, target_state=ts, iv=iv,
             t=t.tolist(), y=y.tolist(), theta=theta, x0=x0, weights=weights, spread=spread, method=method,
             t0=t0, t_int=t_int)
    c.update(force)
    return c


def make_loss(c, m=None):
    import pygom
    md = c["md"]
    m = m or build(md)
    cls = getattr(pygom, c["loss"] + "Loss")
    tp = c["target_param"]
    th = c["theta"] if tp is None else [c["theta"][md["params"].index(p)] for p in tp]
    kw = dict(target_param=tp, target_state=c["target_state"])
    if c["weights"] is not None:
        kw["state_weight"] = c["weights"]
    if c["spread"] is not None:
        kw[{"Normal": "sigma", "Gamma": "shape", "NegBinom": "k"}[c["loss"]]] = c["spread"]
    y = np.array(c["y"], dtype=float)
    if y.shape[1] == 1 and c.get("y_flat", True):
        y = y[:, 0]
    obs = c["obs"] if len(c["obs"]) > 1 or c.get("obs_as_list", False) else c["obs"][0]
    tarr = np.array([int(v) for v in c["t"]], dtype=int) if c.get("t_int") else np.array(c["t"])
    obj = cls(th, m, list(c["x0"]), float(c.get("t0", 0.0)), tarr, y, obs, **kw)
    return obj, list(th)


def free_point(c, th):
    """the vector handed to sensitivityIV / costIV: free parameters then free initial values, in supplied order"""
    md = c["md"]
    ts = c["target_state"]
    xs = list(c["x0"]) if ts is None else [c["x0"][md["states"].index(s)] for s in ts]
    return list(th) + xs


def fd_grad(f, v):
    """central differences at three steps (h, h/2, h/4) with Richardson extrapolation; returns the estimate and
    the disagreement between the two first-level extrapolations (an error bound for the less accurate of them)"""
    v = np.array(v, dtype=float)
    g = np.zeros(len(v))
    agree = 0.0
    for k in range(len(v)):
        h = 1.6e-2 * max(abs(v[k]), 0.05)
        d = []
        for hh in (h, h / 2, h / 4):
            e = np.zeros(len(v)); e[k] = hh
            d.append((f(v + e) - f(v - e)) / (2 * hh))
        r1, r2 = (4 * d[1] - d[0]) / 3, (4 * d[2] - d[1]) / 3
        g[k] = (16 * r2 - r1) / 15
        agree = max(agree, abs(r2 - r1))
    return g, agree


def weight_matrix(wt, n, nobs):
    """n x nobs array of weights as documented: a scalar, one value per observed state, one value per observation
    (single observed state), or the full n x nobs array"""
    if wt is None:
        return np.ones((n, nobs))
    a = np.array(wt, dtype=float)
    if a.ndim == 0:
        return np.ones((n, nobs)) * a
    if a.ndim == 1 and nobs == 1 and len(a) == n:
        return a.reshape(n, 1)
    if a.ndim == 1 and len(a) == nobs:
        return np.ones((n, nobs)) * a
    return a.reshape(n, nobs)


def dl_reference(c, yhat, w):
    """dCost/dyhat from the closed forms of the five negative log-likelihoods (independent of loss_type.py)"""
    y = np.array(c["y"], dtype=float)
    sp = c["spread"]
    if sp is not None:
        sp = np.ones_like(y) * np.array(sp, dtype=float)
    r = y - yhat
    L = c["loss"]
    if L == "Square":
        return -2 * w * w * r
    if L == "Normal":
        return -w * w * r / sp ** 2
    if L == "Poisson":
        return 1 - y / yhat
    if L == "Gamma":
        return sp / yhat - sp * y / yhat ** 2
    return sp * (yhat - y) / (yhat * (sp + yhat))


def perm_to_declaration(c):
    """positions of the supplied target parameters when sorted by declaration index"""
    md = c["md"]
    tp = c["target_param"]
    if tp is None:
        return list(range(len(md["params"])))
    idx = [md["params"].index(p) for p in tp]
    return list(np.argsort(idx))


def classify(c, call, got, want):
    md = c["md"]
    if c.get("t_int") and float(c.get("t0", 0.0)) != int(c.get("t0", 0.0)):
        return "integer-grid-truncates-t0"
    sidx = [md["states"].index(s) for s in c["obs"]]
    states_sorted = sidx == sorted(sidx)
    tp = c["target_param"]
    pidx = list(range(len(md["params"]))) if tp is None else [md["params"].index(p) for p in tp]
    params_sorted = pidx == sorted(pidx)
    npar = len(pidx)
    tol = lambda a, b: np.all(np.abs(a - b) <= TOL * (1 + np.abs(b).max()))
    if not params_sorted and states_sorted and got.shape == want.shape:
        perm = perm_to_declaration(c)
        w2 = want.copy()
        w2[:npar] = want[:npar][perm]
        if tol(got, w2):
            return "gradient-in-declaration-order"
    if not states_sorted:
        return "observed-states-out-of-index-order"
    ts = c["target_state"]
    if call.startswith("sensitivityIV") and ts is not None:
        tix = [md["states"].index(s) for s in ts]
        if tix != sorted(tix):
            return "iv-gradient-in-declaration-order"
    return "gradient-mismatch"


def eval_case(c):
    """returns (list of (cls, what), info dict)"""
    from pg import quiet
    out = []
    info = dict(max_err=0.0, calls=0, skipped=None)
    try:
        with quiet():
            obj, th = make_loss(c)
    except Exception as e:      # noqa: B902
        return [("constructor-raises", "%sLoss constructor raised %s: %s" % (c["loss"], type(e).__name__, e))], info
    md = c["md"]
    n, nobs = len(c["t"]), len(c["obs"])
    w = weight_matrix(c["weights"], n, nobs)

    def run(name, fn):
        try:
            with quiet():
                return np.asarray(fn(), dtype=float)
        except Exception as e:      # noqa: B902
            cls = "raises:" + name.split("(")[0]
            flat_w = (nobs == 1 and isinstance(c["weights"], list) and len(c["weights"]) == n
                      and not isinstance(c["weights"][0], list))
            if flat_w and isinstance(e, ValueError) and "broadcast" in str(e):
                cls = "flat-weights-single-state-raises"
            elif c["loss"] == "Gamma" and nobs == 1 and isinstance(e, ValueError):
                cls = "gamma-single-column"
            elif c["target_state"] is not None and name.startswith(("sensitivityIV", "jacIV")) and isinstance(e, TypeError):
                cls = "iv-target-state-raises"
            out.append((cls, "%s raised %s: %s (%s)" % (name, type(e).__name__, e, describe(c))))
            return None

    def compare(name, got, want):
        info["calls"] += 1
        if got is None:
            return
        if got.shape != want.shape:
            out.append(("gradient-shape", "%s has shape %s, %d free variables were supplied (%s)" % (name, got.shape, len(want), describe(c))))
            return
        err = float(np.abs(got - want).max())
        scale = 1 + float(np.abs(want).max())
        if err <= TOL * scale:
            info["max_err"] = max(info["max_err"], err / scale)
            return
        out.append((classify(c, name, got, want),
                    "%s = %s but the finite-difference derivative of %s in the supplied order is %s (%s)"
                    % (name, np.array2string(got, precision=6), "costIV" if "IV" in name else "cost",
                       np.array2string(want, precision=6), describe(c))))

    meth = c["method"]
    if not c["iv"]:
        with quiet():
            want, agree = fd_grad(lambda v: float(obj.cost(v)), th)
        if agree > FD_AGREE * (1 + np.abs(want).max()):
            info["skipped"] = "finite differences did not settle (%.2g)" % agree
            return out, info
        compare("sensitivity(theta%s)" % ("" if meth is None else ", method='%s'" % meth),
                run("sensitivity", lambda: obj.sensitivity(th, method=meth)), want)
        compare("gradient(theta)", run("gradient", lambda: obj.gradient(th)), want)
        th2 = np.array(th, dtype=float) * 1.06 + 0.011
        with quiet():
            want2, agree2 = fd_grad(lambda v: float(obj.cost(v)), th2)
        if agree2 <= FD_AGREE * (1 + np.abs(want2).max()):
            compare("second evaluation sensitivity(theta')", run("sensitivity", lambda: obj.sensitivity(th2, method=meth)), want2)
        compare("sensitivity(theta, full_output=True)[0]", run("sensitivity(full_output)", lambda: obj.sensitivity(th, full_output=True)[0]), want)
        # the option combination (a named integrator together with the full output) is the same gradient
        compare("sensitivity(theta, full_output=True, method='lsoda')[0]",
                run("sensitivity(full_output, lsoda)", lambda: obj.sensitivity(th, full_output=True, method="lsoda")[0]), want)
        # theta omitted: the gradient at the object's own theta (the last one it was given, th) — whatever somebody else has
        # meanwhile assigned to the parameters of the shared model object
        def omitted():
            names = c["target_param"] if c["target_param"] is not None else [str(p) for p in obj._ode.param_list]
            obj._ode.parameters = {nm: float(v) * 1.4 + 0.05 for nm, v in zip(names, th)}
            return obj.sensitivity()
        compare("sensitivity() with theta omitted, after the shared model was given other values", run("sensitivity()", omitted), want)
        J = run("jac", lambda: obj.jac(th))
        if J is not None:
            with quiet():
                yhat = np.asarray(obj._getSolution(th), dtype=float).reshape(n, nobs)
            dl = dl_reference(c, yhat, w)
            k = len(want)
            if J.shape != (n, nobs * k):
                out.append(("gradient-shape", "jac(theta) has shape %s for %d observations of %d states and %d free parameters (%s)"
                            % (J.shape, n, nobs, k, describe(c))))
            else:
                g = np.array([sum(dl[r, s] * J[r, s + nobs * kk] for r in range(n) for s in range(nobs)) for kk in range(k)])
                compare("gradient assembled from jac(theta)", g, want)
    else:
        v = free_point(c, th)
        with quiet():
            obj.costIV(v)
            want, agree = fd_grad(lambda u: float(obj.costIV(u)), v)
        if agree > FD_AGREE * (1 + np.abs(want).max()):
            info["skipped"] = "finite differences did not settle (%.2g)" % agree
            return out, info
        compare("sensitivityIV(theta_x0%s)" % ("" if meth is None else ", method='%s'" % meth),
                run("sensitivityIV", lambda: obj.sensitivityIV(v, method=meth)), want)
        compare("sensitivityIV(theta_x0, full_output=True)[0]", run("sensitivityIV(full_output)", lambda: obj.sensitivityIV(v, full_output=True)[0]), want)
        compare("sensitivityIV(theta_x0, full_output=True, method='lsoda')[0]",
                run("sensitivityIV(full_output, lsoda)", lambda: obj.sensitivityIV(v, full_output=True, method="lsoda")[0]), want)
        # a second evaluation of the SAME object at other free values (what every optimiser does): nothing may be kept
        # from the first one
        v2 = np.array(v, dtype=float) * 1.07 + 0.013
        with quiet():
            obj.costIV(v2)
            want2, agree2 = fd_grad(lambda u: float(obj.costIV(u)), v2)
        if agree2 <= FD_AGREE * (1 + np.abs(want2).max()):
            compare("second evaluation sensitivityIV(theta_x0')", run("sensitivityIV", lambda: obj.sensitivityIV(v2, method=meth)), want2)
    return out, info


def describe(c):
    return "%s, %sLoss, state_name=%s, target_param=%s, target_state=%s, weights=%s" % (
        c["model"], c["loss"], c["obs"], c["target_param"], c["target_state"],
        "unit" if c["weights"] is None else "non-unit")


def nontrivial(c):
    """distinct ordering / subset / weighting structure, the part of the input space the property is about"""
    md = c["md"]
    return (len(c["obs"]) > 1 or c["target_param"] is not None or c["target_state"] is not None or c["weights"] is not None)


def worker(cs):
    import warnings
    warnings.simplefilter("ignore")
    res = []
    for c in cs:
        try:
            res.append(eval_case(c))
        except Exception as e:      # noqa: B902
            import traceback
            frames = traceback.extract_tb(e.__traceback__)
            inside = bool(frames) and ("/pygom/" in frames[-1].filename.replace("\\", "/"))
            if inside:
                # the exception was raised by pygom itself on an input inside the property's domain
                res.append(([("pygom-raises", "%s raised inside pygom (%s:%d) on %s: %s" % (type(e).__name__,
                              frames[-1].filename.split("/pygom/")[-1], frames[-1].lineno, describe(c), str(e)[:120]))],
                            dict(max_err=0.0, calls=0, skipped=None)))
            else:
                res.append(([("harness-error", "%s: %s" % (type(e).__name__, e))], dict(max_err=0.0, calls=0, skipped="harness error")))
    return res
