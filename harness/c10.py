"""C10 — closed compartmental models conserve the total population."""
import json, time
from fractions import Fraction
import numpy as np
import common
import modelgen as mg
import c01

COQ_HEAD = c01.COQ_HEAD + """
Definition closedb (m : model Qc) : bool :=
  forallb (fun e => forallb (fun tr => match ty tr with T => Nat.ltb (orig tr) (nS m) && Nat.ltb (dest tr) (nS m) | _ => false end)
                            (trans e)) (events m) && match odes m with [] => true | _ => false end.
Definition qsum (f : nat -> Qc) (n : nat) : Qc := fold_right Qcplus 0%Qc (map f (seq 0 n)).
(* hypotheses of C10_rhs / C10_cols hold on the literal, and the extracted tables give zero sums *)
Definition chk10 (l : lit) : bool :=
  let m := mk l in
  closedb m && Qc_eq_bool (qsum (q_ode m) (nS m)) 0%Qc &&
  forallb (fun j => Qc_eq_bool (qsum (fun i => q_vmat m i j) (nS m)) 0%Qc) (seq 0 (length (events m))).
"""


def gen_closed(rng, bounded=False):
    kinds = mg.BOUNDED_KINDS if bounded else mg.ALL_KINDS
    d = mg.gen_definition(rng, kinds=kinds, types="T", odes=False, min_states=2, min_events=1,
                          sym_mag=not bounded)
    return d


def run(ck):
    import gen_assembly, pg
    ck.rule = ("random transition-only definitions (2-5 states, 1-5 events of 1-3 T transitions, integer or symbolic "
               "magnitudes, all rate kinds) at exact rational points; plus deterministic and stochastic runs on "
               "bounded-rate closed models; non-trivial = >= 2 events or a multi-transition event; distinct by JSON hash")
    ck.coq_build("C10", [("AssemblyGen", gen_assembly.generate())], extra=("Util.vo", "AssemblyQc.vo"))
    common.name_assumptions(ck, "C10")
    rng = np.random.default_rng(ck.seed)
    N = ck.budget(120, 1200)
    lits, defs = [], []
    for k in range(N):
        d = gen_closed(rng)
        route = c01.ROUTES[int(rng.integers(0, len(c01.ROUTES)))]
        nt = len(d["events"]) >= 2 or any(len(e["trans"]) > 1 for e in d["events"])
        ck.case(dict(definition=d, route=route), nontrivial=nt)
        try:
            m, order = mg.build(d, route=route, rng=np.random.default_rng(k))
            pt = mg.random_point(rng, d)
            pv = c01.pyg_values(m, d, pt)
        except Exception as e:
            ck.violation("build-error", "%s: %s" % (type(e).__name__, str(e)[:200]), dict(definition=d, route=route))
            continue
        tol = Fraction(0) if pv["exact"] else Fraction(1, 10 ** 22)
        s = sum(pv["ode"])
        if abs(s) > tol * (1 + sum(abs(x) for x in pv["ode"])):
            ck.violation("rhs-sum-nonzero", "sum of get_ode_eqn() components = %s at %s" % (s, {k: str(v) for k, v in pt.items()}),
                         dict(definition=d, route=route, seed=k))
        for j in range(len(d["events"])):
            cs = sum(pv["V"][i][j] for i in range(len(d["states"])))
            if abs(cs) > tol * (1 + sum(abs(pv["V"][i][j]) for i in range(len(d["states"])))):
                ck.violation("vmat-column-sum-nonzero", "column %d of the state-change matrix sums to %s" % (j, cs),
                             dict(definition=d, route=route, seed=k))
        evs, odes, exact = mg.structure(c01.reorder(d, order), pt)
        if exact:
            lits.append(mg.coq_model(len(d["states"]), evs, odes)); defs.append(d)
    # ---- K: the closedness hypothesis and the conclusion evaluated by Coq on the same literals
    files = []
    for s in range(0, len(lits), 300):
        files.append(("c10_cases_%d" % (s // 300), COQ_HEAD + "Definition cases : list lit := [\n " +
                      ";\n ".join(lits[s:s + 300]) + "].\nEval vm_compute in failing chk10 cases.\n"))
    outs = ck.coq_eval_many(files) if files else {}
    bad = []
    for s in range(0, len(lits), 300):
        bad += [s + i for i in common.parse_int_list(outs["c10_cases_%d" % (s // 300)][0])]
    ck.notes["coq_closed_cases"] = len(lits)
    if bad:
        ck.broken.append(dict(theorem="correspondence: closed literal / zero sums under the extracted tables",
                              file="c10_cases", error=json.dumps(defs[bad[0]])[:1200]))
    # ---- deterministic and stochastic runs (bounded-rate closed models)
    nrun = ck.budget(12, 80)
    worst = 0.0
    for k in range(nrun):
        d = gen_closed(rng, bounded=True)
        if k % 3 == 2:      # non-integer (dyadic, so exactly representable) jump sizes from an integer-typed initial state
            for e in d["events"]:
                for tr in e["trans"]:
                    tr["mag"] = ["0.5", "2.5", "1.25", "1"][int(rng.integers(0, 4))]
        inp = dict(definition=d, seed=int(k))
        try:
            m, order = mg.build(d, route="event")
            theta = {p: float(rng.integers(1, 9)) / 8 for p in d["params"]}
            m.parameters = theta
            x0 = [int(v) for v in rng.integers(5, 40, size=len(d["states"]))]
            m.initial_values = (x0, np.float64(0))
            t = np.linspace(0, 2, 9)
            sol = np.asarray(m.integrate(t[1:]))
            if not np.all(np.isfinite(sol)) or np.min(sol) < 0:
                # a constant-rate drain pushed a state below zero: the rates' singularities are reachable there,
                # the trajectory is outside the property's domain
                ck.notes["excluded_left_positive_orthant"] = ck.notes.get("excluded_left_positive_orthant", 0) + 1
                continue
            tot = sol.sum(axis=1)
            err = float(np.max(np.abs(tot - sum(x0))))
            worst = max(worst, err / (1 + sum(x0)))
            if err > 1e-6 * (1 + sum(x0)):
                ck.violation("deterministic-total-drift", "sum of states drifts by %g over integrate(t)" % err,
                             dict(inp, theta=theta, x0=x0))
            for exact in (True, False):
                np.random.seed(int(ck.seed * 1000 + k))
                with pg.quiet():
                    st, jumps, times = m.solve_stochast(1.5, 2, exact=exact, full_output=True)
                for path in st:
                    tots = np.asarray(path).sum(axis=1)
                    if not np.all(tots == sum(x0)):
                        ck.violation("stochastic-total-changes", "path total takes values %s (start %d), exact=%s"
                                     % (sorted(set(tots.tolist()))[:5], sum(x0), exact),
                                     dict(inp, theta=theta, x0=x0, exact=exact, np_seed=int(ck.seed * 1000 + k)))
                # the same on an output grid, several runs per call (exact rows; tau-leap rows are interpolated between leaps)
                np.random.seed(int(ck.seed * 1000 + k + 7))
                with pg.quiet():
                    out = m.solve_stochast(np.linspace(0.0, 1.5, 7), 3, exact=exact, full_output=True)
                for r, path in enumerate(out[0]):
                    tots = np.asarray(path, dtype=float).sum(axis=1)
                    if not np.all(np.abs(tots - sum(x0)) <= 1e-9 * (1 + sum(x0))):
                        ck.violation("stochastic-total-changes-on-grid", "run %d of a gridded call: row totals %s (start %d), exact=%s"
                                     % (r, sorted(set(np.round(tots, 6).tolist()))[:5], sum(x0), exact),
                                     dict(inp, theta=theta, x0=x0, exact=exact, grid=True, np_seed=int(ck.seed * 1000 + k + 7)))
            ck.case(dict(run=inp), nontrivial=True)
        except Exception as e:
            ck.violation("run-error", "%s: %s" % (type(e).__name__, str(e)[:200]), inp)
    # ---- a compartment that stays put in some realisations and moves in others (slow last step of a chain): several gridded
    #      tau-leap runs in ONE call — what the first realisation does must not shape the rows of the later ones
    try:
        mc = pg.model(state=["A", "B", "C"], param=["r1", "r2"],
                      event=[pg.Event(rate="r1*A", transition_list=[pg.Transition(origin="A", destination="B", transition_type="T")]),
                             pg.Event(rate="r2*B", transition_list=[pg.Transition(origin="B", destination="C", transition_type="T")])])
        mc.parameters = {"r1": 1.0, "r2": 0.02}
        mc.initial_values = ([30, 0, 0], np.float64(0))
        for sd in range(ck.budget(6, 20)):
            for exact in (False, True):
                np.random.seed(1000 + sd)
                with pg.quiet():
                    out = mc.solve_stochast(np.linspace(0.0, 1.5, 7), 6, exact=exact, full_output=True)
                ck.case(dict(kind="slow-last-step", seed=1000 + sd, exact=exact), nontrivial=True)
                for r, path in enumerate(out[0]):
                    tots = np.asarray(path, dtype=float).sum(axis=1)
                    if not np.all(np.abs(tots - 30) <= 1e-9 * 31):
                        ck.violation("stochastic-total-changes-on-grid", "chain A->B->C (slow last step), run %d of 6 in one gridded call: row "
                                     "totals %s (start 30), exact=%s" % (r, sorted(set(np.round(tots, 6).tolist()))[:5], exact),
                                     dict(kind="slow-last-step", seed=1000 + sd, exact=exact))
                        break
    except Exception as e:
        ck.violation("run-error", "%s: %s" % (type(e).__name__, str(e)[:200]), dict(kind="slow-last-step"))
    # ---- a stiff closed system (Robertson's kinetics, y1 + y2 + y3 = 1): lsoda switches to its stiff method and uses the Jacobian
    try:
        from pygom import common_models
        mr = pg.lam(common_models.Robertson())
        mr.initial_values = ([1.0, 0.0, 0.0], np.float64(0))
        tr = np.concatenate([[0.0], 4.0 * np.logspace(-6, 4, 16)])
        for nm, call in (("integrate", lambda: mr.integrate(tr[1:])), ("integrate2", lambda: mr.integrate2(tr[1:]))):
            sol = np.asarray(call(), dtype=float)
            ck.case(dict(kind="robertson", call=nm), nontrivial=True)
            drift = float(np.max(np.abs(sol.sum(axis=1) - 1.0))) if np.all(np.isfinite(sol)) else float("inf")
            if not drift <= 1e-6:
                ck.violation("deterministic-total-drift", "Robertson's closed system, %s over t in [0, 4e4]: y1+y2+y3 drifts from 1 by %g"
                             % (nm, drift), dict(kind="robertson", call=nm))
    except Exception as e:
        ck.violation("run-error", "Robertson: %s: %s" % (type(e).__name__, str(e)[:200]), dict(kind="robertson"))
    # ---- fixed closed models: a population of 60 million (every count must stay exact), and a compartment with a declared
    #      ceiling (a transition into a full compartment is refused whole — never applied in part)
    for name, (mk, x0f, T) in FIXED.items():
        for exact in (True, False):
            for gridded in (False, True):
                inp = dict(kind="fixed-closed", name=name, exact=exact, gridded=gridded)
                ck.case(inp, nontrivial=True)
                bad = fixed_closed(mk, x0f, T, exact, gridded)
                if bad:
                    ck.violation("stochastic-total-changes" + ("-on-grid" if gridded else ""), "%s model, exact=%s: %s" % (name, exact, bad), inp)
    # ---- a user-fixed leap size that does not divide the horizon (the last leap overshoots or is cut back: whole events all the same)
    for name, (mk, x0f, T) in FIXED.items():
        for gridded in (False, True):
            inp = dict(kind="fixed-closed", name=name, exact=False, gridded=gridded, pre_tau=T * 0.0907)
            ck.case(inp, nontrivial=True)
            bad = fixed_closed(mk, x0f, T, False, gridded, pre_tau=inp["pre_tau"])
            if bad:
                ck.violation("stochastic-total-changes/fixed-step", "%s model, fixed leap of %g over a horizon of %g: %s" % (name, inp["pre_tau"], T, bad), inp)
    # ---- deterministic: states declared with limits and a rate that does not vanish when its origin is empty
    for ent in ("integrate", "solve_determ", "integrate2"):
        inp = dict(kind="det-limits", entry=ent)
        ck.case(inp, nontrivial=True)
        bad = det_limits_check(ent)
        if bad:
            ck.violation("deterministic-total-drifts/declared-limits", bad, inp)
    ck.notes["max_relative_total_drift_deterministic"] = worst
    ck.assumptions += ["deterministic conservation is judged at 1e-6 relative (odeint tolerance 1.5e-8); stochastic totals exactly"]


def _sixty_million():
    import pg
    return pg.model(state=["S", "I", "R"], param=["b", "g"],
                    event=[pg.Event(rate="b*S*I/(S+I+R)", transition_list=[pg.Transition(origin="S", destination="I", transition_type="T")]),
                           pg.Event(rate="g*I", transition_list=[pg.Transition(origin="I", destination="R", transition_type="T")])])


def _ceiling():
    import pg
    return pg.model(state=[("W", (0, None)), ("H", (0, 12)), ("R", (0, None))], param=["b", "g"],
                    event=[pg.Event(rate="b*W", transition_list=[pg.Transition(origin="W", destination="H", transition_type="T", magnitude="3")]),
                           pg.Event(rate="g*H", transition_list=[pg.Transition(origin="H", destination="R", transition_type="T")])])


FIXED = {"sixty-million": (_sixty_million, [59999000.0, 1000.0, 0.0], 0.02), "ceiling": (_ceiling, [200.0, 10.0, 20.0], 3.0)}


def det_limits_check(entry):
    """S -> V at the constant rate nu, both states declared with limits (0, None): S(t) = 15 - nu t, V(t) = nu t, S + V = 15 for
    every t of the solution (the ODE does not stop at S = 0; a conserved total is conserved all the same)"""
    import pg
    m = pg.model(state=[("S", (0, None)), ("V", (0, None))], param=["nu"],
                 event=[pg.Event(rate="nu", transition_list=[pg.Transition(origin="S", destination="V", transition_type="T")])])
    m.parameters = {"nu": 1.0}
    m.initial_values = ([15.0, 0.0], np.float64(0))
    tt = np.array([5.0, 10.0, 14.0, 16.0, 20.0])
    try:
        with pg.quiet():
            sol = np.asarray(getattr(m, entry)(tt), dtype=float)
    except Exception as e:      # noqa: BLE001
        return "%s raised %s: %s" % (entry, type(e).__name__, str(e)[:120])
    tots = sol.sum(axis=1)
    if not np.all(np.abs(tots - 15.0) <= 1e-6 * 16):
        return "%s: S -> V at constant rate, states declared with limits (0, None): the totals of the solution rows are %s (start 15)" % (entry, np.round(tots, 6).tolist())
    return None


def fixed_closed(mk, x0, T, exact, gridded, pre_tau=None):
    import pg
    m = mk()
    if pre_tau is not None:
        m.pre_tau = pre_tau
    m.parameters = {"b": 1.5, "g": 0.5}
    m.initial_values = (list(x0), np.float64(0))
    np.random.seed(77)
    try:
        with pg.quiet():
            out = m.solve_stochast(np.linspace(0.0, T, 6) if gridded else T, 2, exact=exact, full_output=True)
    except Exception as e:      # noqa: BLE001
        return "solve_stochast raised %s: %s" % (type(e).__name__, str(e)[:150])
    for r, path in enumerate(out[0]):
        tots = np.asarray(path).astype(np.float64).sum(axis=1)
        if not np.all(np.abs(tots - sum(x0)) <= 1e-9 * (1 + sum(x0))):
            return "run %d: row totals %s (start %r)" % (r, sorted(set(np.round(tots, 6).tolist()))[:5], sum(x0))
        if np.asarray(path).dtype != np.float64 and np.asarray(path).dtype.kind == "f":
            return "run %d: the recorded states are %s numbers (counts above 2**24 are not exact in them)" % (r, np.asarray(path).dtype)
    return None


def replay(ck, data):
    inp = data["input"]
    if inp.get("kind") == "robertson":
        import pg
        from pygom import common_models
        mr = pg.lam(common_models.Robertson())
        mr.initial_values = ([1.0, 0.0, 0.0], np.float64(0))
        tr = np.concatenate([[0.0], 4.0 * np.logspace(-6, 4, 16)])
        sol = np.asarray(mr.integrate(tr[1:]) if inp.get("call") != "integrate2" else mr.integrate2(tr[1:]), dtype=float)
        drift = float(np.max(np.abs(sol.sum(axis=1) - 1.0))) if np.all(np.isfinite(sol)) else float("inf")
        return None if drift <= 1e-6 else "y1+y2+y3 drifts from 1 by %g" % drift
    if inp.get("kind") == "fixed-closed":
        import pg
        mk, x0, T = FIXED[inp["name"]]
        return fixed_closed(mk, x0, T, inp["exact"], inp["gridded"], pre_tau=inp.get("pre_tau"))
    if inp.get("kind") == "det-limits":
        return det_limits_check(inp["entry"])
    if inp.get("kind") == "slow-last-step":
        import pg
        mc = pg.model(state=["A", "B", "C"], param=["r1", "r2"],
                      event=[pg.Event(rate="r1*A", transition_list=[pg.Transition(origin="A", destination="B", transition_type="T")]),
                             pg.Event(rate="r2*B", transition_list=[pg.Transition(origin="B", destination="C", transition_type="T")])])
        mc.parameters = {"r1": 1.0, "r2": 0.02}
        mc.initial_values = ([30, 0, 0], np.float64(0))
        np.random.seed(int(inp["seed"]))
        with pg.quiet():
            out = mc.solve_stochast(np.linspace(0.0, 1.5, 7), 6, exact=inp["exact"], full_output=True)
        for r, path in enumerate(out[0]):
            tots = np.asarray(path, dtype=float).sum(axis=1)
            if not np.all(np.abs(tots - 30) <= 1e-9 * 31):
                return "run %d: row totals %s (start 30)" % (r, sorted(set(np.round(tots, 6).tolist()))[:5])
        return None
    d = inp["definition"]
    m, order = mg.build(d, route=inp.get("route", "event"), rng=np.random.default_rng(inp.get("seed", 0)))
    if "np_seed" in inp:
        import pg
        m.parameters = inp["theta"]
        m.initial_values = ([int(v) for v in inp["x0"]], np.float64(0))
        np.random.seed(int(inp["np_seed"]))
        with pg.quiet():
            if inp.get("grid"):
                paths = m.solve_stochast(np.linspace(0.0, 1.5, 7), 3, exact=inp["exact"], full_output=True)[0]
            else:
                paths = m.solve_stochast(1.5, 2, exact=inp["exact"], full_output=True)[0]
        for path in paths:
            tots = np.asarray(path, dtype=float).sum(axis=1)
            if not np.all(np.abs(tots - sum(inp["x0"])) <= 1e-9 * (1 + sum(inp["x0"]))):
                return "path totals %s, start %d" % (sorted(set(np.round(tots, 6).tolist()))[:5], sum(inp["x0"]))
        return None
    pt = mg.random_point(np.random.default_rng(inp.get("seed", 0)), d)
    pv = c01.pyg_values(m, d, pt)
    s = sum(pv["ode"])
    if abs(s) > Fraction(1, 10 ** 22) * (1 + sum(abs(x) for x in pv["ode"])):
        return "sum of ODE components = %s" % s
    return None
