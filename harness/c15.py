"""C15 — gridded stochastic output agrees with the underlying path."""
import json, os, sys, time, traceback
from fractions import Fraction
import numpy as np
import common
sys.path.insert(0, os.path.join(common.VERIF, "gen"))

MAX_EVENTS = 48          # raw records kept per path (Coq literal cost is ~1 ms per numeral)
RATE_CONSTS = ["1/2", "1", "3/2", "2", "3"]


# ------------------------------------------------------------------ model specs (JSON-able) and their two readings
def gen_spec(rng, force=None):
    """bounded-rate event model: 1-4 states, 1-4 events of 1-3 T/B/D transitions, integer magnitudes 1-3"""
    kind = force or ["general", "general", "general", "closed", "one_state", "one_event"][int(rng.integers(0, 6))]
    nS = 1 if kind == "one_state" else int(rng.integers(1, 5))
    nE = 1 if kind == "one_event" else int(rng.integers(1, 5))
    events = []
    for _ in range(nE):
        nT = int(rng.choice([1, 1, 1, 2, 2, 3]))
        trans = []
        for _k in range(nT):
            opts = ["D", "B"] if nS == 1 else ["T", "T", "T", "D", "B"]
            if kind == "closed":
                opts = ["D"] if nS == 1 else ["T", "T", "D"]
            tt = opts[int(rng.integers(0, len(opts)))]
            mag = int(rng.choice([1, 1, 1, 2, 3]))
            if tt == "T":
                o, d = [int(v) for v in rng.choice(nS, size=2, replace=False)]
                trans.append(dict(tt="T", o=o, d=d, mag=mag))
            elif tt == "D":
                trans.append(dict(tt="D", o=int(rng.integers(0, nS)), d=None, mag=mag))
            else:
                trans.append(dict(tt="B", o=None, d=int(rng.integers(0, nS)), mag=mag))
        # rate: bounded by c*|x|.  "safe": vanishes whenever a source state holds fewer individuals than the event
        # removes (no illegal jump); "lin"/"mass"/"sat": may hit the (0, None) limits, which ends the path
        need = {}
        for t in trans:
            if t["o"] is not None:
                need[t["o"]] = need.get(t["o"], 0) + t["mag"]
        c = RATE_CONSTS[int(rng.integers(0, len(RATE_CONSTS)))]
        if need:
            s = sorted(need)[0]
            r = rng.random()
            if r < 0.65 and max(need.values()) <= 3:
                form = ("safe", sorted(need.items()), None)
            elif r < 0.8 or nS == 1:
                form = ("lin", s, None)
            elif r < 0.92 and kind == "closed":      # X*Y/10 is bounded by c*|x| only when nothing is born
                form = ("mass", s, int(rng.choice([j for j in range(nS) if j != s])))
            else:
                form = ("sat", s, None)
        else:
            form = ("const", None, None) if (rng.random() < 0.6 or kind == "closed") else ("sat", int(rng.integers(0, nS)), None)
        events.append(dict(c=c, form=list(form), trans=trans))
    x0 = [int(rng.integers(0, 11)) for _ in range(nS)]
    if sum(x0) < 4:
        x0[int(rng.integers(0, nS))] += int(rng.integers(4, 9))
    return dict(nS=nS, x0=x0, events=events, kind=kind)


FALL = {1: "X{0}", 2: "X{0}*(X{0}-1)/(1+X{0})", 3: "X{0}*(X{0}-1)*(X{0}-2)/(1+X{0})**2"}          # <= X
GATE = {1: "X{0}/(1+X{0})", 2: "X{0}*(X{0}-1)/(1+X{0})**2", 3: "X{0}*(X{0}-1)*(X{0}-2)/(1+X{0})**3"}  # in [0,1)


def rate_string(ev, i):
    kind, s, o = ev["form"]
    p = "c%d" % i
    if kind == "safe":
        return p + "".join("*" + (FALL if a == 0 else GATE)[int(k)].format(int(st)) for a, (st, k) in enumerate(s))
    if kind == "lin":
        return "%s*X%d" % (p, s)
    if kind == "mass":
        return "%s*X%d*X%d/10" % (p, s, o)
    if kind == "sat":
        return "%s*X%d/(1+X%d)" % (p, s, s)
    return p


def spec_V(spec):
    """state-change matrix re-derived from the spec only (no pygom code): V[s][j]"""
    V = [[0] * len(spec["events"]) for _ in range(spec["nS"])]
    for j, ev in enumerate(spec["events"]):
        for t in ev["trans"]:
            if t["tt"] in ("T", "D"):
                V[t["o"]][j] -= t["mag"]
            if t["tt"] in ("T", "B"):
                V[t["d"]][j] += t["mag"]
    return V


def build(spec):
    import pg
    T = pg.TransitionType
    evs = []
    for i, ev in enumerate(spec["events"]):
        tl = []
        for t in ev["trans"]:
            if t["tt"] == "T":
                tl.append(pg.Transition(origin="X%d" % t["o"], destination="X%d" % t["d"], transition_type=T.T,
                                        magnitude=str(t["mag"])))
            elif t["tt"] == "D":
                tl.append(pg.Transition(origin="X%d" % t["o"], transition_type=T.D, magnitude=str(t["mag"])))
            else:
                tl.append(pg.Transition(destination="X%d" % t["d"], transition_type=T.B, magnitude=str(t["mag"])))
        evs.append(pg.Event(transition_list=tl, rate=rate_string(ev, i)))
    m = pg.model(state=[("X%d" % i, (0, None)) for i in range(spec["nS"])],
                 param=["c%d" % i for i in range(len(spec["events"]))], event=evs)
    m.parameters = {"c%d" % i: float(Fraction(ev["c"])) for i, ev in enumerate(spec["events"])}
    m.initial_values = ([float(v) for v in spec["x0"]], np.float64(0.0))
    return m


# ------------------------------------------------------------------ driving pygom
class SimTimeout(Exception):
    pass


class watchdog:
    """a simulation that does not finish within `sec` seconds (e.g. a tau-leap whose step underflows so that time
    stops advancing) is abandoned: SimTimeout is raised in the main thread and the case is skipped and counted"""
    def __init__(self, sec=4.0):
        self.sec = sec

    def __enter__(self):
        import signal

        def onalarm(signum, frame):
            raise SimTimeout("simulation exceeded %.0f s" % self.sec)
        self.old = signal.signal(signal.SIGALRM, onalarm)
        signal.setitimer(signal.ITIMER_REAL, self.sec)

    def __exit__(self, *a):
        import signal
        signal.setitimer(signal.ITIMER_REAL, 0)
        signal.signal(signal.SIGALRM, self.old)
        return False


def raw_runs(m, T, n, exact, seed, pre_tau=None):
    """solve_stochast(T_scalar, n, exact, full_output=True) after np.random.seed(seed) -> list of (X, J, Tm)"""
    import pg
    m.pre_tau = pre_tau
    np.random.seed(seed)
    with pg.quiet(), watchdog():
        X, J, Tm = m.solve_stochast(float(T), n, exact=exact, full_output=True)
    return [(np.asarray(X[i]), np.asarray(J[i]), np.asarray(Tm[i])) for i in range(n)]


def grid_value(kind, g):
    if kind == "list":
        return [float(v) for v in g]
    if kind == "list_int":
        return [int(v) if float(v).is_integer() else float(v) for v in g]
    if kind == "tuple":
        return tuple(float(v) for v in g)
    if kind == "array":
        return np.array(g, dtype=float)
    if kind == "array_int":
        return np.array(g, dtype=float).astype(int) if all(float(v).is_integer() for v in g) else np.array(g, dtype=float)
    raise ValueError(kind)


def grid_runs(m, g, kind, n, exact, seed, pre_tau=None):
    """gridded call; also records what _jump handed to the post-processing (alignment check)"""
    import pg
    m.pre_tau = pre_tau
    cap = []
    orig = type(m)._jump.__get__(m)

    def wrapped(*a, **k):
        r = orig(*a, **k)
        cap.append(tuple(np.array(v) for v in r[:3]))
        return r
    m._jump = wrapped
    try:
        np.random.seed(seed)
        with pg.quiet(), watchdog():
            # the flag in the forms callers pass it in: a bool, the result of a numpy comparison, 1 / 0
            flag = [bool, np.bool_, int][int(seed) % 3](exact)
            out = m.solve_stochast(grid_value(kind, g), n, exact=flag, full_output=True)
    finally:
        del m._jump
    return out, cap


def int_rows(a):
    """integer-valued float array -> list of int rows, or None when some entry is not an integer"""
    a = np.asarray(a, dtype=float)
    if a.size and not np.all(np.isfinite(a)):
        return None
    if a.size and not np.all(a == np.round(a)):
        return None
    return [[int(v) for v in row] for row in a.reshape(a.shape[0], -1)] if a.ndim >= 1 else None


# ------------------------------------------------------------------ independent statement of the property (Python)
def oracle_rows(raw, g, nE):
    """state of the path at each requested time (last record with time <= t_k; initial state before) and the
    per-transition counts of the events in (t_k, t_{k+1}]"""
    X, J, Tm = raw
    rows, counts = [], []
    for v in g:
        i = 0
        for k in range(len(Tm)):
            if Tm[k] <= v:
                i = k
        rows.append([int(x) for x in X[i]])
    for k in range(len(g) - 1):
        c = [0] * nE
        for i in range(1, len(Tm)):
            if g[k] < Tm[i] <= g[k + 1]:
                for j in range(nE):
                    c[j] += int(J[i - 1][j])
        counts.append(c)
    return rows, counts


def hits(raw, g):
    Tm = raw[2]
    return [float(t) for t in Tm[1:] if any(float(t) == float(v) for v in g[:-1])]


def judge_case(case, V, raws=None):
    """the property stated directly on the gridded output; returns (cls, what) or None.
    case: dict(spec, seed, grid, kind, exact, n, pre_tau); uses the real code only through solve_stochast."""
    spec, g = case["spec"], [float(v) for v in case["grid"]]
    m = case.get("_model") or build(spec)
    x0 = [int(v) for v in spec["x0"]]
    try:
        (Xg, Jg, tg), cap = grid_runs(m, g, case["kind"], case["n"], case["exact"], case["seed"], case.get("pre_tau"))
    except SimTimeout:
        raise
    except Exception as e:                       # noqa: BLE001
        zero = False
        try:
            rr = raw_runs(m, g[-1], case["n"], case["exact"], case["seed"], case.get("pre_tau"))
            zero = any(len(r0[2]) == 1 for r0 in rr)
        except Exception:                        # noqa: BLE001
            pass
        cls = "zero-event-path-crash" if zero else "crash"
        return (cls, "solve_stochast(%s grid of %d points, exact=%s) raised %s: %s%s"
                % (case["kind"], len(g), case["exact"], type(e).__name__, e,
                   " (a run records no event before the path ends: the path is constant)" if zero else ""))
    case["_out"] = (Xg, Jg, tg, cap)
    if len(Xg) != case["n"] or len(Jg) != case["n"]:
        return ("row-count", "%d runs requested, %d state arrays and %d count arrays returned" % (case["n"], len(Xg), len(Jg)))
    if raws is None and case["exact"]:
        raws = raw_runs(m, g[-1], case["n"], True, case["seed"], case.get("pre_tau"))
    nE = len(spec["events"])
    for r in range(case["n"]):
        X, Jc = np.asarray(Xg[r]), np.asarray(Jg[r])
        if X.ndim != 2 or X.shape[0] != len(g) or X.shape[1] != spec["nS"]:
            return ("row-count", "run %d: state array has shape %s for %d requested times and %d states" % (r, X.shape, len(g), spec["nS"]))
        if Jc.ndim != 2 or Jc.shape != (len(g) - 1, nE):
            return ("row-count", "run %d: count array has shape %s for %d intervals and %d transitions" % (r, Jc.shape, len(g) - 1, nE))
        if g[0] == 0.0 and [float(v) for v in X[0]] != [float(v) for v in x0]:
            return ("first-row", "run %d: first row %s is not the initial state %s" % (r, X[0].tolist(), x0))
        if not case["exact"]:
            continue
        rows, cnts = int_rows(X), int_rows(Jc)
        if rows is None or cnts is None:
            return ("non-integer", "run %d: exact-mode rows or counts are not integers" % r)
        raw = raws[r]
        want_rows, want_cnts = oracle_rows(raw, g, nE)
        if rows != want_rows:
            k = [i for i in range(len(g)) if rows[i] != want_rows[i]][0]
            return ("state-row", "run %d: row %d (t=%r) is %s but the path is at %s at that time" % (r, k, g[k], rows[k], want_rows[k]))
        if hits(raw, g):
            continue                     # an event time equals an interior grid point: outside the increment statement
        for k in range(len(g) - 1):
            dv = [rows[k + 1][s] - rows[k][s] for s in range(spec["nS"])]
            vc = [sum(V[s][j] * cnts[k][j] for j in range(nE)) for s in range(spec["nS"])]
            if cnts[k] != want_cnts[k] or dv != vc:
                return ("exact-counts-not-per-transition",
                        "run %d interval %d (%r, %r]: reported counts %s, per-transition counts of the path %s; "
                        "row difference %s, V*counts %s" % (r, k, g[k], g[k + 1], cnts[k], want_cnts[k], dv, vc))
    return None


def param_magnitude_check(seed):
    """a jump size that is a parameter (burst / batch size k): gridded exact runs on ONE model object before and after k is
    changed; every pair of consecutive rows differs by k x (the counts of that interval).  -> None or what fails"""
    import pg
    m = pg.model(state=["A", "B"], param=["k", "g"],
                 event=[pg.Event(rate="g", transition_list=[pg.Transition(destination="A", transition_type="B", magnitude="k")]),
                        pg.Event(rate="g*A/(4+A)", transition_list=[pg.Transition(origin="A", destination="B", transition_type="T")])])
    m.initial_values = ([0.0, 0.0], np.float64(0))
    g = [0.0, 0.75, 1.5, 3.0]
    for k in (2.0, 3.0, 5.0):
        m.parameters = {"k": k, "g": 3.0}
        np.random.seed(seed)
        with pg.quiet(), watchdog():
            out = m.solve_stochast(np.array(g), 2, exact=True, full_output=True)
        for r in range(2):
            X, J = np.asarray(out[0][r], dtype=float), np.asarray(out[1][r], dtype=float)
            if X.shape != (len(g), 2) or J.shape != (len(g) - 1, 2):
                return "k=%g run %d: shapes %s, %s for %d requested times" % (k, r, X.shape, J.shape, len(g))
            V = np.array([[k, -1.0], [0.0, 1.0]])
            for i in range(len(g) - 1):
                if not np.array_equal(X[i + 1] - X[i], V @ J[i]):
                    return ("jump size k set to %g on a model simulated before with another k: run %d interval %d rows differ by %s, "
                            "V(k) x counts = %s (counts %s)" % (k, r, i, (X[i + 1] - X[i]).tolist(), (V @ J[i]).tolist(), J[i].tolist()))
    return None


def late_start_check(kind, seed, t0=5.0):
    """initial time 5, output grid starting there: the first row is the initial state, row k is the state of the path at t_k,
    consecutive rows differ by V x counts.  -> None or what fails"""
    spec = dict(nS=3, x0=[30, 3, 0], kind="corpus", events=[
        dict(c="3/2", form=["mass", 0, 1], trans=[dict(tt="T", o=0, d=1, mag=1)]),
        dict(c="1/2", form=["lin", 1, None], trans=[dict(tt="T", o=1, d=2, mag=1)])])
    m = build(spec)
    m.initial_values = ([30.0, 3.0, 0.0], np.float64(t0))
    g = [t0, t0 + 0.25, t0 + 0.75, t0 + 1.5, t0 + 3.0]
    (Xg, Jg, tg), cap = grid_runs(m, g, kind, 1, True, seed)
    raw = raw_runs(m, g[-1], 1, True, seed)[0]
    X, Jc = np.asarray(Xg[0], dtype=float), np.asarray(Jg[0], dtype=float)
    if X.shape != (len(g), 3):
        return "state array of shape %s for %d requested times" % (X.shape, len(g))
    if X[0].tolist() != [30.0, 3.0, 0.0]:
        return "initial time %r, grid starting there: the first row is %s, the initial state is [30, 3, 0]" % (t0, X[0].tolist())
    if float(np.asarray(raw[2]).ravel()[0]) != t0:
        return "initial time %r: the raw path starts at time %r" % (t0, float(np.asarray(raw[2]).ravel()[0]))
    want_rows, want_cnts = oracle_rows(raw, g, 2)
    rows = int_rows(X)
    if rows != want_rows:
        k = [i for i in range(len(g)) if rows is None or rows[i] != want_rows[i]][0]
        return "initial time %r: row %d (t=%r) is %s but the path is at %s at that time" % (t0, k, g[k], X[k].tolist(), want_rows[k])
    V = np.array(spec_V(spec), dtype=float)
    for k in range(len(g) - 1):
        if not np.array_equal(X[k + 1] - X[k], V @ Jc[k]):
            return "initial time %r: rows %d and %d differ by %s, V x counts = %s" % (t0, k, k + 1, (X[k + 1] - X[k]).tolist(), (V @ Jc[k]).tolist())
    return None


# ------------------------------------------------------------------ case generation
def make_grid(rng, raw, Tend, extinct):
    """grid over [0, Tend]; returns (grid, kind). Points are multiples of 1/64 (never an event time) except Tend"""
    npts = int(rng.choice([2, 3, 3, 4, 5, 6, 8]))
    r = rng.random()
    last = float(Tend)
    if r < 0.3:
        g = list(np.linspace(0.0, last, npts))
    else:
        inner = sorted({float(np.floor(rng.random() * last * 64) / 64) for _ in range(npts - 2)})
        g = [0.0] + [v for v in inner if 0.0 < v < last] + [last]
    if rng.random() < 0.12 and len(g) > 2:
        g = g[1:]                                  # grid starting after t0: row 0 is the state at g[0]
    kind = ["list", "list_int", "tuple", "array", "array_int"][int(rng.integers(0, 5))]
    return [float(v) for v in g], kind


def cut_time(raw, Tmax):
    """horizon such that at most MAX_EVENTS records lie before it (same random stream prefix)"""
    Tm = raw[2]
    if len(Tm) - 1 <= MAX_EVENTS:
        return float(Tmax), len(Tm) - 1
    a, b = float(Tm[MAX_EVENTS - 2]), float(Tm[MAX_EVENTS - 1])
    mid = (a + b) / 2
    q = np.ceil(a * 64 + 1e-9) / 64
    return (float(q) if a < q < b else mid), MAX_EVENTS - 2


# ------------------------------------------------------------------ Coq case literals
def qc_lit(x):
    fr = Fraction(float(x))
    n, d = fr.numerator, fr.denominator
    return ("(Q %s %s)" % (hex(n), hex(d))) if n >= 0 else ("(Q (-%s) %s)" % (hex(-n), hex(d)))


def qc_list(xs):
    return "[" + "; ".join(qc_lit(x) for x in xs) + "]"


def zmat(rows):
    return "[" + "; ".join(common.z_list(r) for r in rows) + "]"


COQ_HEAD = """From Coq Require Import List ZArith Bool QArith Qcanon.
From PV Require Import Util Grid Gen.GridGen.
Import ListNotations.
Definition Q (n : Z) (d : positive) : Qc := Q2Qc (n # d).
Definition zm_eqb := list_eqb zlist_eqb.
Definition mkpath (X J : list (list Z)) (T : list Qc) : list event :=
  combine (combine T X) (map (fun _ => 0%Z) (hd [] J) :: J).
(* case = (exact?, nE, X, J, T, grid, observed rows, observed counts) *)
Definition case := (bool * nat * list (list Z) * list (list Z) * list Qc * list Qc * list (list Z) * list (list Z))%type.
Definition chk (c : case) : bool :=
  let '(ex, nE, X, J, T, grid, oX, oJ) := c in
  (if ex then zm_eqb (gridded_states gen_extract_index X T grid) oX else true) &&
  zm_eqb (jumps_between (if ex then hist_exact else hist_tau) (gen_width nE J) J T grid) oJ.
Definition chk_wf (c : case) : bool := let '(ex, nE, X, J, T, grid, oX, oJ) := c in wfb (mkpath X J T).
Definition chk_nohit (c : case) : bool := let '(ex, nE, X, J, T, grid, oX, oJ) := c in no_hitb (mkpath X J T) grid.
"""


def coq_case(c):
    return "(%s, %d%%nat, %s, %s, %s, %s, %s, %s)" % ("true" if c["exact"] else "false", c["nE"], zmat(c["X"]), zmat(c["J"]),
                                              qc_list(c["T"]), qc_list(c["grid"]), zmat(c["oX"]), zmat(c["oJ"]))


CORPUS_SPECS = [
    # the SIR example of DESIGN.md (per-transition counts differ), a one-state/one-event death chain, a multi-transition event
    dict(nS=3, x0=[8, 2, 0], kind="corpus", events=[
        dict(c="2", form=["mass", 0, 1], trans=[dict(tt="T", o=0, d=1, mag=1)]),
        dict(c="1", form=["lin", 1, None], trans=[dict(tt="T", o=1, d=2, mag=1)])]),
    dict(nS=1, x0=[6], kind="corpus", events=[dict(c="1", form=["lin", 0, None], trans=[dict(tt="D", o=0, d=None, mag=1)])]),
    dict(nS=2, x0=[8, 0], kind="corpus", events=[
        dict(c="1", form=["lin", 0, None], trans=[dict(tt="T", o=0, d=1, mag=2), dict(tt="B", o=None, d=1, mag=1)]),
        dict(c="1/2", form=["lin", 1, None], trans=[dict(tt="D", o=1, d=None, mag=3)])]),
]


def strip(case):
    return {k: v for k, v in case.items() if not k.startswith("_")}


def run(ck):
    import gen_grid
    import pg
    ck.rule = ("random bounded-rate event models (1-4 states, 1-4 events of 1-3 T/B/D transitions, magnitudes 1-3, rates "
               "c*X, falling-factorial/saturating products that vanish below the removed amount, c*X*Y/10 in closed models, c*X/(1+X) or constant births, state limits (0,None); incl. one-state, one-event and closed "
               "models), x0 in 0..10 per state (total >= 4), seeds; grids of 2-8 points as list / int list / tuple / float ndarray / int "
               "ndarray, uniform or irregular (multiples of 1/64), some starting after t0, closed models with horizon 40 "
               "(grid extends past extinction), 1-2 iterations; exact and tau-leap mode; K additionally uses grids that hit "
               "an event time exactly. Non-trivial = at least 3 events inside the grid and (one transition only or two "
               "different transitions fired); distinct by canonical JSON hash of (model, seed, grid, container, mode)")
    ok = ck.coq_build("C15", [("GridGen", gen_grid.generate())], extra=("Util.vo", "Grid.vo", "GridProofs.vo"))
    common.name_assumptions(ck, "C15")
    ck.obligations += ["translator_ok (Gen/GridGen.v)"]
    gen_text = open(os.path.join(common.COQ, "Gen", "GridGen.v")).read()
    if "translator_ok := true" in gen_text:
        ck.discharged += ["translator_ok (Gen/GridGen.v)"]
    ck.notes["extracted"] = [l for l in gen_text.split("\n") if l.startswith("Definition") or l.startswith("  (")]

    rng = np.random.default_rng(ck.seed)
    n_models = ck.budget(60, 600)
    per_model = ck.budget(6, 8)
    specs = list(CORPUS_SPECS) + [gen_spec(rng) for _ in range(n_models)]
    dist = {}
    kcases = []          # correspondence cases (dicts with X J T grid oX oJ exact hit)
    misaligned = 0
    hit_cases = 0
    excluded_hits = 0
    t_sim = time.time()
    absorbing_done = False
    evhist = {}
    malformed = 0
    first_misaligned = None
    timeouts = []
    many_done = False
    for si, spec in enumerate(specs):
        try:
            m = build(spec)
        except Exception as e:                   # noqa: BLE001
            raise common.InternalError("model construction failed for %s: %r" % (json.dumps(spec), e))
        V = spec_V(spec)
        # V as pygom reports it (the property is relative to get_StateChangeMatrix)
        Vp = [[int(v) for v in row] for row in np.array(m.get_StateChangeMatrix().tolist(), dtype=float)]
        if Vp != V:
            ck.notes.setdefault("state_change_matrix_differs_from_spec", []).append(dict(spec=spec, pygom=Vp, spec_V=V))
            V = Vp
        for ci in range(per_model):
            seed = int(rng.integers(0, 2 ** 31 - 1))
            exact = bool(rng.random() < 0.8)
            n = 2 if rng.random() < 0.2 else 1
            pre_tau = None
            if not exact and rng.random() < 0.5:
                pre_tau = float(rng.choice([0.125, 0.25]))
            Tmax = 40.0 if (spec["kind"] in ("closed", "corpus") and rng.random() < 0.7) else float(rng.choice([1.0, 2.0, 3.0, 5.0]))
            try:
                # grow the horizon from 1/16 (same seed = same stream prefix) so that an exploding model never runs long
                Th = 1.0 / 16
                while True:
                    raw0 = raw_runs(m, min(Th, Tmax), 1, exact, seed, pre_tau)[0]
                    if Th >= Tmax or len(raw0[2]) - 1 >= MAX_EVENTS or float(raw0[2][-1]) < min(Th, Tmax):
                        break
                    Th *= 2
                Tmax = min(Th, Tmax)
            except SimTimeout:
                timeouts.append(dict(spec=spec, seed=seed, exact=exact, pre_tau=pre_tau))
                continue
            except Exception as e:               # noqa: BLE001
                ck.violation("crash", "solve_stochast(scalar %r, exact=%s) raised %s: %s" % (Tmax, exact, type(e).__name__, e),
                             dict(spec=spec, seed=seed, grid=[0.0, Tmax], kind="list", exact=exact, n=1, pre_tau=pre_tau))
                continue
            Tend, nev = cut_time(raw0, Tmax)
            extinct = float(raw0[2][-1]) < Tend
            g, kind = make_grid(rng, raw0, Tend, extinct)
            hit = False
            if exact and rng.random() < 0.12 and len(raw0[2]) > 3 and len(g) > 2:
                # K-only: put an event time on the grid (exact-hit branch of the extraction)
                tt = float(raw0[2][int(rng.integers(1, min(len(raw0[2]), nev + 1)))])
                if 0.0 < tt < g[-1]:
                    g = sorted(set([v for v in g if v != tt] + [tt]))
                    kind = "list" if kind.endswith("_int") else kind
                    hit = True
            if not hit and exact and len(g) > 2 and rng.random() < 0.12:
                # a requested time given twice (two observation schedules merged): one row per REQUESTED time
                i = int(rng.integers(1, len(g) - 1))
                g = g[:i + 1] + [g[i]] + g[i + 1:]
                if kind.startswith("array"):
                    kind = ["list", "tuple"][int(rng.integers(0, 2))]
            case = dict(spec=spec, seed=seed, grid=g, kind=kind, exact=exact, n=n, pre_tau=pre_tau, _model=m)
            try:
                raws = raw_runs(m, g[-1], n, exact, seed, pre_tau)
                j = judge_case(case, V, raws if exact else None)
            except SimTimeout:
                timeouts.append(dict(spec=spec, seed=seed, exact=exact, pre_tau=pre_tau, grid=g, n=n))
                continue
            key = "%s:%s:%s" % ("exact" if exact else "tau", kind, "past-extinction" if extinct else "running")
            dist[key] = dist.get(key, 0) + 1
            inrange = [i for i in range(1, len(raws[0][2])) if g[0] < raws[0][2][i] <= g[-1]]
            fired = {int(np.argmax(raws[0][1][i - 1])) for i in inrange} if inrange else set()
            ck.case(strip(case), nontrivial=len(inrange) >= 3 and (len(spec["events"]) == 1 or len(fired) >= 2))
            nb = min(len(inrange) // 10 * 10, 50)
            evhist["%d-%d" % (nb, nb + 9) if nb < 50 else "50+"] = evhist.get("%d-%d" % (nb, nb + 9) if nb < 50 else "50+", 0) + 1
            if j:
                small = shrink(case, V, j[0])
                jm = judge_case(small, V) or j
                ck.violation(jm[0], jm[1], strip(small))
            if "_out" not in case:
                continue
            Xg, Jg, tg, cap = case["_out"]
            for r in range(n):
                raw = raws[r]
                # alignment: the scalar-T call and the gridded call must have walked the same path
                if r >= len(cap) or not (np.array_equal(cap[r][0], raw[0]) and np.array_equal(cap[r][2], raw[2])
                                          and np.array_equal(cap[r][1], raw[1])):
                    misaligned += 1
                    if misaligned == 1:
                        first_misaligned = strip(case)
                if len(raw[2]) - 1 > MAX_EVENTS + 12 or (raw[1].ndim != 2 and raw[1].size):
                    continue
                oX, oJ = int_rows(Xg[r]) if exact else [], int_rows(Jg[r])
                if oX is None or oJ is None or np.asarray(Jg[r]).ndim != 2:
                    malformed += 1
                    if malformed == 1:
                        ck.broken.append(dict(theorem="correspondence Grid model vs solve_stochast(grid): output is an integer array",
                                              file="c15_cases", error="non-integer or mis-shaped gridded output, first for %s"
                                              % json.dumps(strip(case))))
                    continue
                if len(set(g)) != len(g):
                    continue                     # repeated times: judged directly above, outside the Coq model's grids
                h = bool(hits(raw, g))
                hit_cases += int(h)
                kcases.append(dict(exact=exact, X=int_rows(raw[0]), J=[[int(v) for v in row] for row in raw[1]] if raw[1].ndim == 2 else [],
                                   T=[float(v) for v in raw[2]], grid=g, oX=oX, oJ=oJ, hit=h, nE=len(spec["events"]),
                                   case=strip(case)))
        # one run per check with many events of one transition inside a single output interval (several hundred)
        if not many_done and spec["kind"] == "corpus":
            many_done = True
            # (738000: a calendar clock -- day numbers; events a fraction of a day apart are far apart in time all the same)
            for kd, sd, t0 in (("list", 1, 5.0), ("array", 2, 5.0), ("tuple", 3, 5.0), ("array", 4, 738000.0), ("list", 5, 738000.0)):
                try:
                    bad = late_start_check(kd, sd, t0)
                except SimTimeout:
                    bad = None
                ck.case(dict(kind="late-start", grid_kind=kd, seed=sd, t0=t0), nontrivial=True)
                if bad:
                    ck.violation("first-row/late-start", bad, dict(kind="late-start", grid_kind=kd, seed=sd, t0=t0))
            for sd in (1, 2):
                try:
                    bad = param_magnitude_check(sd)
                except SimTimeout:
                    bad = None
                ck.case(dict(kind="param-magnitude", seed=sd), nontrivial=True)
                if bad:
                    ck.violation("rows-not-V-times-counts/parameter-jump-size", bad, dict(kind="param-magnitude", seed=sd))
            # (2600 events in all: also longer than any fixed-size record a path might be kept in)
            spm = dict(nS=2, x0=[2600, 0], kind="corpus", events=[dict(c="1", form=["lin", 0, None], trans=[dict(tt="T", o=0, d=1, mag=1)])])
            cm = dict(spec=spm, seed=3, grid=[0.0, 0.25, 2.0, 2.5, 9.0], kind="array", exact=True, n=1, pre_tau=None)
            try:
                jm = judge_case(cm, spec_V(spm))
                ck.case(strip(cm), nontrivial=True)
                if jm:
                    ck.violation(jm[0], jm[1], strip(cm))
            except SimTimeout:
                timeouts.append(dict(spec=spm, seed=3, exact=True, pre_tau=None))
        # one absorbing start per run of the check (constant path; grid extends past "extinction")
        if not absorbing_done and spec["kind"] == "closed":
            absorbing_done = True
            sp0 = json.loads(json.dumps(spec))
            sp0["x0"] = [0] * spec["nS"]
            c0 = dict(spec=sp0, seed=1, grid=[0.0, 1.0, 2.0], kind="list", exact=True, n=1, pre_tau=None)
            j = judge_case(c0, V)
            ck.case(strip(c0), nontrivial=False)
            if j:
                ck.violation(j[0], j[1], strip(c0))
    ck.notes["input_distribution"] = dist
    ck.notes["events_inside_grid_histogram"] = evhist
    ck.notes["python_phase_s"] = round(time.time() - t_sim, 1)
    ck.notes["stream_misaligned_runs"] = misaligned
    ck.notes["malformed_gridded_outputs"] = malformed
    if misaligned:
        ck.broken.append(dict(theorem="correspondence: solve_stochast(grid) walks the path of solve_stochast(grid[-1]) (time normalisation)",
                              file="c15_cases", error="%d gridded runs recorded a different raw path than the scalar call with the "
                              "same seed, first: %s" % (misaligned, json.dumps(first_misaligned))))
    ck.notes["skipped_simulation_timeouts"] = dict(count=len(timeouts), first=timeouts[:2])
    ck.notes["exact_hit_cases_in_K"] = hit_cases

    # ---- K: the Coq model (with the extracted index function / histogram configuration) maps the raw path to the grid
    files = []
    shard = ck.budget(24, 60)
    for s in range(0, len(kcases), shard):
        body = ";\n ".join(coq_case(c) for c in kcases[s:s + shard])
        files.append(("c15_cases_%d" % (s // shard),
                      COQ_HEAD + "Definition cases : list case := [\n " + body + "].\n"
                      "Eval vm_compute in failing chk cases.\nEval vm_compute in failing chk_wf cases.\n"
                      "Eval vm_compute in failing chk_nohit cases.\n"))
    t_coq = time.time()
    outs = ck.coq_eval_many(files)
    ck.notes["coq_cases_wall_s"] = round(time.time() - t_coq, 1)
    disagree, notwf, hitidx = [], [], []
    for s in range(0, len(kcases), shard):
        v = outs["c15_cases_%d" % (s // shard)]
        disagree += [s + i for i in common.parse_int_list(v[0])]
        notwf += [s + i for i in common.parse_int_list(v[1])]
        hitidx += [s + i for i in common.parse_int_list(v[2])]
    ck.notes["correspondence_cases"] = len(kcases)
    ck.notes["correspondence_disagreements"] = len(disagree)
    py_hits = [i for i, c in enumerate(kcases) if c["hit"]]
    if disagree:
        c = kcases[disagree[0]]
        ck.broken.append(dict(theorem="correspondence Grid.gridded_states/jumps_between vs solve_stochast(grid)",
                              file="c15_cases", error="model and implementation differ on %d cases, first: %s"
                              % (len(disagree), json.dumps(c["case"]))))
    if notwf:
        ck.broken.append(dict(theorem="correspondence: recorded times strictly increasing (wf)", file="c15_cases",
                              error="raw path with non-increasing times: %s" % json.dumps(kcases[notwf[0]]["case"])))
    if sorted(hitidx) != sorted(py_hits):
        ck.broken.append(dict(theorem="correspondence: no_hit hypothesis evaluation (Coq vs harness)", file="c15_cases",
                              error="Coq finds hits at %s, harness at %s" % (hitidx[:5], py_hits[:5])))
    ck.notes["no_hit_hypothesis"] = ("checked per case in Coq (no_hitb) and in the harness; %d generated K cases hit a grid point on "
                                     "purpose (excluded from the increment statement, kept for the state rows)" % len(py_hits))
    ck.notes["tolerances"] = "none: states, counts are integers; times are exact dyadic rationals (float -> Fraction)"
    ck.assumptions += [
        "np.histogram(a, bins, weights) with explicit monotone bins: half-open bins, last bin closed (Grid.in_bin); "
        "np.searchsorted / np.where / np.any as in Grid.v — validated on every K case",
        "the raw path of a gridded call equals the path of solve_stochast(grid[-1]) after the same np.random.seed "
        "(checked per case by wrapping _jump; a mismatch is reported as a broken correspondence)",
        "tau-leap rows are np.interp values: only their number and the first row are claimed (C15_rows_tau, contract "
        "interp(t0; t0::_, x0::_) = x0 observed through row 0 on every tau case)",
        "walk hypothesis of C15_delta (x' - x = V n') is C04's theorem; it is re-checked on every raw path by the oracle "
        "comparison of rows and V*counts",
    ]


def shrink(case, V, cls):
    """cheap shrink: one run, two-point grid, list container"""
    best = case
    for cand in (dict(case, n=1), dict(case, n=1, grid=[case["grid"][0], case["grid"][-1]]),
                 dict(case, n=1, grid=[case["grid"][0], case["grid"][-1]], kind="list")):
        cand = {k: v for k, v in cand.items() if k != "_out"}
        try:
            j = judge_case(cand, V)
        except Exception:                        # noqa: BLE001
            j = None
        if j and j[0] == cls:
            best = cand
    return best


def replay(ck, data):
    case = dict(data["input"])
    if case.get("kind") == "late-start":
        return late_start_check(case["grid_kind"], case["seed"], case.get("t0", 5.0))
    if case.get("kind") == "param-magnitude":
        return param_magnitude_check(case["seed"])
    m = build(case["spec"])
    case["_model"] = m
    V = [[int(v) for v in row] for row in np.array(m.get_StateChangeMatrix().tolist(), dtype=float)]
    j = judge_case(case, V)
    return j[1] if j else None
