"""Driving pygom from the harness (lambda back-end by default; see DESIGN.md section 1)."""
import os, sys, io, contextlib
import numpy as np
import common
common.pygom_env()
from pygom import SimulateOde, Transition, TransitionType, Event  # noqa: E402
from pygom.model import ode_utils  # noqa: E402


def lam(m):
    """switch an instance to the lambdify back-end (instant compile)"""
    m._SC = ode_utils.compileCode(backend='lambda')
    return m


def model(lambda_backend=True, **kw):
    m = SimulateOde(**kw)
    return lam(m) if lambda_backend else m


@contextlib.contextmanager
def quiet():
    buf = io.StringIO()
    with contextlib.redirect_stdout(buf):
        yield buf
